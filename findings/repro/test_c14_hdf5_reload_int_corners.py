"""C14 (same root cause as C10, findings/repro/test_c10_hdf5.py::test_hdf5_fractional_subregion_in_integer_cornered_region):
the HDF5 writer types the subregion table after the region corners (io/hdf5.py: create_dataset("subregions", ...,
dtype=self.region.pmin.dtype)); with integer region corners, half-integer subregion faces are truncated, so the
reloaded mesh holds other boxes or cannot be loaded at all.  Signatures: reload-hdf5/wrong-subregions,
reload-hdf5/raises/int-corners.  Fails while the defect exists.
"""
import os
import shutil
import tempfile

import numpy as np

import discretisedfield as df


def _roundtrip(mesh):
    tmp = tempfile.mkdtemp()
    try:
        fn = os.path.join(tmp, "f.h5")
        df.Field(mesh, nvdim=1, value=1.0).to_file(fn)
        return df.Field.from_file(fn).mesh
    finally:
        shutil.rmtree(tmp, ignore_errors=True)


def test_interior_box_survives_hdf5():
    mesh = df.Mesh(p1=(0,), p2=(4,), n=(8,), subregions={"a": df.Region(p1=(0.5,), p2=(3.5,))})
    back = _roundtrip(mesh)
    assert np.array_equal(back.subregions["a"].pmin, [0.5]) and np.array_equal(back.subregions["a"].pmax, [3.5])


def test_single_cell_box_can_be_reloaded():
    mesh = df.Mesh(p1=(0,), p2=(4,), n=(8,), subregions={"a": df.Region(p1=(0.0,), p2=(0.5,))})
    back = _roundtrip(mesh)  # raises: edge length zero after truncation to [0, 0]
    assert np.array_equal(back.subregions["a"].pmax, [0.5])


if __name__ == "__main__":
    import sys

    failed = 0
    for name, fn in list(globals().items()):
        if name.startswith("test_"):
            try:
                fn()
                print("pass", name)
            except Exception as e:  # noqa
                failed += 1
                print("FAIL", name, type(e).__name__, str(e)[:120])
    sys.exit(1 if failed else 0)
