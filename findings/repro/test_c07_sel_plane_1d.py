"""C07: plane selection along the only axis of a one-dimensional mesh.

Field.sel('x') / Field.sel(x=v) return a bare numpy array (the value of the selected cell) instead
of a field - validity and mesh are lost - and Mesh.sel('x') / Mesh.sel(x=v) raise
ValueError("p1 and p2 must not be empty.").

Root cause: Mesh.sel (discretisedfield/mesh.py, plane branch) builds the region of the remaining
axes; with a single axis the corner lists are empty and df.Region refuses them.  Field.sel
(discretisedfield/field.py, "except ValueError ... return array  # 1 dim case") catches exactly this
message and hands back the sliced array.  The value that is returned is the right one (the cell
containing the coordinate); what is missing is the field (validity) around it.
"""
import numpy as np

import discretisedfield as df


def _field():
    mesh = df.Mesh(p1=(0.0,), p2=(3.0,), n=(3,))
    return df.Field(mesh, nvdim=1, value=np.array([[1.0], [2.0], [3.0]]), valid=[True, False, True])


def test_field_sel_plane_1d_returns_field_with_validity():
    res = _field().sel(x=1.5)
    assert isinstance(res, df.Field), type(res)
    assert res.array.ravel().tolist() == [2.0]
    assert not res.valid.any()


def test_mesh_sel_plane_1d_is_not_refused():
    _field().mesh.sel(x=1.5)
