"""C08 (and C03 commutativity): every result that is built by Field.__array_ufunc__
loses the validity mask: np.sin(f), np.add(f, g), np.multiply(f, 2), ndarray * f.

Field.__array_ufunc__ (discretisedfield/field.py:3996-4002 and 3979-3985) builds the
result without valid=, so it is all-valid."""
import numpy as np

import discretisedfield as df


def _fields():
    mesh = df.Mesh(p1=(0, 0), p2=(3, 2), n=(3, 2))
    va = np.array([[1, 0], [1, 1], [0, 1]], dtype=bool)
    vb = np.array([[1, 1], [0, 1], [0, 1]], dtype=bool)
    f = df.Field(mesh, nvdim=2, value=np.arange(12.0).reshape(3, 2, 2) + 1, valid=va)
    g = df.Field(mesh, nvdim=2, value=np.arange(12.0).reshape(3, 2, 2) + 2, valid=vb)
    return f, g, va, vb


def test_unary_ufunc_keeps_validity():
    f, g, va, vb = _fields()
    assert np.array_equal(np.sin(f).valid, va)


def test_binary_ufunc_ands_validity():
    f, g, va, vb = _fields()
    assert np.array_equal((f + g).valid, va & vb)  # operator form: fine
    assert np.array_equal(np.add(f, g).valid, va & vb)


def test_array_times_field_is_field_times_array():
    f, g, va, vb = _fields()
    c = np.array([2.0, 3.0])
    assert np.array_equal((f * c).valid, va)  # fine
    assert np.array_equal((c * f).valid, va)  # all True
