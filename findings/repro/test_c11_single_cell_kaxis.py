"""C11: for an axis with a single cell Mesh.fftn builds the k-cell [0, 1/cell] whose centre is 1/(2*cell);
the DFT sample frequency of one sample is 0 (fftfreq(1, cell) == [0]).  Fails while the defect exists."""
import numpy as np

import discretisedfield as df


def test_single_cell_axis_has_zero_frequency():
    mesh = df.Mesh(p1=(0.0, 0.0), p2=(3.0, 2.0), n=(3, 1))
    for rfft in (False, True):
        km = mesh.fftn(rfft=rfft)
        ky = np.asarray(km.cells[1], dtype=float)
        assert ky.shape == (1,)
        # the only sample frequency of a 1-sample axis is 0
        assert abs(ky[0]) <= 1e-12, f"rfft={rfft}: k-cell centre {ky[0]} on the single-cell axis, expected 0"


def test_field_kmesh_single_cell_axis():
    mesh = df.Mesh(p1=(0.0,), p2=(2.0,), n=(1,))
    f = df.Field(mesh, nvdim=1, value=3.0)
    F = f.fftn()
    assert abs(float(np.asarray(F.mesh.cells[0])[0])) <= 1e-12


if __name__ == "__main__":
    test_single_cell_axis_has_zero_frequency()
    test_field_kmesh_single_cell_axis()
