"""C08: +f returns f itself (discretisedfield/field.py:1290 `return self`), so the
"result" has no validity (or data) of its own: changing it changes the operand."""
import numpy as np

import discretisedfield as df


def test_pos_result_is_independent_of_operand():
    mesh = df.Mesh(p1=(0, 0), p2=(3, 2), n=(3, 2))
    valid = np.array([[1, 0], [1, 1], [0, 1]], dtype=bool)
    f = df.Field(mesh, nvdim=2, value=(1.0, 2.0), valid=valid)
    g = +f
    g.valid = False
    assert np.array_equal(f.valid, valid)
