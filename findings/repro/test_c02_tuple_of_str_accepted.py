"""C02: a sequence of strings is accepted as a field value when dtype is None:
``dtype = max(np.asarray(val).dtype, np.float64)`` picks the '<U1' dtype and ``np.full`` builds a string array.
Through update_field_values / the array setter an existing numeric field silently turns into a string field.
A bare ``str`` is rejected (TypeError).  Fails while the defect exists."""
import numpy as np
import pytest

import discretisedfield as df


def test_tuple_of_str_rejected_by_constructor():
    mesh = df.Mesh(p1=0, p2=3, n=3)
    with pytest.raises(Exception):
        df.Field(mesh, nvdim=3, value=("a", "b", "c"))


def test_tuple_of_str_leaves_existing_field_unchanged():
    mesh = df.Mesh(p1=0, p2=3, n=3)
    f = df.Field(mesh, nvdim=1, value=[1.0, 2.0, 3.0])
    before = f.array.copy()
    for setter in (lambda: f.update_field_values(("q",)), lambda: setattr(f, "array", ("q",))):
        try:
            setter()
        except Exception:
            pass
        assert f.array.dtype == before.dtype and np.array_equal(f.array, before), f.array.tolist()


if __name__ == "__main__":
    test_tuple_of_str_rejected_by_constructor()
    test_tuple_of_str_leaves_existing_field_unchanged()
