"""C03: numpy ufuncs combine fields that live on different meshes.

Field.__array_ufunc__ (discretisedfield/field.py:3968-4002) collects the meshes of
the inputs but never compares them; only the array shape is looked at, so two
fields on translated meshes are added and the result is put on the first mesh."""
import numpy as np
import pytest

import discretisedfield as df


def test_np_add_rejects_fields_on_different_meshes():
    m1 = df.Mesh(p1=(0, 0, 0), p2=(2, 2, 1), n=(2, 2, 1))
    m2 = df.Mesh(p1=(5, 0, 0), p2=(7, 2, 1), n=(2, 2, 1))
    f1 = df.Field(m1, nvdim=3, value=(1, 2, 3))
    f2 = df.Field(m2, nvdim=3, value=(1, 1, 1))
    with pytest.raises(Exception):
        f1 + f2  # the operator refuses (reference behaviour)
    with pytest.raises(Exception):
        np.add(f1, f2)  # accepted: returns a field on m1
