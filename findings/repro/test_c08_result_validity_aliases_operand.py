"""C08: the validity of a result shares memory with the operand's validity, so
changing the result's mask alters the operand.

Field._as_array (discretisedfield/field.py:4291-4292) returns
np.expand_dims(val, axis=-1) - a view, in the dtype of the input - when a scalar
quantity is given as an array of the mesh shape; the valid setter (field.py:567)
then stores val[..., 0], again a view.  Every operation that passes
valid=self.valid (or a basic slice of it) to the constructor is affected: -f,
abs, f.<component>, norm, orientation, real/imag/conjugate/phase/abs, diff,
f*number, sel, f[region], ..."""
import numpy as np

import discretisedfield as df


def _field():
    mesh = df.Mesh(p1=(0, 0), p2=(3, 2), n=(3, 2))
    valid = np.array([[1, 0], [1, 1], [0, 1]], dtype=bool)
    return df.Field(mesh, nvdim=2, value=np.arange(12.0).reshape(3, 2, 2) + 1, valid=valid)


def test_neg_result_validity_is_its_own():
    f = _field()
    before = f.valid.copy()
    g = -f
    g.valid[...] = False
    assert np.array_equal(f.valid, before)


def test_component_norm_sel_validity_is_their_own():
    for op in (lambda f: f.x, lambda f: f.norm, lambda f: f.sel(x=(0.5, 1.5)), lambda f: f.diff("x"), lambda f: f * 2):
        f = _field()
        before = f.valid.copy()
        g = op(f)
        g.valid[...] = ~g.valid
        assert np.array_equal(f.valid, before)
