"""C03: abs(f) raises for a vector field with custom component labels.

Field.__abs__ (discretisedfield/field.py:636-643) forwards vdim_mapping but not
vdims, so the new field gets the default labels x,y,z and the mapping keyed by
the custom labels is rejected by the vdim_mapping setter."""
import numpy as np

import discretisedfield as df


def test_abs_of_field_with_custom_labels():
    mesh = df.Mesh(p1=(0, 0, 0), p2=(2, 2, 1), n=(2, 2, 1))
    f = df.Field(mesh, nvdim=3, value=(-1.0, 2.0, -3.0), vdims=["a", "b", "c"])
    g = abs(f)  # raises ValueError: Invalid vdim_mapping.keys() ...
    assert np.array_equal(g.array, np.abs(f.array))
    assert g.vdims == ["a", "b", "c"]
