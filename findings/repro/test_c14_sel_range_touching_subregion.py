"""C14: a range selection whose first (last) selected cell starts (ends) exactly where a subregion ends (starts)
raises instead of dropping that subregion.

Mesh.sel (mesh.py, range branch) decides "no overlap" with the exact float comparison
``sub_reg_p_min >= max_val or min_val >= sub_reg_p_max`` where min_val/max_val = centre -/+ cell/2 are recomputed in
floating point; when they differ from the subregion face by one ulp a sliver [face, face+ulp] is kept as subregion and
the new mesh refuses it ("cannot be divided into discretisation cells").  Signature:
Mesh.sel-range/raises/selection-face-on-subregion-face.  Fails while the defect exists.
"""
import numpy as np

import discretisedfield as df


def test_range_starting_where_subregion_ends():
    sub = {"s": df.Region(p1=(0.0,), p2=(0.10000000000000002,))}  # cell 0 (correctly rounded face 1)
    mesh = df.Mesh(p1=(0.0,), p2=(0.30000000000000004,), n=(3,), subregions=sub)  # pmax = 3 * 0.1 in float
    c = mesh.cells.x
    res = mesh.sel(x=(c[1], c[1]))  # cell 1 only; the subregion is cell 0
    assert res.subregions == {}
    assert list(res.n) == [1]


def test_range_on_unit_interval_with_ten_cells():
    mesh = df.Mesh(p1=(0.0,), p2=(1.0,), n=(10,))
    v, c = mesh.vertices.x, mesh.cells.x
    mesh.subregions = {"s": df.Region(p1=(v[0],), p2=(v[6],))}  # cells 0..5
    res = mesh.sel(x=(c[6], c[8]))  # cells 6..8
    assert res.subregions == {}
    assert np.allclose(res.region.pmin, [0.6]) and list(res.n) == [3]


def test_range_ending_where_subregion_starts_2d():
    sub = {"s": df.Region(p1=(0.2, -0.3), p2=(0.4, 0.3))}  # columns 1..2 of cells
    mesh = df.Mesh(p1=(0.1, -0.3), p2=(0.4, 0.3), n=(3, 2), subregions=sub)
    c = mesh.cells.x
    res = mesh.sel(x=(c[0], c[0]))  # column 0 only
    assert res.subregions == {}


if __name__ == "__main__":
    import sys

    failed = 0
    for name, fn in list(globals().items()):
        if name.startswith("test_"):
            try:
                fn()
                print("pass", name)
            except Exception as e:  # noqa
                failed += 1
                print("FAIL", name, type(e).__name__, str(e)[:120])
    sys.exit(1 if failed else 0)
