"""C07 (also C14): a range selection whose first cell starts exactly where a subregion ends
(or whose last cell ends where a subregion starts) is refused with ValueError although the
requested range lies inside the region.

Root cause: Mesh.sel (discretisedfield/mesh.py, range branch) recomputes the faces of the selected
block as  min_val = centre(first cell) - cell/2,  max_val = centre(last cell) + cell/2  and tests the
overlap with every subregion by exact float comparison
    if sub_reg_p_min >= max_val or min_val >= sub_reg_p_max: continue
When min_val comes out one ulp below the subregion's upper face (here -2.8e-17 < 0.0) the subregion
is "clipped" to a sliver [min_val, sub_reg_p_max] of width 1 ulp, which the Mesh constructor then
rejects ("Subregion A cannot be divided into discretisation cells").

Status: repaired in /repo by 9f4b1e31 "fix: range selection drops subregions that only touch the
selected range" (overlap of at least half a cell required); these tests fail on the tree before it.
"""
import numpy as np

import discretisedfield as df


def _mesh():
    # two cells [-0.3, 0] and [0, 0.3]; subregion A is the first cell
    return df.Mesh(p1=(-0.3,), p2=(0.3,), n=(2,), subregions={"A": df.Region(p1=(-0.3,), p2=(0.0,))})


def test_mesh_sel_range_starting_at_subregion_face():
    mesh = _mesh()
    sel = mesh.sel(x=(0.1, 0.2))  # both bounds inside the second cell
    assert sel.n.tolist() == [1]
    assert abs(sel.region.pmin[0]) < 1e-12 and abs(sel.region.pmax[0] - 0.3) < 1e-12


def test_field_sel_range_starting_at_subregion_face():
    mesh = _mesh()
    field = df.Field(mesh, nvdim=1, value=np.array([[1.0], [2.0]]))
    sel = field.sel(x=(0.1, 0.2))
    assert sel.array[..., 0].tolist() == [2.0]
