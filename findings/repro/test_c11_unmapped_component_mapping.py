"""C11: a component that is mapped to no axis (vdim_mapping value None, as used for the out-of-plane component of a
3-vector on a 2-D mesh) is mapped to the string 'k_None' by the forward transforms, and to the string 'None' after
the inverse: the axis mapping is not renamed consistently / not restored.  Fails while the defect exists."""
import discretisedfield as df


def _field():
    mesh = df.Mesh(p1=(0, 0), p2=(4, 3), n=(4, 3))
    return df.Field(mesh, nvdim=3, value=(1, 2, 3), vdims=["mx", "my", "mz"],
                    vdim_mapping={"mx": "x", "my": "y", "mz": None})


def test_forward_keeps_unmapped_component_unmapped():
    f = _field()
    for F in (f.fftn(), f.rfftn()):
        assert F.vdim_mapping["ft_mx"] == "k_x" and F.vdim_mapping["ft_my"] == "k_y"
        assert F.vdim_mapping["ft_mz"] is None, F.vdim_mapping


def test_round_trip_restores_mapping():
    f = _field()
    assert f.fftn().ifftn().vdim_mapping == f.vdim_mapping
    assert f.rfftn().irfftn(shape=(4, 3)).vdim_mapping == f.vdim_mapping


if __name__ == "__main__":
    test_forward_keeps_unmapped_component_unmapped()
    test_round_trip_restores_mapping()
