"""Plain reproducers for the C10 (HDF5) findings.  Every test FAILS while its defect exists.
Only discretisedfield + numpy (+ h5py for the legacy file) are used."""
import os
import shutil
import tempfile

import numpy as np

import discretisedfield as df


def _rt(f):
    d = tempfile.mkdtemp(dir="/dev/shm" if os.path.isdir("/dev/shm") else None)
    try:
        p = os.path.join(d, "f.h5")
        f.to_file(p)
        return df.Field.from_file(p)
    finally:
        shutil.rmtree(d, ignore_errors=True)


def test_hdf5_unit_none_stays_none():
    # sig hdf5-roundtrip/unit/none-becomes-string ; io/hdf5.py:108 stores str(None), :160 hands 'None' to the constructor
    f = df.Field(df.Mesh(p1=(0, 0, 0), p2=(2, 2, 2), n=(2, 2, 2)), nvdim=1, value=1.0, unit=None)
    assert _rt(f).unit is None


def test_hdf5_fractional_subregion_in_integer_cornered_region():
    # sig hdf5-roundtrip/subregions/corners/integer-typed-region ; io/hdf5.py:46 dtype=self.region.pmin.dtype (int64)
    sub = {"s": df.Region(p1=(0.5, 0, 0), p2=(1.5, 2, 2))}
    mesh = df.Mesh(p1=(0, 0, 0), p2=(2, 2, 2), n=(4, 2, 2), subregions=sub)
    g = _rt(df.Field(mesh, nvdim=1, value=1.0))
    assert np.array_equal(g.mesh.subregions["s"].pmin, [0.5, 0, 0])
    assert np.array_equal(g.mesh.subregions["s"].pmax, [1.5, 2, 2])


def test_hdf5_legacy_layout_is_read():
    # sig from_file.hdf5/legacy-file-rejected ; io/hdf5.py:180 cls(mesh, dim=dim, ...) - the keyword is nvdim
    import h5py

    d = tempfile.mkdtemp(dir="/dev/shm" if os.path.isdir("/dev/shm") else None)
    try:
        p = os.path.join(d, "legacy.hdf5")
        data = np.arange(36.0).reshape(2, 3, 2, 3)
        with h5py.File(p, "w") as fh:
            fh.create_dataset("field/mesh/region/p1", data=(0.0, 0.0, 0.0))
            fh.create_dataset("field/mesh/region/p2", data=(2e-9, 3e-9, 2e-9))
            fh.create_dataset("field/mesh/n", dtype="i4", data=(2, 3, 2))
            fh.create_dataset("field/dim", dtype="i4", data=3)
            fh.create_dataset("field/array", data=data)
        g = df.Field.from_file(p)
        assert g.nvdim == 3 and np.array_equal(g.array, data) and tuple(g.mesh.n) == (2, 3, 2)
    finally:
        shutil.rmtree(d, ignore_errors=True)


def test_hdf5_field_from_xarray_can_be_written():
    # sig to_file.hdf5/refused/numpy-str-labels ; io/hdf5.py:107 h5py cannot store a list of numpy.str_
    mesh = df.Mesh(p1=(0, 0, 0), p2=(2, 2, 2), n=(2, 2, 2))
    f = df.Field.from_xarray(df.Field(mesh, nvdim=3, value=(1, 2, 3)).to_xarray())
    assert _rt(f).vdims == ["x", "y", "z"]


def test_hdf5_labels_given_as_numpy_array():
    # same signature, no xarray involved: the vdims setter accepts an ndarray of str
    mesh = df.Mesh(p1=(0, 0, 0), p2=(2, 2, 2), n=(2, 2, 2))
    f = df.Field(mesh, nvdim=2, value=(1, 2), vdims=np.array(["p", "q"]))
    assert _rt(f).vdims == ["p", "q"]


def test_hdf5_dims_given_as_numpy_array():
    # sig to_file.hdf5/refused/numpy-str-dims ; io/hdf5.py:17 attrs['dims'] = tuple of numpy.str_ (region.py:285 keeps them)
    region = df.Region(p1=(0, 0, 0), p2=(2, 2, 2), dims=np.array(["a", "b", "c"]))
    g = _rt(df.Field(df.Mesh(region=region, n=(2, 2, 2)), nvdim=1, value=1.0))
    assert tuple(g.mesh.region.dims) == ("a", "b", "c")


def test_hdf5_units_given_as_numpy_array():
    # sig to_file.hdf5/refused/numpy-str-units ; io/hdf5.py:17 attrs['units'] = tuple of numpy.str_
    region = df.Region(p1=(0, 0, 0), p2=(2, 2, 2), units=np.array(["nm", "nm", "nm"]))
    g = _rt(df.Field(df.Mesh(region=region, n=(2, 2, 2)), nvdim=1, value=1.0))
    assert tuple(g.mesh.region.units) == ("nm", "nm", "nm")


def test_hdf5_vector_field_without_labels_stays_without_labels():
    # sig hdf5-roundtrip/labels/absent-become-default ; io/hdf5.py:153-159 'None' -> vdims=None -> constructor default x,y
    mesh = df.Mesh(p1=(0, 0, 0), p2=(2, 2, 2), n=(2, 2, 2))
    f = df.Field(mesh, nvdim=2, value=(1, 2), vdims=[])
    assert f.vdims is None
    assert _rt(f).vdims is None
