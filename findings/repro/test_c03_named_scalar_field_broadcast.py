"""C03: a scalar field that carries a component label (vdims=['q'], mapping {'q': 'x'})
cannot be broadcast over a constant vector or a vector-valued array: the expression
raises instead of yielding the cell-wise NumPy result.

Field._apply_operator (discretisedfield/field.py:1243-1251) resets vdims when the
component count changes but still forwards self.vdim_mapping (keys ['q']) to a
3-component result -> ValueError from the vdim_mapping setter.
Field.__array_ufunc__ (field.py:3996-4002) forwards self.vdims (['q']) to a
3-component result -> ValueError, re-raised as NotImplementedError."""
import numpy as np

import discretisedfield as df


def _s():
    mesh = df.Mesh(p1=(0, 0, 0), p2=(2, 2, 1), n=(2, 2, 1))
    return df.Field(mesh, nvdim=1, value=2.0, vdims=["q"], vdim_mapping={"q": "x"})


def test_named_scalar_field_plus_constant_vector():
    s = _s()
    r = s + (1.0, 2.0, 3.0)  # ValueError: Invalid vdim_mapping.keys()
    assert np.array_equal(r.array, s.array + np.array([1.0, 2.0, 3.0]))


def test_array_plus_named_scalar_field():
    s = _s()
    c = np.array([1.0, 2.0, 3.0])
    r = c + s  # NotImplementedError
    assert np.array_equal(r.array, c + s.array)
    r = np.add(s, c)  # NotImplementedError
    assert np.array_equal(r.array, c + s.array)


def test_plain_scalar_field_works():
    mesh = df.Mesh(p1=(0, 0, 0), p2=(2, 2, 1), n=(2, 2, 1))
    s = df.Field(mesh, nvdim=1, value=2.0)
    assert (s + (1.0, 2.0, 3.0)).nvdim == 3
    assert (np.array([1.0, 2.0, 3.0]) + s).nvdim == 3
