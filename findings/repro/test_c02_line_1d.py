"""C02: Field.line raises IndexError on every 1-D mesh.  Mesh.line yields ``dfu.array2tuple(point)`` which
collapses a one-element array to a bare float, so Line.__init__ receives a 1-D ``points`` array and
``points[0, :]`` fails.  Fails while the defect exists."""
import numpy as np

import discretisedfield as df


def test_line_on_1d_mesh():
    mesh = df.Mesh(p1=0.0, p2=4.0, n=4)
    f = df.Field(mesh, nvdim=2, value=lambda p: (p[0], -p[0]))
    for p1, p2 in [(0.5, 3.5), ((0.5,), (3.5,))]:
        line = f.line(p1=p1, p2=p2, n=4)
        assert len(line.data) == 4
        assert np.allclose(line.data["r"], [0, 1, 2, 3])
        assert np.allclose(line.data[line.point_columns[0]], [0.5, 1.5, 2.5, 3.5])
        assert np.allclose(line.data[line.value_columns[1]], [-0.5, -1.5, -2.5, -3.5])


if __name__ == "__main__":
    test_line_on_1d_mesh()
