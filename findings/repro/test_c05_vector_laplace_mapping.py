"""C05: the vector Laplacian drops the operand's component labels and
component-to-axis mapping (Field.laplace stacks label-less scalar fields with
``<<``), so the result pairs components with axes by position: for a permuted
mapping it is inconsistent with the operand and does not commute with
quarter-turn rotations."""
import numpy as np

import discretisedfield as df


def _field():
    mesh = df.Mesh(p1=(0, 0), p2=(4, 3), n=(4, 3))
    x, y = np.meshgrid(np.arange(4) + 0.5, np.arange(3) + 0.5, indexing="ij")
    value = np.stack([x**2, 3 * y**2 + x], axis=-1)  # a = x^2 (points along y), b = 3y^2+x (points along x)
    return df.Field(mesh, nvdim=2, value=value, vdims=["a", "b"], vdim_mapping={"a": "y", "b": "x"})


def test_vector_laplace_keeps_component_axis_pairing():
    f = _field()
    lap = f.laplace
    # the component of the result that is mapped to axis y must be the Laplacian of the operand's component
    # mapped to y (a: laplace = 2); the one mapped to x that of b (laplace = 6)
    r = {axis: name for name, axis in lap.vdim_mapping.items()}
    assert np.allclose(getattr(lap, r["y"]).array, 2.0)
    assert np.allclose(getattr(lap, r["x"]).array, 6.0)


def test_vector_laplace_commutes_with_quarter_turn():
    f = _field()
    left = f.rotate90("x", "y").laplace
    right = f.laplace.rotate90("x", "y")
    assert left.mesh == right.mesh
    assert np.allclose(left.array, right.array)
