"""Plain reproducers for the C17 (xarray) findings.  Every test FAILS while its defect exists.
Only discretisedfield + numpy are used."""
import os
import shutil
import tempfile

import numpy as np
import pytest

import discretisedfield as df


def test_xarray_export_of_a_field_read_from_hdf5_can_be_imported():
    # sig from_xarray(to_xarray)/raises/own-export-refused ; a field read from HDF5 has nvdim of type numpy.int64,
    # to_xarray copies it into attrs['nvdim'], field.py:4220 insists on isinstance(..., int) -> TypeError
    d = tempfile.mkdtemp(dir="/dev/shm" if os.path.isdir("/dev/shm") else None)
    try:
        mesh = df.Mesh(p1=(0, 0, 0), p2=(3, 2, 4), n=(3, 2, 4))
        p = os.path.join(d, "f.h5")
        df.Field(mesh, nvdim=3, value=(1, 2, 3)).to_file(p)
        h = df.Field.from_file(p)
    finally:
        shutil.rmtree(d, ignore_errors=True)
    r = df.Field.from_xarray(h.to_xarray())
    assert r == h


@pytest.mark.parametrize("geometric_attributes", ["kept", "removed"])
def test_xarray_unevenly_spaced_nanometre_coordinates_are_rejected(geometric_attributes):
    # sig from_xarray/uneven-coordinates-accepted/spacing<=1e-8 ; field.py:4232-4233 np.allclose(diff, diff.mean())
    # uses the default ABSOLUTE tolerance 1e-8: every spacing below ~1e-8 (all nanometre meshes) counts as even
    mesh = df.Mesh(p1=(0,), p2=(3e-9,), n=(3,))
    xa = df.Field(mesh, nvdim=1, value=np.arange(3.0).reshape(3, 1)).to_xarray()
    x = xa["x"].values.copy()
    x[1] += 0.1e-9  # 10 % of the spacing
    xa = xa.assign_coords(x=x)
    if geometric_attributes == "removed":
        for k in ("cell", "pmin", "pmax"):
            del xa.attrs[k]
    with pytest.raises(Exception):
        df.Field.from_xarray(xa)


def test_xarray_scalar_field_keeps_its_label():
    # sig from_xarray(to_xarray)/labels/scalar-with-label ; field.py:4091-4098 exports the component coordinate only
    # for nvdim > 1, so the label of a one-component field (e.g. every scalar field read from an OVF file) is lost
    mesh = df.Mesh(p1=(0,), p2=(3,), n=(3,))
    f = df.Field(mesh, nvdim=1, value=1.0, vdims=["s"])
    r = df.Field.from_xarray(f.to_xarray())
    assert r.vdims is not None and list(r.vdims) == ["s"]
