"""C19: tools._N_element permutes the coordinates (x, y, z) per tensor component but always uses the cell edges in
the order (dx, dy, dz): for anisotropic cells the demagnetisation tensor is wrong.  The trace of the real-space
tensor is not -delta, |trace| of the Fourier-space tensor is not 1, and the mean demagnetising field components of a
uniformly magnetised cuboid do not sum to -|M| (a 6x6x6 cube built from 2x3x6 cells does not give -M/3 each).
Cubic cells pass.  Fails while the defect exists."""
import warnings

import numpy as np

import discretisedfield as df
from discretisedfield import tools

warnings.filterwarnings("ignore")


def test_single_anisotropic_cell_trace():
    mesh = df.Mesh(p1=(0, 0, 0), p2=(1, 2, 3), n=(1, 1, 1))
    T = tools.demag_tensor(mesh).array[0, 0, 0]
    assert abs(abs(T[0] + T[1] + T[2]) - 1) < 1e-8, f"trace {T[0] + T[1] + T[2]}"


def test_cube_from_anisotropic_cells_one_third():
    mesh = df.Mesh(p1=(0, 0, 0), p2=(6, 6, 6), n=(3, 2, 1))  # cells 2 x 3 x 6
    T = tools.demag_tensor(mesh)
    means = []
    for a in range(3):
        v = [0, 0, 0]
        v[a] = 1.0
        H = tools.demag_field(df.Field(mesh, nvdim=3, value=v), T)
        means.append(H.array.reshape(-1, 3).mean(axis=0)[a])
    assert abs(sum(means) + 1) < 1e-8, f"sum of mean H_a = {sum(means)}"
    assert np.allclose(means, -1 / 3, atol=1e-8), means


if __name__ == "__main__":
    test_single_anisotropic_cell_trace()
    test_cube_from_anisotropic_cells_one_third()
