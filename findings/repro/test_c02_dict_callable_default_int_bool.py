"""C02: a dict value with a callable 'default' (or without 'default') relies on NaN as the "not yet assigned"
marker (``np.full(..., np.nan, dtype=dtype)`` followed by ``np.isnan``).  NaN does not exist for dtype int / bool:
the marker becomes INT_MIN / True, ``np.isnan`` finds nothing, the default function is never called and the cells
keep the garbage marker.  Happens already on 1-D meshes.  Fails while the defect exists."""
import warnings

import numpy as np

import discretisedfield as df


def _mesh():
    return df.Mesh(p1=0, p2=4, n=4, subregions={"a": df.Region(p1=0, p2=2)})


def test_int_field_callable_default():
    with warnings.catch_warnings():
        warnings.simplefilter("ignore")
        f = df.Field(_mesh(), nvdim=1, value={"a": 1, "default": lambda p: 7}, dtype=int)
    assert f.array[..., 0].tolist() == [1, 1, 7, 7], f.array[..., 0].tolist()


def test_bool_field_callable_default():
    with warnings.catch_warnings():
        warnings.simplefilter("ignore")
        f = df.Field(_mesh(), nvdim=1, value={"a": True, "default": lambda p: False}, dtype=bool)
    assert f.array[..., 0].tolist() == [True, True, False, False], f.array[..., 0].tolist()


if __name__ == "__main__":
    test_int_field_callable_default()
    test_bool_field_callable_default()
