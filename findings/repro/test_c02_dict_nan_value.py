"""C02: NaN is a legal field value (``Field(mesh, nvdim=1, value=np.nan)`` and arrays/functions with NaN are stored
as given) but inside a dict specification it collides with the NaN "not yet assigned" marker of Field._as_array:
 * {'a': nan, 'default': 3.0}            -> TypeError: 'float' object is not callable
 * {'a': nan, 'default': <function>}     -> the NaN cells are overwritten with the default function
 * {'a': 1.0, 'default': nan}            -> TypeError as soon as a cell falls to the default
Fails while the defect exists."""
import numpy as np

import discretisedfield as df


def _mesh():
    return df.Mesh(p1=0, p2=4, n=4, subregions={"a": df.Region(p1=0, p2=2)})


def test_nan_subregion_value_constant_default():
    f = df.Field(_mesh(), nvdim=1, value={"a": np.nan, "default": 3.0})
    assert np.array_equal(f.array[..., 0], [np.nan, np.nan, 3.0, 3.0], equal_nan=True)


def test_nan_subregion_value_callable_default():
    f = df.Field(_mesh(), nvdim=1, value={"a": np.nan, "default": lambda p: 3.0})
    assert np.array_equal(f.array[..., 0], [np.nan, np.nan, 3.0, 3.0], equal_nan=True), f.array[..., 0].tolist()


def test_nan_default():
    f = df.Field(_mesh(), nvdim=1, value={"a": 1.0, "default": np.nan})
    assert np.array_equal(f.array[..., 0], [1.0, 1.0, np.nan, np.nan], equal_nan=True)


if __name__ == "__main__":
    test_nan_subregion_value_constant_default()
    test_nan_subregion_value_callable_default()
    test_nan_default()
