"""Plain reproducers for the C09 (OVF) findings.  Every test FAILS while its defect exists.
Only discretisedfield + numpy are used."""
import os
import shutil
import tempfile

import numpy as np

import discretisedfield as df


def _mesh():
    return df.Mesh(p1=(0, 0, 0), p2=(2e-9, 3e-9, 2e-9), n=(2, 3, 2))


def _rt(f, **kw):
    d = tempfile.mkdtemp(dir="/dev/shm" if os.path.isdir("/dev/shm") else None)
    try:
        p = os.path.join(d, "f.omf")
        f.to_file(p, **kw)
        return df.Field.from_file(p)
    finally:
        shutil.rmtree(d, ignore_errors=True)


def test_ovf_unit_none_stays_none():
    # sig ovf-roundtrip/unit/none-becomes-string ; io/ovf.py:28 writes the word "None", :246 returns it
    f = df.Field(_mesh(), nvdim=3, value=(1, 2, 3), unit=None)
    assert _rt(f).unit is None


def test_ovf_labels_with_underscore():
    # sig ovf-roundtrip/labels/with-underscore ; io/ovf.py:222 keeps only the piece between the first two '_'
    f = df.Field(_mesh(), nvdim=2, value=(1, 2), vdims=["ax_1", "ax_2"])
    assert _rt(f).vdims == ["ax_1", "ax_2"]


def test_ovf_labels_with_punctuation():
    # sig ovf-roundtrip/labels/with-punctuation (or own-file-rejected/labels-with-punctuation) ;
    # io/ovf.py:213 tokenises valuelabels with \w+, so 'k-1' becomes two labels
    f = df.Field(_mesh(), nvdim=2, value=(1, 2), vdims=["k-1", "k-2"])
    assert _rt(f).vdims == ["k-1", "k-2"]


def test_ovf_extend_scalar_is_noop_for_vector_fields_binary():
    # sig to_file.ovf/refused/extend_scalar-on-vector-field ; io/ovf.py:110-116 reshapes to mesh.n whatever nvdim
    f = df.Field(_mesh(), nvdim=3, value=np.arange(36.0).reshape(2, 3, 2, 3), vdims=["a", "b", "c"])
    g = _rt(f, representation="bin8", extend_scalar=True)
    assert np.array_equal(g.array, f.array) and g.vdims == ["a", "b", "c"]


def test_ovf_extend_scalar_is_noop_for_vector_fields_text():
    # sig to_file.ovf/not-an-ovf2-file/extend_scalar-on-vector-field ; io/ovf.py:133-135 inserts two zero columns
    f = df.Field(_mesh(), nvdim=3, value=np.arange(36.0).reshape(2, 3, 2, 3), vdims=["a", "b", "c"])
    g = _rt(f, representation="txt", extend_scalar=True)
    assert np.array_equal(g.array, f.array) and g.vdims == ["a", "b", "c"]
