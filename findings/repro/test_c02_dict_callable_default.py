"""C02: a dict value with a callable 'default' is wrong on meshes with more than one dimension.
Field._as_array (dict branch) assigns ``array[idx] = default(point)`` with ``idx`` an ndarray row of
``np.argwhere``: NumPy treats that as fancy indexing along the FIRST axis (whole slabs idx[0], idx[1], ...)
instead of the single cell ``tuple(idx)``.  Cells of subregions are overwritten, default cells get the value
of another cell.  Fails while the defect exists."""
import numpy as np

import discretisedfield as df


def test_dict_callable_default_2d():
    sub = {"a": df.Region(p1=(0, 0), p2=(2, 2))}
    mesh = df.Mesh(p1=(0, 0), p2=(4, 2), n=(4, 2), subregions=sub)
    f = df.Field(mesh, nvdim=1, value={"a": 1.0, "default": lambda p: 10 * p[0] + p[1]})
    expected = np.empty((4, 2, 1))
    for i in range(4):
        for j in range(2):
            expected[i, j, 0] = 1.0 if i < 2 else 10 * (i + 0.5) + (j + 0.5)
    assert np.array_equal(f.array, expected), f"stored {f.array[..., 0].tolist()} expected {expected[..., 0].tolist()}"


def test_dict_only_callable_default_3d_vector():
    mesh = df.Mesh(p1=(0, 0, 0), p2=(2, 2, 2), n=(2, 2, 2))
    f = df.Field(mesh, nvdim=3, value={"default": lambda p: (p[0], p[1], p[2])})
    for idx in np.ndindex(2, 2, 2):
        assert np.array_equal(f.array[idx], np.add(idx, 0.5)), f"cell {idx}: {f.array[idx]}"


if __name__ == "__main__":
    test_dict_callable_default_2d()
    test_dict_only_callable_default_3d_vector()
