"""C08: setting validity with a 0/1 integer array, a float array or a nested list
(property or constructor argument) does not yield a Boolean array; the same happens
to fields read from VTK files (the reader passes the stored 0/1 integers on).

Field._as_array (discretisedfield/field.py:4291-4292) ignores the requested dtype
for inputs of the mesh shape.  Consequences: ~f.valid is a bitwise not of integers,
f.array[f.valid] is fancy indexing with 0/1 instead of masking."""
import numpy as np

import discretisedfield as df


def _mesh():
    return df.Mesh(p1=(0, 0, 0), p2=(2, 3, 2), n=(2, 3, 2))


def test_setter_int_array():
    f = df.Field(_mesh(), nvdim=1, value=1.0)
    m = (np.arange(12).reshape(2, 3, 2) % 3 == 0)
    f.valid = m.astype(int)
    assert f.valid.dtype == bool
    assert np.array_equal(f.valid, m)


def test_constructor_nested_list():
    m = (np.arange(12).reshape(2, 3, 2) % 3 == 0)
    f = df.Field(_mesh(), nvdim=1, value=1.0, valid=m.astype(int).tolist())
    assert f.valid.dtype == bool


def test_vtk_round_trip(tmp_path):
    m = (np.arange(12).reshape(2, 3, 2) % 3 == 0)
    f = df.Field(_mesh(), nvdim=3, value=(1.0, 2.0, 3.0), valid=m)
    f.to_file(str(tmp_path / "f.vtk"))
    g = df.Field.from_file(str(tmp_path / "f.vtk"))
    assert np.array_equal(g.valid, m)
    assert g.valid.dtype == bool
