"""Plain reproducers for the C16 (VTK) findings.  Every test FAILS while its defect exists.
Only discretisedfield + numpy are used."""
import os
import shutil
import tempfile

import numpy as np

import discretisedfield as df


def _tmp():
    return tempfile.mkdtemp(dir="/dev/shm" if os.path.isdir("/dev/shm") else None)


def _rt(f, **kw):
    d = _tmp()
    try:
        p = os.path.join(d, "f.vtk")
        f.to_file(p, **kw)
        return df.Field.from_file(p)
    finally:
        shutil.rmtree(d, ignore_errors=True)


def _mesh(**kw):
    return df.Mesh(p1=(0, 0, 0), p2=(3, 2, 4), n=(3, 2, 4), **kw)


def test_vtk_validity_is_a_boolean_mask_after_reading():
    # sig vtk-roundtrip/validity-not-a-mask ; io/vtk.py:89 hands the int64 VTK array to Field(valid=...), and
    # field.py:4298 (_as_array, n-shaped input) returns np.expand_dims(val) without the requested dtype=bool
    valid = np.zeros((3, 2, 4), dtype=bool)
    valid[1, 0, 2] = valid[0, 1, 3] = True
    f = df.Field(_mesh(), nvdim=1, value=np.arange(24.0).reshape(3, 2, 4, 1), valid=valid)
    r = _rt(f)
    assert np.array_equal(r.valid, f.valid)
    assert r.array[r.valid].shape == f.array[f.valid].shape  # (2, 1); the int64 "mask" fancy-indexes instead
    assert np.array_equal(~r.valid, ~f.valid)


def test_vtk_text_form_with_subregions_can_be_read():
    # sig vtk-roundtrip/read-raises/txt+subregions ; the text writer keeps ~11 digits of the vertex coordinates
    # (io/vtk.py:26-27), the subregion json keeps all 17; io/vtk.py:96 -> mesh.subregions setter (mesh.py:364-379)
    # then refuses the exact subregions on the rounded mesh
    o, c = 1 / 3, 1 / 3
    n = (3, 2, 4)
    p1 = (o, o, o)
    p2 = tuple(o + c * k for k in n)
    sub = {"s1": df.Region(p1=p1, p2=(o + c, o + c, o + 2 * c))}
    mesh = df.Mesh(p1=p1, p2=p2, n=n, subregions=sub)
    f = df.Field(mesh, nvdim=1, value=1.0)
    r = _rt(f, representation="txt")  # ValueError: Subregion s1 cannot be divided into discretisation cells ...
    assert list(r.mesh.subregions) == ["s1"]
    assert np.allclose(r.mesh.subregions["s1"].pmax, sub["s1"].pmax, rtol=1e-9, atol=0)


def test_vtk_overwriting_a_file_drops_the_old_subregions():
    # sig vtk-overwrite/subregions/stale-subregions-of-previous-file ; io/vtk.py:37 writes the side-car json only when
    # the field has subregions and never removes the one left by the file that used to be at this path
    d = _tmp()
    try:
        p = os.path.join(d, "f.vtk")
        sub = {"s1": df.Region(p1=(0, 0, 0), p2=(1, 2, 2))}
        df.Field(_mesh(subregions=sub), nvdim=1, value=1.0).to_file(p)
        f2 = df.Field(_mesh(), nvdim=1, value=2.0)
        f2.to_file(p)
        r = df.Field.from_file(p)
        assert r.mesh.subregions == {}
    finally:
        shutil.rmtree(d, ignore_errors=True)


def test_vtk_scalar_field_keeps_its_label():
    # sig vtk-roundtrip/labels/scalar-with-label ; field.py:3448 (to_vtk) writes the per-component arrays that carry
    # the labels only for nvdim > 1, io/vtk.py:81 then finds 0 names for 1 component and drops the label
    f = df.Field(_mesh(), nvdim=1, value=1.0, vdims=["s"])
    assert _rt(f).vdims == ["s"]


def test_vtk_component_labelled_field():
    # sig vtk-roundtrip/labels/label-named-field ; 'field' is accepted as a component label but is also the name of
    # the value array: io/vtk.py:72-77 takes the component array for the value array's namesake and loses a label
    f = df.Field(_mesh(), nvdim=3, value=(1, 2, 3), vdims=["field", "b", "c"])
    assert _rt(f).vdims == ["field", "b", "c"]


def test_vtk_legacy_single_point_axis_at_large_offset():
    # sig vtk-legacy/read-raises/single-point-axis-at-large-offset (thorough tier) ; io/vtk.py:136 invents a 1 nm cell
    # for an axis with one point; next to a coordinate >= ~1e7 it is below the float spacing and the region gets a
    # zero edge (ValueError)
    d = _tmp()
    try:
        p = os.path.join(d, "legacy.vtk")
        with open(p, "w") as fh:
            fh.write("\n".join([
                "# vtk DataFile Version 3.0", "Field", "ASCII", "DATASET RECTILINEAR_GRID", "DIMENSIONS 2 1 1",
                "X_COORDINATES 2 float", "0.5 1.5", "Y_COORDINATES 1 float", "123456000.0",
                "Z_COORDINATES 1 float", "0.5", "POINT_DATA 2", "SCALARS field double", "LOOKUP_TABLE default",
                "1.0", "2.0"]))
        r = df.Field.from_file(p)
        assert tuple(r.mesh.n) == (2, 1, 1)
        assert r.array[:, 0, 0, 0].tolist() == [1.0, 2.0]
    finally:
        shutil.rmtree(d, ignore_errors=True)
