"""C07: mesh[Region] / field[Region] return an extra layer of cells for cell-aligned
boxes whose faces are not exactly representable in binary floating point.

Root cause: Mesh.__getitem__ (discretisedfield/mesh.py, "p1 = ...point2index(item.pmin)..."
and "p2_idx = np.ceil((item.pmax - pmin) / cell) - 1") floors / ceils the raw float quotient
(corner - pmin) / cell.  For a corner that IS a lattice face the quotient is an integer only up
to rounding (0.3 / 0.1 = 2.9999999999999996, 0.30000000000000004 / 0.1 = 3.0000000000000004), so
the block grows by one cell below (floor) or above (ceil).  Mesh.region2slices, which offsets the
corners by half a cell, returns the right cells for the same boxes.
"""
import numpy as np

import discretisedfield as df


def _mesh():
    return df.Mesh(p1=(0.0,), p2=(1.0,), n=(10,))  # cells of width 0.1, faces at k/10


def test_mesh_getitem_aligned_box_lower_face():
    mesh = _mesh()
    sub = mesh[df.Region(p1=(0.3,), p2=(0.7,))]  # faces 3 and 7: exactly four cells
    assert mesh.region2slices(df.Region(p1=(0.3,), p2=(0.7,))) == (slice(3, 7),)
    assert sub.n.tolist() == [4], (sub.region.pmin, sub.region.pmax, sub.n)
    assert abs(sub.region.pmin[0] - 0.3) < 1e-12


def test_mesh_getitem_aligned_box_upper_face():
    mesh = _mesh()
    hi = 3 * 0.1  # 0.30000000000000004, the same face computed as index * cell
    sub = mesh[df.Region(p1=(0.0,), p2=(hi,))]
    assert sub.n.tolist() == [3], (sub.region.pmin, sub.region.pmax, sub.n)
    assert abs(sub.region.pmax[0] - 0.3) < 1e-12


def test_field_getitem_aligned_box():
    mesh = _mesh()
    field = df.Field(mesh, nvdim=1, value=np.arange(10.0).reshape(10, 1))
    sub = field[df.Region(p1=(0.3,), p2=(0.7,))]
    assert sub.array[..., 0].tolist() == [3.0, 4.0, 5.0, 6.0], sub.array[..., 0].tolist()


def test_mesh_getitem_box_ending_on_region_face_is_refused():
    """same root cause, other symptom: when the box ends on the region's own upper face and
    (pmax - pmin) / cell rounds up (2.1 / 0.3 = 7.000000000000001) the ceil gives an index one
    past the last cell and index2point raises IndexError - even for mesh[mesh.region]."""
    mesh = df.Mesh(p1=(0.0,), p2=(2.1,), n=(7,))
    sub = mesh[mesh.region]
    assert sub.n.tolist() == [7]
    field = df.Field(mesh, nvdim=1, value=np.arange(7.0).reshape(7, 1))
    assert field[df.Region(p1=(0.075,), p2=(2.1,))].array[..., 0].tolist() == list(np.arange(7.0))
