"""C20: mpl.lightness overwrites the data of the field used as lightness source.

mpl_field.py lightness(): ``lightness = lightness_field.array.reshape(n)`` is a view and plotting/util.py
normalise_to_range() rescales it in place (``values -= ...; values /= ...``).  With ``lightness_field=field`` (a scalar
field coloured by its own values) the plotted field itself is modified; any other scalar field passed as
``lightness_field`` on the same resolution is destroyed in the same way.
Fails while the defect exists.
"""
import matplotlib

matplotlib.use("Agg")
import matplotlib.pyplot as plt  # noqa: E402
import numpy as np  # noqa: E402

import discretisedfield as df  # noqa: E402


def test_lightness_does_not_modify_the_plotted_field():
    mesh = df.Mesh(p1=(0, 0), p2=(3e-9, 2e-9), n=(3, 2))
    field = df.Field(mesh, nvdim=1, value=np.arange(1.0, 7.0).reshape(3, 2, 1))
    before = field.array.copy()
    try:
        field.mpl.lightness(lightness_field=field, colorwheel=False)
    finally:
        plt.close("all")
    assert np.array_equal(field.array, before), field.array[..., 0]


def test_lightness_does_not_modify_the_lightness_field():
    mesh = df.Mesh(p1=(0, 0), p2=(3e-9, 2e-9), n=(3, 2))
    field = df.Field(mesh, nvdim=2, value=(1.0, 2.0))
    light = df.Field(mesh, nvdim=1, value=np.arange(1.0, 7.0).reshape(3, 2, 1))
    before = light.array.copy()
    try:
        field.mpl.lightness(lightness_field=light, colorwheel=False)
    finally:
        plt.close("all")
    assert np.array_equal(light.array, before), light.array[..., 0]
