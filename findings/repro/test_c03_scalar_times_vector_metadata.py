"""C03: s*v and v*s (likewise +, np.add, np.multiply) differ in component labels
and in the mapping to spatial axes when s is a scalar field and v a vector field.

Field._apply_operator (discretisedfield/field.py:1243-1251) takes labels and
mapping from `self` only: with self = scalar field the result gets default labels
and the scalar's empty mapping."""
import numpy as np

import discretisedfield as df


def test_scalar_field_times_vector_field_commutes_including_metadata():
    mesh = df.Mesh(p1=(0, 0, 0), p2=(2, 2, 1), n=(2, 2, 1))
    v = df.Field(mesh, nvdim=3, value=(1.0, 2.0, 3.0))
    s = df.Field(mesh, nvdim=1, value=2.0)
    a, b = s * v, v * s
    assert np.array_equal(a.array, b.array)
    assert a.vdims == b.vdims
    assert a.vdim_mapping == b.vdim_mapping  # {} vs {'x': 'x', 'y': 'y', 'z': 'z'}


def test_scalar_field_plus_vector_field_custom_labels():
    mesh = df.Mesh(p1=(0, 0, 0), p2=(2, 2, 1), n=(2, 2, 1))
    v = df.Field(mesh, nvdim=3, value=(1.0, 2.0, 3.0), vdims=["a", "b", "c"])
    s = df.Field(mesh, nvdim=1, value=2.0)
    a, b = s + v, v + s
    assert a.vdims == b.vdims  # ['x', 'y', 'z'] vs ['a', 'b', 'c']
    assert a.vdim_mapping == b.vdim_mapping
