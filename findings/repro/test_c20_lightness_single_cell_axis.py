"""C20: mpl.lightness raises IndexError for a 2-d field with a single cell along one axis.

plotting/util.py hls2rgb ends with ``rgb.squeeze()`` (and mpl_field.py lightness squeezes again), which removes the
length-1 mesh axis, so the (n0, n1, 3) colour array no longer matches the (n0, n1) filter mask.
Fails while the defect exists.
"""
import matplotlib

matplotlib.use("Agg")
import matplotlib.pyplot as plt  # noqa: E402
import numpy as np  # noqa: E402

import discretisedfield as df  # noqa: E402


def test_lightness_single_cell_axis():
    mesh = df.Mesh(p1=(0, 0), p2=(2, 2), n=(1, 4))
    for nvdim, kw in [(1, {}), (2, {}), (3, {"vdim_mapping": {"x": "x", "y": "y", "z": "z"}})]:
        value = np.arange(1.0, 4 * nvdim + 1).reshape(1, 4, nvdim) / 3
        field = df.Field(mesh, nvdim=nvdim, value=value, **kw)
        fig, ax = plt.subplots()
        try:
            field.mpl.lightness(ax=ax, colorwheel=False)  # IndexError while the defect exists
            (im,) = ax.images
            assert im.get_array().shape[:2] == (4, 1)
        finally:
            plt.close("all")
