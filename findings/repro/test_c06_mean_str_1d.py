"""C06: Field.mean('x') raises on a 1-D mesh (the string branch calls
Mesh.sel('x'), which cannot remove the only axis) although mean(['x']),
mean() and integrate('x') handle the same case."""
import numpy as np

import discretisedfield as df


def test_mean_over_the_only_direction_given_as_string():
    mesh = df.Mesh(p1=(0,), p2=(6,), n=(3,))
    f = df.Field(mesh, nvdim=2, value=np.array([[1.0, 10.0], [2.0, 20.0], [6.0, 60.0]]))
    expected = f.integrate("x") / 6.0  # integral divided by the integrated extent
    assert np.allclose(f.mean(["x"]), expected)
    assert np.allclose(np.asarray(f.mean("x")).reshape(2), expected)  # ValueError: p1 and p2 must not be empty
