"""C14: Mesh.is_aligned compares with a fixed ABSOLUTE tolerance of 1e-12 (mesh.py: is_aligned, np.allclose(...,
atol=tolerance) and the remainder test against tol=tolerance), independent of the length scale of the meshes.

* coordinates >= ~1e3 (ulp >= 1e-13, rounding of a face exceeds 1e-12): meshes whose origins differ by whole cells are
  reported NOT aligned, so cell-aligned subregions (even the mesh's own mesh.vertices) are refused by the setter;
* cells <= ~1e-10: meshes shifted by half a cell, or with cells differing by 1 %, are reported aligned, so misaligned
  subregions are attached.

Each test fails while the defect exists.  Signatures: Mesh.is_aligned/false-for-whole-cell-shift,
Mesh.is_aligned/true-for-fractional-shift, Mesh.is_aligned/true-for-different-cell-size,
Mesh.subregions/refuses-aligned-box/*, Mesh.subregions/accepts-bad-box/shift*.
"""
import discretisedfield as df


def test_whole_cell_shift_is_aligned_at_large_scale():
    a = df.Mesh(p1=(0.0,), p2=(300000.00000000006,), n=(3,))  # 3 * 0.1 * 1e6 in float; cell 100000.00000000001
    b = df.Mesh(p1=(0.0,), p2=(200000.00000000003,), n=(2,))  # correctly rounded faces 0 and 2 of a
    assert a.is_aligned(b)
    assert b.is_aligned(a)


def test_own_vertices_are_accepted_as_subregion_at_large_scale():
    m = df.Mesh(p1=(0.1 * 1e6,), p2=(0.1 * 1e6 + 3 * 0.1 * 1e6,), n=(3,))
    v = m.vertices.x
    m.subregions = {"s": df.Region(p1=(v[0],), p2=(v[1],))}  # raises "not aligned with the mesh"
    assert "s" in m.subregions


def test_whole_cell_shift_is_aligned_for_large_offset():
    # scale 1, offset 1e4: ulp(1e4) = 1.8e-12 > 1e-12
    a = df.Mesh(p1=(10000.1,), p2=(10000.1 + 5 * 0.1,), n=(5,))
    b = df.Mesh(p1=(10000.1,), p2=(10000.300000000001,), n=(2,))  # correctly rounded faces 0 and 2 of a
    assert a.is_aligned(b)
    assert b.is_aligned(a)


def test_half_cell_shift_is_not_aligned_at_small_scale():
    a = df.Mesh(p1=(0.0,), p2=(1e-12,), n=(1,))
    b = df.Mesh(p1=(0.5e-12,), p2=(2.5e-12,), n=(2,))  # same cell, shifted by half a cell
    assert not a.is_aligned(b)


def test_one_percent_shift_is_not_aligned_for_0p1nm_cells():
    a = df.Mesh(p1=(0.0,), p2=(0.1 * 1e-9,), n=(1,))  # one 0.1 nm cell
    b = df.Mesh(p1=(1.0100000000000001e-10,), p2=(3.0100000000000005e-10,), n=(2,))  # shifted by 1.01 cells
    assert not a.is_aligned(b)


def test_different_cell_size_is_not_aligned_at_small_scale():
    a = df.Mesh(p1=(0.0,), p2=(1e-12,), n=(1,))
    b = df.Mesh(p1=(0.0,), p2=(2.02e-12,), n=(2,))  # cell 1.01e-12
    assert not a.is_aligned(b)
    assert not b.is_aligned(a)


def test_half_cell_shifted_subregion_is_refused_at_small_scale():
    m = df.Mesh(p1=(0.0,), p2=(2e-12,), n=(2,))
    try:
        m.subregions = {"bad": df.Region(p1=(0.5e-12,), p2=(1.5e-12,))}
    except ValueError:
        return
    raise AssertionError(f"half-cell shifted subregion attached: {m.subregions}")


if __name__ == "__main__":
    import sys

    failed = 0
    for name, fn in list(globals().items()):
        if name.startswith("test_"):
            try:
                fn()
                print("pass", name)
            except Exception as e:  # noqa
                failed += 1
                print("FAIL", name, type(e).__name__, str(e)[:120])
    sys.exit(1 if failed else 0)
