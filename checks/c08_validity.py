"""C08 - validity masks follow the data through every operation; a result's
validity is its own; validity setters.

Explicit-state search (engine.bfs) over *operation programs*: a state is the
field obtained by replaying a history of events (operators, derived
quantities, derivatives, selections, padding, resampling, quarter turns, file
round trips, validity setters) on a fresh start field.  On EVERY transition

  * the result's mask is compared with the mask algebra reference
      - pass-through events  -> the operand's mask
      - binary events        -> AND of both operands' masks
      - cell-mapping events  -> the mask obtained by sending the operand's mask, stored
                                as the DATA of a scalar field, through the very same
                                library operation ("validity is transformed exactly as
                                the data are")
  * the result's mask must be a Boolean array of the mesh shape
  * the behavioural ownership test is run: flip the result's mask in place, then
    re-assign it; no operand's mask bytes may change
  * setters: stored values byte-identical, Boolean array of the mesh shape, the
    expected pattern ('norm': length > 1e-8)

Unit single checks every first-level transition; unit programs shards the search
over the distinct first-level states (ctx.choose) and searches the remaining
depth breadth first with deduplication of canonically equal states.
"""
import functools
import os
import shutil
import tempfile

import numpy as np

import discretisedfield as df
from mc import common as C
from mc import engine

PROPERTY = "C08"
RULE = ("unit single: full product start state x event (first level of the search). unit programs: start state x "
        "distinct first-level successor state are choice points; from there breadth-first search over all event "
        "histories up to depth 2 (quick) / 3 (thorough) on the real objects, every transition checked before "
        "deduplication; states are deduplicated on (mesh, nvdim, labels, mapping, dtypes, attribute types and memory "
        "layout, validity bytes) - not on the data values, which no validity path branches on; the successor of "
        "valid='norm' (the only value dependent event) is checked but not expanded. "
        "unit setters: full product start state x setter input kind x provenance of the field. "
        "Events that the library refuses (exceptions) are counted in the notes and not expanded; states whose mask "
        "is not a Boolean array are reported and not expanded. An execution is non-trivial when at least one transition was checked.")
ASSUMPTIONS = [
    "scope: 6 (quick) / 8 (thorough) start fields on 1-3-dimensional meshes with <= 12 cells and one subregion (one "
    "periodic, one with custom labels and a permuted mapping), 1-3 components, float and complex data, coded masks "
    "(fixed, asymmetric), programs of <= 2 (quick) / 3 (thorough) events out of 79 (59-79 enabled per start state)",
    "cell-mapping events (sel, [subregion], [Region], pad, resample, rotate90, HDF5, VTK) use the library's own data "
    "path as the reference for where cells go (C07/C12/C10/C16 decide whether that path is right)",
    "constant-mode padding: only the original cells are compared (whether a new cell filled with a constant is valid "
    "is not fixed by the statement); wrap/edge padding: all cells",
    "'norm': cells with length <= 0.9e-8 must become invalid, cells with length >= 1.1e-8 valid; the band in between "
    "and non-finite lengths are not probed",
    "ownership is decided behaviourally (in-place flip and re-assignment of the result's mask must leave operand "
    "masks unchanged); np.shares_memory is only reported as the diagnosis",
    "whether the array handed to a validity setter may be aliased by the field is not fixed by the statement and "
    "not demanded",
    "an event that raises is outside this property (C03/C07/C10/C16 decide) and is only counted",
]


# --------------------------------------------------------------------------
# memoised pure helpers

@functools.lru_cache(maxsize=None)
def _tracer_cached(n, k, seed, cplx):
    a = C.tracer(n, k, seed, cplx=cplx)
    a.setflags(write=False)
    return a


def tracer(n, k, seed, cplx=False):
    return _tracer_cached(tuple(int(i) for i in n), int(k), seed, cplx).copy()


@functools.lru_cache(maxsize=None)
def _mask_cached(n, i):
    m = C.coded_mask(n, i)
    m.setflags(write=False)
    return m


def coded_mask(n, i):
    return _mask_cached(tuple(int(j) for j in n), i).copy()


# --------------------------------------------------------------------------
# start states

#          name        pmin                 cell               n          nvdim cplx
STARTS_Q = [
    ("2d-32-v2", (0.0, -1.0), (1.0, 0.5), (3, 2), 2, False),
    ("3d-232-v3", (0.0, -1.0, 5.0), (1.0, 0.5, 2.0), (2, 3, 2), 3, False),
    ("3d-221-s-cplx", (0.0, -1.0, 5.0), (1.0, 0.5, 2.0), (2, 2, 1), 1, True),
    ("1d-4-s", (0.5,), (0.25,), (4,), 1, False),
    ("3d-213-v3-custom-perm", (0.0, 0.0, 0.0), (5e-9, 5e-9, 3e-9), (2, 1, 3), 3, False),
    ("2d-41-s-periodic", (-2.0, 0.0), (1.0, 1.0), (4, 1), 1, False),
]
STARTS_T = STARTS_Q + [
    ("2d-23-v3", (0.0, -1.0), (2e-9, 1e-9), (2, 3), 3, False),
    ("3d-322-v3-cplx", (0.3, 0.0, -2.0), (0.5, 0.5, 0.25), (3, 2, 2), 3, True),
]
STARTDEF = {s[0]: s for s in STARTS_T}
# extras: custom labels with a cyclically permuted mapping; periodic boundary conditions
EXTRA = {"3d-213-v3-custom-perm": {"vdims": ["ca", "cb", "cc"], "vdim_mapping": {"ca": "y", "cb": "z", "cc": "x"}},
         "2d-41-s-periodic": {"bc": "x"}}


def start_field(name, seed):
    _, pmin, cell, n, k, cplx = STARTDEF[name]
    pmin = np.array(pmin, dtype=float)
    cell = np.array(cell, dtype=float)
    pmax = pmin + cell * np.array(n)
    # one subregion: the index box [0:max(1, n0-1)] x full
    sp2 = pmax.copy()
    if n[0] > 1:
        sp2[0] = pmin[0] + (n[0] - 1) * cell[0]
    extra = EXTRA.get(name, {})
    mesh = df.Mesh(region=df.Region(p1=tuple(pmin), p2=tuple(pmax)), n=n, bc=extra.get("bc", ""),
                   subregions={"sr": df.Region(p1=tuple(pmin), p2=tuple(sp2))})
    a = tracer(n, k, seed, cplx=cplx)
    if not cplx:
        a = a - 2.5
    flat = a.reshape(-1, k)
    # lengths for the 'norm' setter: an exact zero, a length below and a length above the 1e-8 threshold
    flat[0, :] = 0.0
    if flat.shape[0] > 2:
        flat[1, :] = 0.0
        flat[1, 0] = 1e-9
        flat[2, :] = 0.0
        flat[2, -1] = 1e-7
    if cplx and k >= 2 and flat.shape[0] > 4:
        # complex vectors whose component SQUARES cancel although the vector is not zero: |(1, i, 0)| = sqrt(2)
        flat[3, :] = 0.0
        flat[3, 0], flat[3, 1] = 1.0, 1.0j
        flat[4, :] = 0.0
        flat[4, 0], flat[4, -1] = 2.0, -2.0j
    return df.Field(mesh, nvdim=k, value=a, dtype=complex if cplx else None, valid=coded_mask(n, 0), unit="A/m",
                    vdims=extra.get("vdims"), vdim_mapping=extra.get("vdim_mapping"))


def other_field(f, seed):
    n = tuple(int(i) for i in f.mesh.n)
    return df.Field(f.mesh, nvdim=f.nvdim, value=tracer(n, f.nvdim, seed + 1) + 0.5, valid=coded_mask(n, 1))


def scalar_field(f, seed):
    n = tuple(int(i) for i in f.mesh.n)
    return df.Field(f.mesh, nvdim=1, value=tracer(n, 1, seed + 2) + 0.5, valid=coded_mask(n, 2))


def _mapped(f):
    vm = f.vdim_mapping or {}
    dims = list(f.mesh.region.dims)
    return f.vdims is not None and sorted(vm) == sorted(f.vdims) and sorted(str(v) for v in vm.values()) == sorted(dims)


def _blank(f, dtype):
    n = tuple(int(i) for i in f.mesh.n)
    return df.Field(f.mesh, nvdim=f.nvdim, value=np.zeros((*n, f.nvdim)), dtype=dtype, valid=True)


def _clone_region(r):
    return df.Region(p1=tuple(r.pmin), p2=tuple(r.pmax), dims=tuple(r.dims), units=tuple(r.units),
                     tolerance_factor=r.tolerance_factor)


def clone_mesh(m):
    return df.Mesh(region=_clone_region(m.region), n=tuple(int(i) for i in m.n), bc=m.bc,
                   subregions={k: _clone_region(v) for k, v in m.subregions.items()})


def companion(f):
    """scalar field on a copy of f's mesh whose DATA are f's mask"""
    return df.Field(clone_mesh(f.mesh), nvdim=1, value=f.valid.astype(float)[..., np.newaxis])


# --------------------------------------------------------------------------
# events

class Ev:
    """kind: same | and | map | io | set | inplace-map"""

    def __init__(self, name, kind, fn, partner=None, enabled=None, interior=None):
        self.name, self.kind, self.fn, self.partner = name, kind, fn, partner
        self.enabled = enabled or (lambda f: True)
        self.interior = interior


def _dims(f):
    return list(f.mesh.region.dims)


def _has_labels(f):
    return f.vdims is not None


def _rot_ok(f):
    return f.mesh.region.ndim >= 2


def _region_box(f):
    r = f.mesh.region
    pmin = np.array(r.pmin, dtype=float)
    pmax = np.array(r.pmax, dtype=float)
    n0 = int(f.mesh.n[0])
    if n0 > 1:
        pmax[0] = pmin[0] + (n0 - 1) * float(f.mesh.cell[0])
    return df.Region(p1=tuple(pmin), p2=tuple(pmax), dims=tuple(r.dims), units=tuple(r.units))


def _centre(f, ax, i):
    return float(f.mesh.region.pmin[ax]) + (i + 0.5) * float(f.mesh.cell[ax])


def _h5(f):
    d = tempfile.mkdtemp(dir="/dev/shm", prefix="c08-")
    try:
        p = os.path.join(d, "f.h5")
        f.to_file(p)
        return df.Field.from_file(p)
    finally:
        shutil.rmtree(d, ignore_errors=True)


def _vtk(f, rep="bin"):
    d = tempfile.mkdtemp(dir="/dev/shm", prefix="c08-")
    try:
        p = os.path.join(d, "f.vtk")
        f.to_file(p, representation=rep)
        return df.Field.from_file(p)
    finally:
        shutil.rmtree(d, ignore_errors=True)


def _fn_mask_expected(f):
    n = tuple(int(i) for i in f.mesh.n)
    idx = np.indices(n)
    return (idx[0] == 0) ^ (idx[-1] == 0) if len(n) > 1 else (idx[0] == 0)


def _fn_mask(f):
    """function of position: true in the first layer along the first axis XOR the first layer along the last axis
    (thresholds are cell faces, half a cell away from every cell centre)"""
    t0 = float(f.mesh.region.pmin[0]) + float(f.mesh.cell[0])
    tl = float(f.mesh.region.pmin[-1]) + float(f.mesh.cell[-1])
    nd = f.mesh.region.ndim

    def fn(p):
        p = np.atleast_1d(p)
        a = bool(p[0] < t0)
        return (a ^ bool(p[-1] < tl)) if nd > 1 else a
    return fn


def build_events():
    E = []

    def add(*a, **k):
        E.append(Ev(*a, **k))

    # ---- pass-through: unary, derived, complex parts, derivatives, ufunc
    add("neg", "same", lambda f, o: -f)
    add("pos", "same", lambda f, o: +f)
    add("abs", "same", lambda f, o: abs(f))
    add("comp-last", "same", lambda f, o: getattr(f, f.vdims[-1]), enabled=_has_labels)
    add("comp-first", "same", lambda f, o: getattr(f, f.vdims[0]), enabled=_has_labels)
    add("norm", "same", lambda f, o: f.norm)
    add("orientation", "same", lambda f, o: f.orientation)
    add("real", "same", lambda f, o: f.real)
    add("imag", "same", lambda f, o: f.imag)
    add("conjugate", "same", lambda f, o: f.conjugate)
    add("phase", "same", lambda f, o: f.phase)
    add("cabs", "same", lambda f, o: f.abs)
    for ax in range(3):
        add(f"diff-ax{ax}", "same", lambda f, o, ax=ax: f.diff(_dims(f)[ax]),
            enabled=lambda f, ax=ax: f.mesh.region.ndim > ax)
    add("diff2-ax0", "same", lambda f, o: f.diff(_dims(f)[0], order=2))
    # the validity restriction of the stencil switched off: the RESULT still carries the operand's validity
    add("diff-ax0-norestrict", "same", lambda f, o: f.diff(_dims(f)[0], restrict2valid=False))
    add("diff2-axL-norestrict", "same", lambda f, o: f.diff(_dims(f)[-1], order=2, restrict2valid=False))
    add("grad", "same", lambda f, o: f.grad, enabled=lambda f: f.nvdim == 1)
    # div / curl are defined for fields whose components are mapped one-to-one onto the mesh axes (C05: others are refused)
    add("div", "same", lambda f, o: f.div, enabled=lambda f: f.nvdim == f.mesh.region.ndim and f.nvdim > 1 and _mapped(f))
    add("curl", "same", lambda f, o: f.curl, enabled=lambda f: f.nvdim == 3 and f.mesh.region.ndim == 3 and _mapped(f))
    add("laplace", "same", lambda f, o: f.laplace)
    add("np.sin", "same", lambda f, o: np.sin(f))
    add("np.negative", "same", lambda f, o: np.negative(f))
    add("mul-number", "same", lambda f, o: f * 2.0)
    add("rsub-number", "same", lambda f, o: 3 - f)
    add("rtruediv-number", "same", lambda f, o: 2.0 / f)
    add("pow-number", "same", lambda f, o: f ** 2)
    add("add-constvec", "same", lambda f, o: f + tuple(float(i) for i in range(1, f.nvdim + 1)))
    # reflected forms with a constant vector / number on the left (each has its own method in the library)
    add("rand-constvec", "same", lambda f, o: (1.0, -2.0, 0.5) & f, enabled=lambda f: f.nvdim == 3)
    add("and-constvec", "same", lambda f, o: f & [1.0, -2.0, 0.5], enabled=lambda f: f.nvdim == 3)
    add("rmatmul-constvec", "same", lambda f, o: tuple(float(i) for i in range(1, f.nvdim + 1)) @ f, enabled=lambda f: f.nvdim > 1)
    add("radd-constvec", "same", lambda f, o: tuple(float(i) for i in range(1, f.nvdim + 1)) + f, enabled=lambda f: f.nvdim > 1)
    add("rlshift-number", "same", lambda f, o: 1.5 << f)
    add("lshift-number", "same", lambda f, o: f << 1.5)
    add("ndarray-mul", "same", lambda f, o: np.arange(1.0, f.nvdim + 1) * f)
    add("np.multiply-number", "same", lambda f, o: np.multiply(f, 2.0))
    # ---- binary with a second field (same component count, mask 1) / a scalar field (mask 2)
    add("add-field", "and", lambda f, o: f + o, partner="other")
    add("rsub-field", "and", lambda f, o: o - f, partner="other")
    add("mul-field", "and", lambda f, o: f * o, partner="other")
    add("div-field", "and", lambda f, o: f / o, partner="other")
    add("pow-field", "and", lambda f, o: f ** o, partner="other")
    add("mul-scalarfield", "and", lambda f, o: f * o, partner="scalar")
    add("rmul-scalarfield", "and", lambda f, o: o * f, partner="scalar")
    add("add-scalarfield", "and", lambda f, o: f + o, partner="scalar")
    add("dot-field", "and", lambda f, o: f.dot(o), partner="other")
    add("rdot-field", "and", lambda f, o: o @ f, partner="other")
    add("cross-field", "and", lambda f, o: f.cross(o), partner="other", enabled=lambda f: f.nvdim == 3)
    add("rcross-field", "and", lambda f, o: o & f, partner="other", enabled=lambda f: f.nvdim == 3)
    add("lshift-field", "and", lambda f, o: f << o, partner="other", enabled=lambda f: f.nvdim <= 3)
    add("rlshift-scalarfield", "and", lambda f, o: o << f, partner="scalar", enabled=lambda f: f.nvdim <= 3)
    add("angle-field", "and", lambda f, o: f.angle(o), partner="other")
    add("np.add-field", "and", lambda f, o: np.add(f, o), partner="other")
    add("np.multiply-scalarfield", "and", lambda f, o: np.multiply(o, f), partner="scalar")
    # ufuncs with an explicit out= field (all of its cells valid beforehand): what is RETURNED carries the validity the
    # statement names, like every other result
    add("np.add-field-out", "and", lambda f, o: np.add(f, o, out=_blank(f, np.result_type(f.array, o.array))), partner="other")
    add("np.negative-out", "same", lambda f, o: np.negative(f, out=_blank(f, f.array.dtype)),
        enabled=lambda f: f.array.dtype.kind != "b")
    # ---- cell-mapping events
    for ax in range(3):
        add(f"sel-plane-ax{ax}", "map", lambda f, o, ax=ax: f.sel(**{_dims(f)[ax]: _centre(f, ax, int(f.mesh.n[ax]) - 1)}),
            enabled=lambda f, ax=ax: f.mesh.region.ndim > max(ax, 1))
    add("sel-range-ax0", "map", lambda f, o: f.sel(**{_dims(f)[0]: (_centre(f, 0, 1), _centre(f, 0, int(f.mesh.n[0]) - 1))}),
        enabled=lambda f: int(f.mesh.n[0]) >= 2)
    add("sel-range-axL", "map", lambda f, o: f.sel(**{_dims(f)[-1]: (_centre(f, -1, 0), _centre(f, -1, int(f.mesh.n[-1]) - 2))}),
        enabled=lambda f: int(f.mesh.n[-1]) >= 3)
    add("getitem-subregion", "map", lambda f, o: f["sr"], enabled=lambda f: "sr" in f.mesh.subregions)
    add("getitem-region", "map", lambda f, o: f[_region_box(f)])
    add("pad-constant-ax0", "map", lambda f, o: f.pad({_dims(f)[0]: (1, 2)}, mode="constant"),
        interior=lambda f: (0, 1, 2))
    add("pad-wrap-axL", "map", lambda f, o: f.pad({_dims(f)[-1]: (1, 1)}, mode="wrap"))
    add("pad-edge-ax0", "map", lambda f, o: f.pad({_dims(f)[0]: (2, 0)}, mode="edge"))
    add("resample-plus1", "map", lambda f, o: f.resample(tuple(int(i) + (1 if j == 0 else 0) for j, i in enumerate(f.mesh.n))))
    # to the resolution the field already has: still a NEW field (its validity is its own)
    add("resample-same-n", "map", lambda f, o: f.resample(tuple(int(i) for i in f.mesh.n)))
    add("resample-double-last", "map",
        lambda f, o: f.resample(tuple(int(i) * (2 if j == len(f.mesh.n) - 1 else 1) for j, i in enumerate(f.mesh.n))),
        enabled=lambda f: int(np.prod(f.mesh.n)) <= 16)
    for nm, axs, k in (("rot90-01-k1", (0, 1), 1), ("rot90-01-k-1", (0, 1), -1), ("rot90-01-k2", (0, 1), 2),
                       ("rot90-12-k1", (1, 2), 1), ("rot90-20-k3", (2, 0), 3)):
        add(nm, "map", lambda f, o, axs=axs, k=k: f.rotate90(_dims(f)[axs[0]], _dims(f)[axs[1]], k=k),
            enabled=lambda f, axs=axs: f.mesh.region.ndim > max(axs))
    add("rot90-01-k1-inplace", "inplace-map",
        lambda f, o: f.rotate90(_dims(f)[0], _dims(f)[1], k=1, inplace=True), enabled=_rot_ok)
    # ---- file round trips
    add("hdf5", "io", lambda f, o: _h5(f))
    add("vtk-bin", "io", lambda f, o: _vtk(f, "bin"), enabled=lambda f: f.mesh.region.ndim == 3 and f.array.dtype.kind != "c")
    add("vtk-xml", "io", lambda f, o: _vtk(f, "xml"), enabled=lambda f: f.mesh.region.ndim == 3 and f.array.dtype.kind != "c")
    # ---- setters (mutate the state)
    for nm in SETTERS:
        add("set-" + nm, "set", None)
    return E


SETTERS = ["bool-array", "int-array", "nested-list", "function", "False", "True", "norm", "float-array"]


def setter_input(nm, f):
    """(value handed to the setter, expected mask or None when decided by 'norm')"""
    n = tuple(int(i) for i in f.mesh.n)
    if nm == "bool-array":
        m = coded_mask(n, 4)
        return m.copy(), m
    if nm == "int-array":
        m = coded_mask(n, 5)
        return m.astype(np.int64), m
    if nm == "float-array":
        m = coded_mask(n, 7)
        return m.astype(float), m
    if nm == "nested-list":
        m = coded_mask(n, 6)
        return m.astype(int).tolist(), m
    if nm == "function":
        return _fn_mask(f), _fn_mask_expected(f)
    if nm == "False":
        return False, np.zeros(n, dtype=bool)
    if nm == "True":
        return True, np.ones(n, dtype=bool)
    if nm == "norm":
        return "norm", None
    raise RuntimeError(nm)


def site_of(name):
    """call-site group used in signatures (one signature per code path, not per event)"""
    if name in ("neg", "abs"):
        return "unary-operator"
    if name == "pos":
        return "pos"
    if name.startswith("comp-"):
        return "component"
    if name in ("norm", "orientation"):
        return "norm-orientation"
    if name in ("real", "imag", "conjugate", "phase", "cabs"):
        return "complex-parts"
    if name.startswith("diff"):
        return "diff"
    if name.startswith("np.") or name == "ndarray-mul":
        return "ufunc"
    if name.startswith("set-"):
        return name
    for pre, site in (("sel-", "sel"), ("getitem-", "getitem"), ("pad-", "pad"), ("resample-", "resample"),
                      ("rot90-", "rotate90"), ("hdf5", "hdf5"), ("vtk-", "vtk")):
        if name.startswith(pre):
            return site
    if name.endswith("-field") or name.endswith("-scalarfield"):
        return "operator-between-fields"
    return "operator-with-constant"


DEPTH = {"quick": 2, "thorough": 3}
EVENTS = build_events()
EVBY = {e.name: e for e in EVENTS}


# --------------------------------------------------------------------------
# oracle pieces

def mask_ok(v, n):
    return isinstance(v, np.ndarray) and v.dtype == np.bool_ and v.shape == tuple(int(i) for i in n)


def describe_field(f):
    return (f"field n={tuple(int(i) for i in f.mesh.n)} nvdim={f.nvdim} dtype={f.array.dtype} vdims={f.vdims} "
            f"mapping={f.vdim_mapping}")


def describe(v):
    if isinstance(v, np.ndarray):
        return f"ndarray dtype={v.dtype} shape={v.shape}"
    return type(v).__name__


def norm_expectation(arr):
    """(must_be_invalid, must_be_valid) boolean arrays from the stored values"""
    with np.errstate(all="ignore"):
        L = np.sqrt(np.sum(np.abs(arr.astype(complex)) ** 2, axis=-1))
    fin = np.isfinite(L)
    return fin & (L <= 0.9e-8), fin & (L >= 1.1e-8)


def canon(f):
    """canonical state: everything the validity behaviour can depend on - mesh, component count, labels, mapping,
    dtypes, the mask - plus the representation details that producers leave behind (attribute types, memory layout).
    The DATA are deliberately not part of it: no validity path of the library branches on values (the only
    value-dependent event, valid='norm', is checked on every transition and its successor is not expanded), and the
    data are the only thing that depends on VERIF_SEED."""
    if f is None:
        return ("dead",)
    v = f.valid
    r = f.mesh.region
    return (C.mesh_snap(f.mesh), np.asarray(r.pmin).dtype.str, type(f.nvdim).__name__, int(f.nvdim),
            None if f.vdims is None else tuple((str(x), type(x).__name__) for x in f.vdims),
            tuple(sorted((str(k), str(x)) for k, x in f.vdim_mapping.items())), type(f.unit).__name__,
            f.array.dtype.str, bool(f.array.flags.c_contiguous), describe(v),
            (bool(v.flags.c_contiguous), bool(v.flags.owndata), bool(v.flags.writeable)) if isinstance(v, np.ndarray) else None,
            engine.hhex(np.ascontiguousarray(v).tobytes()) if isinstance(v, np.ndarray) else repr(v))


class Search:
    def __init__(self, ctx, start):
        self.ctx, self.start = ctx, start

    # -- replay ------------------------------------------------------------
    def apply_plain(self, f, evname):
        """apply an event without oracle (replay); returns the successor field or None"""
        ev = EVBY[evname]
        if not ev.enabled(f):
            return None
        with np.errstate(all="ignore"):
            try:
                if ev.kind == "set":
                    val, _ = setter_input(evname[4:], f)
                    f.valid = val
                    return f
                o = None
                if ev.partner == "other":
                    o = other_field(f, self.ctx.seed)
                elif ev.partner == "scalar":
                    o = scalar_field(f, self.ctx.seed)
                r = ev.fn(f, o)
            except Exception:
                return None
        return r if isinstance(r, df.Field) else None

    def build(self, hist):
        f = start_field(self.start, self.ctx.seed)
        for evname in hist:
            f = self.apply_plain(f, evname)
            if f is None:
                return None
        return f

    def enabled(self, f, hist):
        if f is None:
            return []
        return [e.name for e in EVENTS if e.enabled(f)]

    # -- one checked transition -------------------------------------------
    def transition(self, hist, evname):
        ctx = self.ctx
        f = self.build(hist)
        if f is None:
            return None
        ev = EVBY[evname]
        if not ev.enabled(f):
            return None
        inst = f"start={self.start};program={'>'.join(hist + (evname,))}"
        site = site_of(evname)
        if ev.kind == "set":
            return self.check_setter(f, evname, inst)
        o = None
        if ev.partner == "other":
            o = other_field(f, ctx.seed)
        elif ev.partner == "scalar":
            o = scalar_field(f, ctx.seed)
        operands = [("operand", f)] + ([("second operand", o)] if o is not None else [])
        pre_valid = f.valid.copy()
        pre_o = None if o is None else o.valid.copy()
        pre_bytes = [(w, x.valid.tobytes(), x.array.tobytes()) for w, x in operands]
        comp = companion(f) if ev.kind in ("map", "inplace-map") else None
        with np.errstate(all="ignore"):
            raised, r = C.raises(ev.fn, f, o)
        if raised:
            if evname.startswith("rot90") and isinstance(r, RuntimeError) and "vector orientation" in str(r):
                # the documented refusal for vector fields whose components are not mapped onto the two axes
                ctx.note(f"event-refused:{evname}:unmapped-components")
                return None
            # every other event is an operation the statement lists, applied to an operand it is defined for (the
            # `enabled` conditions of the event table): it has to RETURN a field with the validity the statement names
            ctx.fail(f"{site_of(evname)}/raises-on-legal-operand/{engine._lib_site(r.__traceback__) or 'outside-library'}/"
                     f"{type(r).__name__}", f"{evname} on {describe_field(f)}: {type(r).__name__}: {str(r)[:160]}")
            return None
        if not isinstance(r, df.Field):
            ctx.fail(f"{site_of(evname)}/returns-no-field", f"{evname} on {describe_field(f)} returned {type(r).__name__}")
            return None
        ctx.check()
        n = tuple(int(i) for i in r.mesh.n)
        ctx.observe(evname, r.valid if isinstance(r.valid, np.ndarray) else repr(r.valid))
        bad = False
        # (d) the event itself leaves operand masks (and data) alone, unless it is an in-place event
        if ev.kind != "inplace-map":
            for (w, vb, ab), (_, x) in zip(pre_bytes, operands):
                if x.valid.tobytes() != vb:
                    ctx.fail(f"{site}/operand-validity-modified", f"{inst}: the {w}'s validity changed during the event",
                             instance=inst)
                    bad = True
        # (a) Boolean array of the mesh shape
        if not mask_ok(r.valid, n):
            ctx.fail(f"{site}/result-validity-not-a-boolean-array-of-mesh-shape",
                     f"{inst}: result.valid is {describe(r.valid)}, mesh n={n}", instance=inst)
            return None  # do not expand (everything downstream would be noise)
        # (b) mask algebra
        ctx.check()
        if ev.kind in ("same", "io"):
            exp, where = pre_valid, None
        elif ev.kind == "and":
            exp, where = np.logical_and(pre_valid, pre_o), None
        else:
            with np.errstate(all="ignore"):
                fn_copy = ev.fn if ev.kind == "map" else EVBY[evname.replace("-inplace", "")].fn
                craised, cr = C.raises(fn_copy, comp, None)
            if craised or not isinstance(cr, df.Field):
                # the same event on a scalar field of the same mesh that carries the mask as data
                ctx.fail(f"{site_of(evname)}/raises-on-legal-operand/mask-as-scalar-data/{type(cr).__name__}",
                         f"{evname} on the scalar companion of {describe_field(f)}: {type(cr).__name__}: {str(cr)[:160]}")
                exp = None
            else:
                exp = cr.array[..., 0] != 0
                where = None
                if ev.interior is not None:
                    ax, lo, hi = ev.interior(f)
                    where = np.zeros(exp.shape, dtype=bool)
                    sl = [slice(None)] * exp.ndim
                    sl[ax] = slice(lo, exp.shape[ax] - hi)
                    where[tuple(sl)] = True
        if exp is not None:
            if exp.shape != r.valid.shape:
                ctx.fail(f"{site}/validity-shape-differs-from-data-path", f"{inst}: {r.valid.shape} vs {exp.shape}",
                         instance=inst)
                bad = True
            else:
                got, want = (r.valid, exp) if where is None else (r.valid[where], exp[where])
                if not np.array_equal(got, want):
                    if ev.kind in ("same", "io"):
                        kind = "validity-dropped" if r.valid.all() else "validity-differs-from-operand"
                    elif ev.kind == "and":
                        kind = ("validity-dropped" if r.valid.all() else
                                "validity-is-not-the-AND-of-the-operands")
                    else:
                        kind = "validity-not-transformed-like-the-data"
                    ctx.fail(f"{site}/{kind}", f"{inst}: result.valid={r.valid.astype(int).ravel().tolist()} "
                             f"expected={exp.astype(int).ravel().tolist()}"
                             + ("" if where is None else " (original cells only)"), instance=inst)
                    bad = True
        # successor key BEFORE the destructive ownership test
        key = canon(r)
        # (c) ownership: behavioural test
        if ev.kind != "inplace-map":
            ctx.check()
            shared = [w for w, x in operands if np.shares_memory(r.valid, x.valid)]
            before = [x.valid.tobytes() for _, x in operands]
            hit = None
            try:
                r.valid[...] = ~r.valid
            except ValueError:
                pass  # a read-only mask cannot be used to alter anything
            after = [x.valid.tobytes() for _, x in operands]
            if after != before:
                hit = "flipping result.valid in place"
            else:
                r.valid = False
                after = [x.valid.tobytes() for _, x in operands]
                if after != before:
                    hit = "re-assigning result.valid"
            if hit:
                who = [w for (w, _), a, b in zip(operands, after, before) if a != b]
                ident = " (the result IS the operand)" if r is f else ""
                ctx.fail(f"{site}/result-validity-not-its-own", f"{inst}: {hit} changed the validity of the {who}"
                         f"{ident}; shares_memory with: {shared}", instance=inst)
                bad = True
        # a wrong or shared mask does not make the successor meaningless (it is rebuilt on fresh objects): expand it
        return _Keyed(key)

    def check_setter(self, f, evname, inst):
        ctx = self.ctx
        nm = evname[4:]
        n = tuple(int(i) for i in f.mesh.n)
        val, exp = setter_input(nm, f)
        arr_before = (f.array.dtype.str, f.array.shape, f.array.tobytes())
        mesh_before = C.mesh_snap(f.mesh)
        with np.errstate(all="ignore"):
            if nm == "norm":
                must_inv, must_val = norm_expectation(f.array)
            raised, e = C.raises(setattr, f, "valid", val)
        if raised:
            ctx.fail(f"{evname}/setter-raised", f"{inst}: {type(e).__name__}: {e}", instance=inst)
            return None
        ctx.check(2)
        ctx.observe(evname, f.valid if isinstance(f.valid, np.ndarray) else repr(f.valid))
        bad = False
        if (f.array.dtype.str, f.array.shape, f.array.tobytes()) != arr_before or C.mesh_snap(f.mesh) != mesh_before:
            ctx.fail(f"{evname}/stored-values-changed", f"{inst}: array bytes or mesh changed by the validity setter",
                     instance=inst)
            bad = True
        if not mask_ok(f.valid, n):
            ctx.fail(f"{evname}/validity-not-a-boolean-array-of-mesh-shape",
                     f"{inst}: field.valid is {describe(f.valid)}, mesh n={n}", instance=inst)
            return None
        ctx.check()
        if nm == "norm":
            wrong = (f.valid & must_inv) | (~f.valid & must_val)
            if wrong.any():
                i = tuple(int(j) for j in np.argwhere(wrong)[0])
                ctx.fail(f"{evname}/wrong-cells", f"{inst}: cell {i} value {f.array[i].tolist()} marked "
                         f"{'valid' if f.valid[i] else 'invalid'}", instance=inst)
                bad = True
        elif not np.array_equal(f.valid, exp):
            ctx.fail(f"{evname}/wrong-cells", f"{inst}: got {f.valid.astype(int).ravel().tolist()} expected "
                     f"{exp.astype(int).ravel().tolist()}", instance=inst)
            bad = True
        if nm == "norm":
            ctx.note("set-norm-successors-not-expanded")
            return None  # the mask now depends on the (seed dependent) data: terminal state
        return _Keyed(canon(f))


class _Keyed:
    """successor handle: carries only the canonical key (the live object was consumed by the ownership test)"""
    __slots__ = ("key",)

    def __init__(self, key):
        self.key = key


def _canon(o):
    return o.key if isinstance(o, _Keyed) else canon(o)


def unit_single(ctx):
    """every single event on every start state (the first level of the search), full oracle"""
    starts = STARTS_Q if ctx.tier == "quick" else STARTS_T
    start = ctx.choose("start", [s[0] for s in starts])
    s = Search(ctx, start)
    f0 = s.build(())
    ctx.state("bfs", canon(f0))
    ev = ctx.choose("event", s.enabled(f0, ()))
    ctx.step(1, ev)
    nxt = s.transition((), ev)
    if nxt is not None:
        ctx.state("bfs", _canon(nxt))


def _level1_representatives(s):
    """first-level successors deduplicated on the canonical state (deterministic, no oracle: unit single checks
    these transitions): one representative first event per distinct successor state"""
    f0 = s.build(())
    seen, reps = {canon(f0)}, []
    for ev in s.enabled(f0, ()):
        if ev == "set-norm":
            continue  # value dependent successor: never expanded
        g = s.apply_plain(s.build(()), ev)
        if g is None or not mask_ok(g.valid, g.mesh.n):
            continue
        k = canon(g)
        if k not in seen:
            seen.add(k)
            reps.append(ev)
    return reps


def unit_programs(ctx):
    """breadth-first search below every distinct first-level state"""
    starts = STARTS_Q if ctx.tier == "quick" else STARTS_T
    depth = DEPTH[ctx.tier]
    start = ctx.choose("start", [s[0] for s in starts])
    s = Search(ctx, start)
    first = ctx.choose("event1", _level1_representatives(s))
    nstates, ntrans, capped = engine.bfs(ctx, [(first,)], s.enabled, s.build, _canon,
                                         lambda hist, ev: s.transition(hist, ev), depth)
    ctx.note("bfs-states", nstates)


# --------------------------------------------------------------------------
# setters on fields of every provenance (constructor argument and property), complete product

PROVENANCE = ["constructor", "neg", "hdf5", "vtk", "sel", "rot90", "pad", "resample"]


def unit_setters(ctx):
    starts = (STARTS_Q + [STARTS_T[-1]]) if ctx.tier == "quick" else STARTS_T  # the complex vector field also in quick
    start = ctx.choose("start", [s[0] for s in starts])
    prov = ctx.choose("provenance", PROVENANCE)
    nm = ctx.choose("input", SETTERS)
    via = ctx.choose("via", ["property", "constructor"])
    s = Search(ctx, start)
    hist = {"constructor": (), "neg": ("neg",), "hdf5": ("hdf5",), "vtk": ("vtk-bin",), "sel": ("sel-range-ax0",),
            "rot90": ("rot90-01-k1",), "pad": ("pad-wrap-axL",), "resample": ("resample-plus1",)}[prov]
    f = s.build(hist)
    if f is None:
        ctx.note(f"skip:provenance-not-available:{prov}")
        raise engine.Skip()
    inst = f"start={start};provenance={prov};input={nm};via={via}"
    if via == "property":
        if not mask_ok(f.valid, f.mesh.n):
            # the producer already left a non-Boolean mask (reported by unit programs); the setter must repair it
            ctx.note("setter-on-field-with-non-boolean-mask")
        ctx.step(1, f"{prov}: field.valid = <{nm}>")
        s.check_setter(f, "set-" + nm, inst)
        return
    # constructor form: Field(mesh, nvdim, value=array, valid=<input>)
    val, exp = setter_input(nm, f)
    n = tuple(int(i) for i in f.mesh.n)
    arr = f.array.copy()
    ctx.step(1, f"{prov}: Field(..., valid=<{nm}>)")
    with np.errstate(all="ignore"):
        raised, g = C.raises(df.Field, f.mesh, nvdim=f.nvdim, value=arr, valid=val, dtype=arr.dtype)
    if raised:
        ctx.fail(f"constructor-valid-{nm}/raised", f"{inst}: {type(g).__name__}: {g}", instance=inst)
        return
    ctx.check(3)
    ctx.observe(nm, g.valid if isinstance(g.valid, np.ndarray) else repr(g.valid))
    if not C.same_bytes(g.array, arr):
        ctx.fail(f"constructor-valid-{nm}/stored-values-changed", f"{inst}: array differs from the value given", instance=inst)
    if not mask_ok(g.valid, n):
        ctx.fail(f"constructor-valid-{nm}/validity-not-a-boolean-array-of-mesh-shape",
                 f"{inst}: field.valid is {describe(g.valid)}, mesh n={n}", instance=inst)
        return
    if nm == "norm":
        must_inv, must_val = norm_expectation(arr)
        wrong = (g.valid & must_inv) | (~g.valid & must_val)
        if wrong.any():
            ctx.fail(f"constructor-valid-{nm}/wrong-cells", f"{inst}: {g.valid.astype(int).ravel().tolist()}", instance=inst)
    elif not np.array_equal(g.valid, exp):
        ctx.fail(f"constructor-valid-{nm}/wrong-cells", f"{inst}: got {g.valid.astype(int).ravel().tolist()} expected "
                 f"{exp.astype(int).ravel().tolist()}", instance=inst)


def units(tier):
    return [
        {"name": "single", "fn": unit_single, "bound": None},
        {"name": "programs", "fn": unit_programs, "bound": None},
        {"name": "setters", "fn": unit_setters, "bound": None},
    ]
