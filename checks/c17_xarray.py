"""C17 - xarray export / import: lossless, cell centres as coordinates, import
without geometric attributes, rejections.

Units:
  * export     : Field.to_xarray + Field.from_xarray(to_xarray) on the full product mesh x dimension names x
                 units x nvdim x labels x dtype x tolerance.  Coordinates are compared with the exact rational
                 centres of the mesh (mc.common.Lattice), attributes and data by value, the re-import with ==.
  * strip      : import after removing EVERY subset of {cell, pmin, pmax, tolerance_factor, coordinate units}.
  * reject     : unevenly spaced coordinates (one coordinate moved by 10 % / 50 % of the spacing, with and without
                 geometric attributes), missing component count, missing component axis for vector data.
  * provenance : the exported field comes from every public producer (constructor, HDF5, OVF, VTK, xarray,
                 quarter turn, selection, negation ...).
"""
import os
import shutil
import tempfile
from fractions import Fraction as Fr

import numpy as np
import xarray as xr

import discretisedfield as df
from mc import common as C
from mc import engine

PROPERTY = "C17"
RULE = ("full products: export = mesh (1-4-D list x geometry family) x dims x units x nvdim x labels x dtype x tolerance; "
        "strip = mesh x nvdim x dims x all 32 subsets of removed attributes; reject = mesh x axis x moved coordinate x "
        "amount x attributes kept/removed, plus missing nvdim / missing component axis; provenance = producer x nvdim. "
        "An execution is non-trivial when a DataArray was exported or imported and compared.")
ASSUMPTIONS = [
    "scope: meshes with <= 48 cells from fixed lists per dimension (incl. single-cell axes) in geometry families unit, "
    "nano, kilo (thorough: offset >> edge, pico, mega) with non-representable cell centres",
    "coordinates are compared with the exact rational cell centres to 8 ulp of the largest corner magnitude; corners "
    "rebuilt from coordinates to 16 ulp of that magnitude (a mean of n-1 float differences and one half-cell step)",
    "'equal field' is the library's own == (mesh corners, names, units, n, component count, array) plus labels by "
    "value and array dtype; validity, field unit, bc and subregions are not carried by the DataArray and are not "
    "demanded; the region tolerance is demanded because the export carries it and the title says lossless",
    "attribute names are those documented by to_xarray (cell, pmin, pmax, nvdim, units, tolerance_factor) - they are "
    "the interface the importer itself reads",
    "an axis with a single cell has no spacing: without the 'cell' attribute the importer may refuse; if it answers, "
    "the answer must have the right n and values",
    "unevenly spaced = one coordinate moved by >= 10 % of the spacing on an axis with >= 3 cells (nothing nearer to "
    "even spacing is probed); rejection = any exception (R6)",
    "zero / negative / non-integer component counts and non-DataArray arguments are observed (noted), not judged: the "
    "statement only lists a MISSING component count",
]

# ---------------------------------------------------------------------------
# alphabets

# geometry family -> per axis (pmin, cell)
FAMILIES = {
    "unit": [(0.1, 0.3), (-0.3, 1.0), (5.0, 2.5), (1 / 3, 1 / 3)],
    "nano": [(0.0, 1e-9), (-3e-9, 2.5e-9), (1e-9 / 3, 0.7e-9), (5e-9, 1e-9 / 3)],
    "kilo": [(1e4 + 0.1, 300.0), (-123.456e3, 1000.0 / 3), (7.7e3, 2500.0), (0.0, 700.0)],
    "offset>>edge": [(1e4 + 0.1, 0.1), (-1e4 - 1 / 3, 1 / 3), (7.7e3, 0.7), (123.456, 1e-3)],
    "pico": [(1e-12 / 3, 0.3e-12), (0.0, 1e-12), (-7.7e-12, 2.5e-12), (1e-12, 0.1e-12)],
    "mega": [(-123.456e6, 0.7e6), (1e6 / 3, 1e6), (0.0, 1e6 / 3), (7.7e6, 2.5e6)],
}
FAM_Q = ["unit", "nano", "kilo"]
FAM_T = FAM_Q + ["offset>>edge", "pico", "mega"]
NS_Q = {1: [(3,), (1,)], 2: [(3, 2), (1, 4)], 3: [(3, 2, 4), (2, 1, 3)], 4: [(2, 3, 1, 2)]}
NS_T = {1: NS_Q[1] + [(2,), (7,), (12,)], 2: NS_Q[2] + [(4, 1), (2, 2), (5, 3)], 3: NS_Q[3] + [(1, 1, 1), (4, 3, 2), (1, 5, 1)],
        4: NS_Q[4] + [(3, 2, 2, 2), (1, 1, 1, 1), (2, 1, 3, 2)]}
UNITS = {"default": None, "distinct": C.UNITS_DISTINCT, "one-empty": ["nm", "", "s", "K"]}  # '' = a dimensionless axis
LABELS = {"default": None, "custom": ("a", "b", "c", "d"), "odd": ("my comp", "B-2", "mz", "d_4")}
DTYPES_Q = ["float64", "int64", "complex128"]
DTYPES_T = DTYPES_Q + ["float32", "bool"]
GEO_ATTRS = ["cell", "pmin", "pmax", "tolerance_factor", "coord-units", "coord-units-of-the-first-axis-only"]


def _meshes(tier):
    ns = NS_T if tier == "thorough" else NS_Q
    return [n for d in (1, 2, 3, 4) for n in ns[d]]


def _mesh(n, fam, dims=None, units=None, tol=None, bc=""):
    spec = FAMILIES[fam][: len(n)]
    pmin = [s[0] for s in spec]
    pmax = [s[0] + s[1] * k for s, k in zip(spec, n)]
    kw = {}
    if tol is not None:
        kw["tolerance_factor"] = tol
    reg = df.Region(p1=pmin, p2=pmax, dims=dims, units=None if units is None else units[: len(n)], **kw)
    if bc == "periodic-first-axis":
        bc = reg.dims[0] if len(reg.dims[0]) == 1 else "neumann"
    return df.Mesh(region=reg, n=n, bc=bc)


def _data(n, nvdim, dtype, seed):
    t = C.tracer(n, nvdim, seed, cplx=(dtype == "complex128"))
    if dtype == "bool":
        return (t.astype(int) % 2).astype(bool)
    if dtype in ("float64", "float32"):
        return (t / (7.0 if dtype == "float64" else 8.0)).astype(dtype)
    if dtype == "complex128":
        return t / 7.0
    return t.astype(dtype)


def _field(n, fam, nvdim, labels="default", dtype="float64", seed=0, dims=None, units=None, tol=None, unit=None, bc=""):
    keyorder = labels.endswith("+mapping-keys-reversed")
    axisorder = labels.endswith("+mapping-permuted-keys-in-axis-order")
    lab = LABELS[labels.split("+")[0]]
    mesh = _mesh(n, fam, dims, units, tol, bc)
    kw = {}
    if keyorder and lab is not None and nvdim > 1:
        # an explicit component-to-axis mapping whose dict lists the keys in another order than vdims
        md = mesh.region.dims
        vm = {lab[i]: (md[i] if i < len(md) else None) for i in range(nvdim)}
        kw["vdim_mapping"] = dict(reversed(list(vm.items())))
    if axisorder and lab is not None and nvdim > 1:
        # components NOT stored in axis order (cyclic pairing), the dict written with its keys in axis order
        md = list(mesh.region.dims)
        vm = {lab[i]: (md[(i + 1) % len(md)] if i < len(md) else None) for i in range(nvdim)}
        kw["vdim_mapping"] = dict(sorted(vm.items(), key=lambda kv: md.index(kv[1]) if kv[1] in md else 99))
    return df.Field(mesh, nvdim=nvdim, value=_data(n, nvdim, dtype, seed),
                    vdims=None if lab is None else list(lab[:nvdim]), dtype=np.dtype(dtype), unit=unit, **kw)


def _labels(f):
    return None if f.vdims is None else [str(x) for x in f.vdims]


# ---------------------------------------------------------------------------
# export oracle


def _check_export(ctx, f, xa, inst):
    mesh = f.mesh
    reg = mesh.region
    lat = C.Lattice.of(mesh)
    dims = tuple(reg.dims)
    ctx.check(6)
    if not isinstance(xa, xr.DataArray):
        ctx.fail("Field.to_xarray/not-a-DataArray", f"{type(xa).__name__}", instance=inst)
        return False
    # spatial coordinates = exact centres, with the region's units
    for a, d in enumerate(dims):
        if d not in xa.coords or d not in xa.dims:
            ctx.fail("Field.to_xarray/coordinate-missing", f"no dimension coordinate {d!r}: dims {xa.dims}", instance=inst)
            return False
        co = np.asarray(xa[d].values, dtype=float)
        tol = 8 * Fr(C.ulp(lat.magnitude(a)))
        if co.shape != (lat.n[a],) or any(abs(Fr(float(co[i])) - lat.centre(a, i)) > tol for i in range(lat.n[a])):
            ctx.fail("Field.to_xarray/coordinates-not-cell-centres",
                     f"axis {d!r}: {co.tolist()} expected {[float(lat.centre(a, i)) for i in range(lat.n[a])]}", instance=inst)
            return False
        if xa[d].attrs.get("units") != reg.units[a]:
            ctx.fail("Field.to_xarray/coordinate-units", f"axis {d!r}: units {xa[d].attrs.get('units')!r}, region has "
                     f"{reg.units[a]!r}", instance=inst)
    # component coordinate
    lab = _labels(f)
    if f.nvdim > 1:
        extra = [d for d in xa.dims if d not in dims]
        if len(extra) != 1:
            ctx.fail("Field.to_xarray/component-axis", f"dims {xa.dims} for nvdim={f.nvdim}", instance=inst)
            return False
        cdim = extra[0]
        if lab is not None:
            got = [str(x) for x in xa[cdim].values.tolist()] if cdim in xa.coords else None
            if got != lab:
                ctx.fail("Field.to_xarray/component-coordinate", f"component coordinate {got}, labels {lab}", instance=inst)
        data = xa.transpose(*dims, cdim).values
    else:
        extra = [d for d in xa.dims if d not in dims]
        data = xa.transpose(*dims, *extra).values.reshape(f.array.shape) if xa.size == f.array.size else xa.values
    if data.shape != f.array.shape or not np.array_equal(data, f.array) or data.dtype != f.array.dtype:
        ctx.fail("Field.to_xarray/data", f"DataArray values (dtype {data.dtype}, shape {data.shape}) differ from the field "
                 f"array (dtype {f.array.dtype}, shape {f.array.shape})", instance=inst)
    # attributes
    at = xa.attrs
    exp = {"cell": np.asarray(mesh.cell, dtype=float), "pmin": np.asarray(reg.pmin, dtype=float),
           "pmax": np.asarray(reg.pmax, dtype=float)}
    ctx.check(6)
    for k, v in exp.items():
        if k not in at or np.shape(at[k]) != v.shape or not np.array_equal(np.asarray(at[k], dtype=float), v):
            ctx.fail("Field.to_xarray/attribute", f"attribute {k!r} is {at.get(k)!r}, expected {v.tolist()}", instance=inst)
    if "nvdim" not in at or at["nvdim"] != f.nvdim:
        ctx.fail("Field.to_xarray/attribute", f"attribute 'nvdim' is {at.get('nvdim')!r}, expected {f.nvdim}", instance=inst)
    if "units" not in at or at["units"] != f.unit:
        ctx.fail("Field.to_xarray/attribute", f"attribute 'units' is {at.get('units')!r}, field unit {f.unit!r}", instance=inst)
    if "tolerance_factor" not in at or at["tolerance_factor"] != reg.tolerance_factor:
        ctx.fail("Field.to_xarray/attribute", f"attribute 'tolerance_factor' is {at.get('tolerance_factor')!r}, expected "
                 f"{reg.tolerance_factor!r}", instance=inst)
    ctx.observe(data, [np.asarray(xa[d].values) for d in dims], sorted(at))
    return True


def _check_equal(ctx, f, r, inst, site="from_xarray(to_xarray)", tolerance=True):
    """r must be 'an equal field with the same labels and dtype'"""
    ctx.check(5)
    if not isinstance(r, df.Field):
        ctx.fail(f"{site}/not-a-field", type(r).__name__, instance=inst)
        return
    rm, fm = r.mesh, f.mesh
    if tuple(int(k) for k in rm.n) != tuple(int(k) for k in fm.n) or tuple(rm.region.dims) != tuple(fm.region.dims):
        ctx.fail(f"{site}/mesh-shape-or-names", f"n {tuple(fm.n)} dims {fm.region.dims} came back as {tuple(rm.n)} "
                 f"{rm.region.dims}", instance=inst)
        return
    if not (np.array_equal(rm.region.pmin, fm.region.pmin) and np.array_equal(rm.region.pmax, fm.region.pmax)):
        ctx.fail(f"{site}/corners", f"corners {np.asarray(fm.region.pmin).tolist()} {np.asarray(fm.region.pmax).tolist()} "
                 f"came back as {np.asarray(rm.region.pmin).tolist()} {np.asarray(rm.region.pmax).tolist()}", instance=inst)
    if tuple(rm.region.units) != tuple(fm.region.units):
        ctx.fail(f"{site}/region-units", f"units {fm.region.units} came back as {rm.region.units}", instance=inst)
    if r.nvdim != f.nvdim or r.array.shape != f.array.shape or not np.array_equal(r.array, f.array):
        ctx.fail(f"{site}/values", f"nvdim {f.nvdim} shape {f.array.shape} came back as {r.nvdim} {r.array.shape}; values "
                 f"{'differ' if r.array.shape == f.array.shape else 'n/a'}", instance=inst)
    elif r.array.dtype != f.array.dtype:
        ctx.fail(f"{site}/dtype", f"dtype {f.array.dtype} came back as {r.array.dtype}", instance=inst)
    if _labels(r) != _labels(f):
        cls = "scalar-with-label" if f.nvdim == 1 else "vector"
        ctx.fail(f"{site}/labels/{cls}", f"labels {_labels(f)} came back as {_labels(r)}",
                 instance=(f"nvdim=1;labels={_labels(f)};read={_labels(r)}" if f.nvdim == 1 else inst))
    if tolerance and r.mesh.region.tolerance_factor != f.mesh.region.tolerance_factor:
        ctx.fail(f"{site}/region-tolerance", f"tolerance_factor {f.mesh.region.tolerance_factor} came back as "
                 f"{r.mesh.region.tolerance_factor}", instance=inst)
    ctx.check()
    eq = (r == f)
    if not eq and not ctx.violations:
        ctx.fail(f"{site}/not-equal", "imported field != exported field (library ==)", instance=inst)
    ctx.observe(r.array, r.mesh.region.pmin, r.mesh.region.pmax, _labels(r), str(r.array.dtype))


def unit_export(ctx):
    thorough = ctx.tier == "thorough"
    n = ctx.choose("n", _meshes(ctx.tier))
    fam = ctx.choose("geom", FAM_T if thorough else FAM_Q)
    dims = ctx.choose("dims", C.DIMSETS[len(n)])
    units = ctx.choose("units", ["default", "distinct", "one-empty"])
    nvdim = ctx.choose("nvdim", [1, 2, 3, 4])
    labels = ctx.choose("labels", ["default", "custom", "custom+mapping-keys-reversed", "custom+mapping-permuted-keys-in-axis-order"] + (["odd"] if thorough else []))
    dtype = ctx.choose("dtype", DTYPES_T if thorough else DTYPES_Q)
    tol = ctx.choose("tolerance", [None, 1e-6] if thorough else [None])
    # boundary conditions are not carried by a DataArray; the exported field is still "equal" to its re-import
    bc = ctx.choose("bc", ["", "periodic-first-axis", "dirichlet"]) if labels == "default" and dtype == "float64" else ""
    unit = "A/m" if nvdim % 2 else None
    f = _field(n, fam, nvdim, labels, dtype, ctx.seed, dims=dims, units=UNITS[units], tol=tol, unit=unit, bc=bc)
    inst = ctx.key()
    before = C.field_snap(f)
    ctx.step(1, "to_xarray")
    xa = f.to_xarray()
    if not _check_export(ctx, f, xa, inst):
        return
    ctx.step(1, "from_xarray")
    xsnap = _xa_snap(xa)
    r = df.Field.from_xarray(xa)
    ctx.check(2)
    xnow = _xa_snap(xa)
    if xnow != xsnap:
        ctx.fail("Field.from_xarray/the-DataArray-was-modified", "attributes, values or coordinates of the imported DataArray changed",
                 instance=inst)
    if C.field_snap(f) != before:
        ctx.fail("Field.to_xarray/operand-modified", "field changed by export/import", instance=inst)
    _check_equal(ctx, f, r, inst)
    if r.unit != f.unit:
        ctx.note("field-unit-not-restored-by-import")


# ---------------------------------------------------------------------------
# import with attributes removed


def _xa_snap(xa):
    """everything a caller can see of a DataArray: attributes, values, coordinates and their attributes"""
    def norm(v):
        return np.array(v).tolist() if hasattr(v, "__len__") and not isinstance(v, str) else v
    return (dict((k, norm(v)) for k, v in xa.attrs.items()), xa.values.tobytes(),
            {d: (np.asarray(xa[d].values).tobytes() if xa[d].values.dtype.kind != "U" else tuple(xa[d].values), dict(xa[d].attrs))
             for d in xa.coords})


def _strip(xa, removed, dims):
    xa = xa.copy()
    xa.attrs = dict(xa.attrs)
    for k in removed:
        if k == "coord-units":
            for d in dims:
                xa[d].attrs.pop("units", None)
        elif k == "coord-units-of-the-first-axis-only":
            xa[dims[0]].attrs.pop("units", None)
        else:
            xa.attrs.pop(k, None)
    return xa


def unit_strip(ctx):
    thorough = ctx.tier == "thorough"
    n = ctx.choose("n", _meshes(ctx.tier))
    fam = ctx.choose("geom", FAM_T if thorough else FAM_Q)
    nvdim = ctx.choose("nvdim", [1, 3])
    dims = ctx.choose("dims", C.DIMSETS[len(n)][:2] if not thorough else C.DIMSETS[len(n)])
    rem = ctx.choose("removed", ["+".join(k for i, k in enumerate(GEO_ATTRS) if (b >> i) & 1) or "nothing"
                                 for b in range(2 ** len(GEO_ATTRS)) if not ((b >> 4) & 1 and (b >> 5) & 1)])
    removed = [] if rem == "nothing" else rem.split("+")
    # (a scalar field keeps the default "no label": the loss of a scalar's label is unit export's finding)
    f = _field(n, fam, nvdim, "custom" if nvdim > 1 else "default", "float64", ctx.seed, dims=dims,
               units=C.UNITS_DISTINCT, tol=1e-6)
    inst = ctx.key()
    xa = _strip(f.to_xarray(), removed, f.mesh.region.dims)
    ctx.step(1, f"from_xarray without {removed}")
    single = any(k == 1 for k in n)
    xsnap = _xa_snap(xa)
    raised, r = C.raises(df.Field.from_xarray, xa)
    ctx.check()
    if _xa_snap(xa) != xsnap:
        ctx.fail("Field.from_xarray/the-DataArray-was-modified", f"import without {removed}: attributes now {sorted(xa.attrs)}",
                 instance=inst)
    if raised:
        if "cell" in removed and single:
            ctx.note("refused:single-cell-axis-without-cell")  # no spacing to rebuild from: legitimate
            ctx.check()
            ctx.observe("refused")
            return
        cls = "attributes-complete" if not set(removed) & {"cell", "pmin", "pmax"} else "rebuild-from-coordinates"
        ctx.fail(f"from_xarray/raises/{cls}", f"import without {removed} raises {type(r).__name__}: {r}", instance=inst)
        return
    lat = C.Lattice.of(f.mesh)
    ctx.check(4)
    if not isinstance(r, df.Field) or tuple(int(k) for k in r.mesh.n) != tuple(n) or \
            tuple(r.mesh.region.dims) != tuple(f.mesh.region.dims):
        ctx.fail("from_xarray/stripped/mesh-shape-or-names", f"n {n} dims {f.mesh.region.dims} imported as "
                 f"{tuple(r.mesh.n)} {r.mesh.region.dims}", instance=inst)
        return
    for nm, exact in (("pmin", lat.pmin), ("pmax", lat.pmax)):
        got = np.asarray(getattr(r.mesh.region, nm), dtype=float)
        for a in range(len(n)):
            if nm in removed:
                if "cell" in removed and n[a] == 1:
                    continue  # not determined by the coordinates
                tol = 16 * Fr(C.ulp(lat.magnitude(a)))
            else:
                tol = Fr(0)
            if abs(Fr(float(got[a])) - exact[a]) > tol:
                cls = "rebuilt-not-half-a-cell-beyond-outermost-centres" if nm in removed else "attribute-ignored"
                ctx.fail(f"from_xarray/stripped/corner/{cls}", f"{nm}[{a}] = {got[a]!r}, expected {float(exact[a])!r} "
                         f"(removed {removed})", instance=inst)
                break
    if r.nvdim != f.nvdim or r.array.shape != f.array.shape or not np.array_equal(r.array, f.array) \
            or r.array.dtype != f.array.dtype:
        ctx.fail("from_xarray/stripped/values", "values, shape or dtype changed", instance=inst)
    if _labels(r) != _labels(f):
        ctx.fail("from_xarray/stripped/labels", f"labels {_labels(f)} imported as {_labels(r)}", instance=inst)
    ctx.check(2)
    if not any(k.startswith("coord-units") for k in removed) and tuple(r.mesh.region.units) != tuple(f.mesh.region.units):
        ctx.fail("from_xarray/stripped/region-units", f"units {f.mesh.region.units} imported as {r.mesh.region.units}",
                 instance=inst)
    if "tolerance_factor" not in removed and r.mesh.region.tolerance_factor != f.mesh.region.tolerance_factor:
        ctx.fail("from_xarray/stripped/region-tolerance", f"tolerance {r.mesh.region.tolerance_factor}", instance=inst)
    ctx.observe(r.array, r.mesh.region.pmin, r.mesh.region.pmax, r.mesh.region.units, r.mesh.region.tolerance_factor)


# ---------------------------------------------------------------------------
# rejections


def _uneven_meshes(tier):
    return [n for n in _meshes(tier) if any(k >= 3 for k in n)]


def unit_reject_uneven(ctx):
    thorough = ctx.tier == "thorough"
    n = ctx.choose("n", _uneven_meshes(ctx.tier))
    fam = ctx.choose("geom", FAM_T if thorough else FAM_Q + ["offset>>edge"])  # offset >> spacing: a tolerance relative to the coordinate is too lax
    axis = ctx.choose("axis", [a for a in range(len(n)) if n[a] >= 3])
    which = ctx.choose("coordinate", ["second", "last", "first"])
    amount = ctx.choose("moved-by", [0.1, -0.1, 0.5] if thorough else [0.1, -0.1])
    attrs = ctx.choose("geometric-attributes", ["kept", "removed"])
    nvdim = ctx.choose("nvdim", [1, 3])
    f = _field(n, fam, nvdim, "default", "float64", ctx.seed)
    dims = f.mesh.region.dims
    xa = f.to_xarray()
    d = dims[axis]
    v = np.array(xa[d].values, dtype=float)
    i = {"second": 1, "last": n[axis] - 1, "first": 0}[which]
    spacing = float(f.mesh.cell[axis])
    v[i] = v[i] + amount * spacing
    # harness-side: the spacing really is uneven by >= 5 % of a cell
    dd = np.diff(v)
    if not (dd.max() - dd.min() >= 0.05 * spacing):
        raise RuntimeError("harness: coordinates not uneven")
    uattr = dict(xa[d].attrs)
    xb = xa.assign_coords({d: v})
    xb[d].attrs.update(uattr)
    if attrs == "removed":
        xb = _strip(xb, ["cell", "pmin", "pmax"], dims)
    ctx.step(1, "from_xarray(unevenly spaced)")
    ctx.check()
    raised, r = C.raises(df.Field.from_xarray, xb)
    ctx.observe(raised)
    if not raised:
        scale = "spacing<=1e-8" if spacing <= 1e-8 else "spacing>1e-8"
        ctx.fail(f"from_xarray/uneven-coordinates-accepted/{scale}",
                 f"axis {d!r} coordinates {v.tolist()} (one moved by {amount:+g} of the spacing {spacing!r}) were imported "
                 f"as mesh pmin={np.asarray(r.mesh.region.pmin).tolist()} pmax={np.asarray(r.mesh.region.pmax).tolist()} "
                 f"n={tuple(int(k) for k in r.mesh.n)}")
    else:
        ctx.note("rejected:" + type(r).__name__)


def unit_reject_other(ctx):
    n = ctx.choose("n", _meshes(ctx.tier))
    fam = ctx.choose("geom", FAM_Q)
    nvdim = ctx.choose("nvdim", [1, 2, 3, 4])
    case = ctx.choose("case", ["nvdim-missing", "component-axis-renamed", "component-axis-absent",
                               "nvdim-zero", "nvdim-negative", "nvdim-float", "nvdim-str", "not-a-DataArray"])
    f = _field(n, fam, nvdim, "default", "float64", ctx.seed)
    xa = f.to_xarray()
    must = True
    if case == "nvdim-missing":
        xa.attrs.pop("nvdim")
    elif case == "component-axis-renamed":
        if nvdim == 1:
            raise engine.Skip()
        xa = xa.rename({"vdims": "comp"})
    elif case == "component-axis-absent":
        if nvdim == 1:
            raise engine.Skip()
        attrs = dict(xa.attrs)
        xa = xa.isel(vdims=0, drop=True)
        xa.attrs = attrs  # still says nvdim > 1
    else:
        must = False
        if case == "not-a-DataArray":
            xa = xa.values
        else:
            xa.attrs["nvdim"] = {"nvdim-zero": 0, "nvdim-negative": -nvdim, "nvdim-float": float(nvdim),
                                 "nvdim-str": str(nvdim)}[case]
    ctx.step(1, f"from_xarray({case})")
    raised, r = C.raises(df.Field.from_xarray, xa)
    ctx.observe(raised)
    ctx.check()
    if must and not raised:
        ctx.fail(f"from_xarray/accepted/{case}", f"import of a DataArray with {case} returned {type(r).__name__}")
    ctx.note(f"{case}:{'rejected:' + type(r).__name__ if raised else 'accepted'}")


def unit_reimport(ctx):
    """Non-initial states: the DataArray is imported, the RESULT is changed by the user (mesh moved / resized / turned in
    place, subregions attached, values overwritten), and the same DataArray - or the DataArray of a sibling field on the
    same mesh - is imported again.  The second import must again be the exported field: every import builds its own
    objects."""
    n = ctx.choose("n", [(3,), (3, 2), (2, 1, 3)])
    fam = ctx.choose("geom", ["unit", "nano"])
    nvdim = ctx.choose("nvdim", [1, 3])
    strip = ctx.choose("geometric-attributes", ["kept", "removed"])
    act = ctx.choose("user-changes-the-first-result", ["mesh.translate in place", "mesh.scale in place", "subregions attached",
                                                        "array overwritten", "valid overwritten", "rotate90 in place"])
    second = ctx.choose("second-import", ["same DataArray", "sibling field on the same mesh"])
    if act == "rotate90 in place" and (len(n) < 2 or nvdim != 1):
        raise engine.Skip()
    f = _field(n, fam, nvdim, "default", "float64", ctx.seed)
    xa = f.to_xarray()
    dims = f.mesh.region.dims
    if strip == "removed":
        if any(k == 1 for k in n):
            raise engine.Skip()
        xa = _strip(xa, ["cell", "pmin", "pmax"], dims)
    inst = ctx.key()
    ctx.step(1, "first import")
    r1 = df.Field.from_xarray(xa)
    edges = np.asarray(r1.mesh.region.edges, dtype=float)
    ctx.step(1, act)
    if act == "mesh.translate in place":
        r1.mesh.translate(list(0.75 * edges), inplace=True)
    elif act == "mesh.scale in place":
        r1.mesh.scale(2.0, inplace=True)
    elif act == "subregions attached":
        r1.mesh.subregions = {"all": df.Region(p1=r1.mesh.region.pmin, p2=r1.mesh.region.pmax)}
    elif act == "array overwritten":
        r1.array[...] = -1.0
    elif act == "valid overwritten":
        r1.valid[...] = False
    else:
        r1.rotate90(dims[0], dims[1], inplace=True)
    if second == "same DataArray":
        g, xb = f, xa
    else:
        g = df.Field(f.mesh, nvdim=nvdim, value=np.array(f.array)[::-1] * 2.0 + 1.0)
        xb = g.to_xarray()
        if strip == "removed":
            xb = _strip(xb, ["cell", "pmin", "pmax"], dims)
    ctx.step(1, "second import")
    r2 = df.Field.from_xarray(xb)
    ctx.observe(np.asarray(r2.mesh.region.pmin, dtype=float), r2.array, list(r2.mesh.subregions))
    before = len(ctx.violations)
    if strip == "kept":
        _check_equal(ctx, g, r2, inst, site="from_xarray/second-import")
    else:
        ctx.check(2)
        lat = C.Lattice.of(g.mesh)
        tol = 16 * max(C.ulp(lat.magnitude(a)) for a in range(len(n)))
        if tuple(int(k) for k in r2.mesh.n) != tuple(n) or C.gt(np.abs(np.asarray(r2.mesh.region.pmin, dtype=float) - np.asarray(g.mesh.region.pmin, dtype=float)), tol) \
                or C.gt(np.abs(np.asarray(r2.mesh.region.pmax, dtype=float) - np.asarray(g.mesh.region.pmax, dtype=float)), tol):
            ctx.fail("from_xarray/second-import/corners", f"pmin {np.asarray(r2.mesh.region.pmin).tolist()} pmax "
                     f"{np.asarray(r2.mesh.region.pmax).tolist()} n {tuple(r2.mesh.n)}; the exported field has "
                     f"{np.asarray(g.mesh.region.pmin).tolist()} {np.asarray(g.mesh.region.pmax).tolist()} {n}", instance=inst)
        elif not np.array_equal(r2.array, g.array):
            ctx.fail("from_xarray/second-import/values", "values differ", instance=inst)
    ctx.check()
    if len(ctx.violations) == before and len(r2.mesh.subregions):
        ctx.fail("from_xarray/second-import/foreign-subregions", f"the second import carries subregions {list(r2.mesh.subregions)} "
                 f"that were attached to the FIRST result", instance=inst)


# ---------------------------------------------------------------------------
# provenance

PRODUCERS = ["ctor", "h5", "ovf", "vtk", "xarray", "rotate90", "sel", "neg", "getitem", "component", "fftn"]


def _produce(f, how, d):
    if how == "ctor":
        return f
    if how in ("h5", "ovf", "vtk"):
        fn = os.path.join(d, "src." + how)
        f.to_file(fn)
        return df.Field.from_file(fn)
    if how == "xarray":
        return df.Field.from_xarray(f.to_xarray())
    if how == "rotate90":
        return f.rotate90("x", "y")
    if how == "sel":
        return f.sel(x=(float(f.mesh.region.pmin[0]), float(f.mesh.region.pmax[0])))
    if how == "neg":
        return -f
    if how == "getitem":
        return f[f.mesh.region]
    if how == "component":
        return f.x if f.nvdim > 1 else f
    if how == "fftn":
        return f.fftn()
    raise ValueError(how)


def unit_provenance(ctx):
    how = ctx.choose("producer", PRODUCERS)
    nvdim = ctx.choose("nvdim", [1, 3])
    f0 = _field((3, 2, 4), "unit", nvdim, "default", "float64", ctx.seed)
    inst = ctx.key()
    d = tempfile.mkdtemp(prefix="dfmc17_", dir="/dev/shm")
    try:
        try:
            f = _produce(f0, how, d)
        except Exception as e:  # the producer is another property's business
            ctx.note(f"producer-failed:{how}:{type(e).__name__}")
            raise engine.Skip()
    finally:
        shutil.rmtree(d, ignore_errors=True)
    ctx.step(1, f"to_xarray of a field from {how}")
    xa = f.to_xarray()
    if not _check_export(ctx, f, xa, inst):
        return
    ctx.step(1, "from_xarray")
    raised, r = C.raises(df.Field.from_xarray, xa)
    if raised:
        ctx.fail("from_xarray(to_xarray)/raises/own-export-refused",
                 f"the export of a field produced by {how} (nvdim of type {type(f.nvdim).__name__}) is refused: "
                 f"{type(r).__name__}: {r}", instance=inst)
        return
    _check_equal(ctx, f, r, inst)


def unit_export_options(ctx):
    """``to_xarray(name=..., unit=...)``: the options label THIS DataArray.  The field keeps its own unit, a later plain
    export is what a fresh field exports, and the DataArray exported with options still imports to an equal field (values,
    mesh, labels; the unit of the import is the DataArray's)."""
    n = ctx.choose("n", [(3,), (2, 3), (2, 3, 2)])
    nvdim = ctx.choose("nvdim", [1, 3])
    own = ctx.choose("field-unit", ["A/m", None])
    opt = ctx.choose("options", [{"unit": "T"}, {"name": "m", "unit": "J/m3"}, {"name": "m"}, {"unit": ""}])
    later = ctx.choose("then", ["plain-export", "export-with-other-unit-then-plain"])
    # "importing that DataArray returns an equal field with the same labels and dtype": also for narrow floating types
    dtype = ctx.choose("dtype", ["float64", "float32", "float16", "complex64"])
    fam = FAM_Q[0]
    f = _field(n, fam, nvdim, "default", dtype, ctx.seed, unit=own)
    fresh = _field(n, fam, nvdim, "default", dtype, ctx.seed, unit=own)
    before = C.field_snap(f)
    inst = ctx.key()
    ctx.step(1, f"to_xarray({opt})")
    xa = f.to_xarray(**opt)
    ctx.check(2)
    # the unit the caller asks this DataArray to carry is the unit it carries ("attributes carry ... unit"); an EMPTY
    # string falls back to the field's own unit in the library, which the statement does not decide: recorded only
    if "unit" in opt and xa.attrs.get("units") != opt["unit"]:
        if opt["unit"]:
            ctx.fail("Field.to_xarray/unit-option-not-carried", f"units attribute {xa.attrs.get('units')!r}, requested {opt['unit']!r} "
                     f"(the field's own unit is {own!r})", instance=inst)
        else:
            ctx.note("unit-option-not-carried:" + repr(opt["unit"]))
    if "name" in opt and xa.name != opt["name"]:
        ctx.note("name-option-not-carried")
    if C.field_snap(f) != before or f.unit != own:
        ctx.fail("Field.to_xarray/options-modified-the-field", f"field.unit is now {f.unit!r} (was {own!r})", instance=inst)
        return
    if later != "plain-export":
        f.to_xarray(unit="kg")
        ctx.step(1)
    ctx.step(2, "plain to_xarray of the same field and of a fresh one")
    x2, x3 = f.to_xarray(), fresh.to_xarray()
    ctx.check()
    ctx.observe(str(x2.attrs.get("units")), x2.name)
    if _xa_snap(x2) != _xa_snap(x3) or x2.name != x3.name:
        ctx.fail("Field.to_xarray/plain-export-differs-after-an-export-with-options",
                 f"units {x2.attrs.get('units')!r} name {x2.name!r}; a fresh field exports units {x3.attrs.get('units')!r} name {x3.name!r}",
                 instance=inst)
    ctx.step(1, "from_xarray(export with options)")
    raised, r = C.raises(df.Field.from_xarray, xa)
    ctx.check()
    if raised:
        ctx.fail("Field.from_xarray/export-with-options-not-importable", f"{type(r).__name__}: {str(r)[:120]}", instance=inst)
        return
    if not (np.array_equal(r.array, f.array) and r.mesh == f.mesh and r.vdims == f.vdims):
        ctx.fail("Field.from_xarray/export-with-options-imports-to-another-field", "", instance=inst)
    elif r.array.dtype != f.array.dtype:
        ctx.fail("Field.from_xarray/dtype-not-kept", f"exported {f.array.dtype}, imported {r.array.dtype}", instance=inst)


def units(tier):
    return [
        {"name": "export", "fn": unit_export, "bound": None},
        {"name": "export_options", "fn": unit_export_options, "bound": None},
        {"name": "strip", "fn": unit_strip, "bound": None},
        {"name": "reject_uneven", "fn": unit_reject_uneven, "bound": None},
        {"name": "reject_other", "fn": unit_reject_other, "bound": None},
        {"name": "reimport", "fn": unit_reimport, "bound": None},
        {"name": "provenance", "fn": unit_provenance, "bound": None},
    ]
