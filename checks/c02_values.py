"""C02 - a field holds exactly the value its specification assigns to every cell.

Stateless exploration of the real ``Field`` constructor / ``update_field_values``
/ ``array`` setter over small meshes (1-4 dimensions), component counts, dtypes
and every supported kind of value specification, compared cell by cell with a
reference evaluator working at the exact (rational) cell centres; plus sampling,
component access, iteration, line sampling and refusal of bad specifications.

Units
  values  constant / vector / array / n-shaped / function specifications
  dict    per-subregion dictionaries over all subregion layouts (precedence, default)
  nan     NaN as a *value* of a specification (constant, array, function, dict)
  source  another field as specification (same / finer / coarser / larger / shifted / same count and corner but larger cells / not covering)
  reuse   values from a source field / a function after the mesh object was used and then transformed in place
  sample  field(p) for every cell x {centre, 4 off-centre, faces, corners}
  access  component access for every label, iteration order
  line    line(p1, p2, n) for all ordered pairs of a 9-point set x n
  line_faces  lines from every vertex of the first axis to the lower / upper face of the region x n = 2..7
  bad     every bad specification x every route, field snapshot unchanged
"""
import math
from fractions import Fraction as Fr

import fractions

import numpy as np

import discretisedfield as df
from mc import common as C
from mc import engine

PROPERTY = "C02"
RULE = ("every unit is a full product (no deviation bound) of its choice points: mesh shape x geometry x nvdim x dtype "
        "x specification kind x route (values); x subregion layout x sub-value kind x default kind x key subset x key "
        "order (dict); x source relation (source); x point offset class, all cells looped inside (sample); x label set "
        "(access); x all ordered pairs of a 9-point set x n (line); x bad kind x route (bad). An execution is "
        "non-trivial when at least one oracle comparison ran.")
ASSUMPTIONS = [
    "scope: meshes with <= 16 cells in 1-4 dimensions (shapes and three geometries listed in SHAPES/GEOM), nvdim 1-4, "
    "dtype in {None, float, int, complex, bool}",
    "values are position-coded integers (exact in every dtype); bool fields use a fixed coded bit pattern",
    "functions of position are (a) piecewise constant per cell (table lookup by exact cell decode) and (b) affine in the "
    "cell coordinate (p-pmin)/cell, compared with the exact value at the exact centre within "
    "sum|w_k|*16*ulp(M_k)/cell_k: a shift of the evaluation point by >= 1e-6 cell is visible, float rounding of the "
    "centre is not",
    "dict: 'first listed' is the order in which the MESH lists its subregions, restricted to the subregions that have a "
    "key (the order of the keys inside the value dict must not matter: equal dicts are one specification); where an "
    "earlier subregion WITHOUT key contains the cell, its successor's value and the default are both accepted; incomplete "
    "dicts (uncovered cells, no default) are not judged",
    "source field: a target cell may take the value of ANY source cell whose closed cell contains the target centre "
    "(band: containment tolerance + 16 ulp); same dimension names on both meshes; a source that misses a target centre "
    "by >= half a cell must be refused",
    "sampling: points within the containment tolerance (+16 ulp) of a face may return either adjacent cell",
    "line: points p1+i(p2-p1)/(n-1) within 16 ulp(M); values must be the stored value of a cell containing the RETURNED "
    "point; r within 16*sqrt(ndim)*ulp(M)",
    "dtype of the stored array is not judged (only shape and values); complex functions with dtype=None are not used",
    "refusal = any exception; existing field compared by byte snapshot (array, validity, labels, unit, mesh)",
]

# --------------------------------------------------------------------------
# alphabets

AXES = {
    "u": (0.0, 1.0),
    "a": (-0.3, 0.1),
    "b": (7.7, 1.0 / 3.0),
    "c": (-123.456, 2.5),
    "d": (1e4 + 0.1, 0.7),
    "n1": (1e-9 / 3.0, 0.3e-9),
    "n2": (-5e-9, 1e-9),
    "n3": (2.5e-9, 0.7e-9),
    "n4": (0.0, 1e-9 / 3.0),
}
GEOM = {"unit": ["u", "u", "u", "u"], "off": ["a", "b", "c", "d"], "nano": ["n1", "n2", "n3", "n4"]}

SHAPES_T = {
    1: [(1,), (2,), (3,), (5,), (7,)],
    2: [(1, 1), (2, 3), (3, 2), (4, 4), (1, 5), (5, 1)],
    3: [(2, 2, 2), (1, 2, 3), (3, 1, 2), (2, 3, 2)],
    4: [(2, 2, 2, 2), (1, 2, 1, 3), (2, 1, 3, 2), (1, 2, 3, 2)],  # (1,2,3,2): BOTH middle axes longer than one cell
}
SHAPES_Q = {1: [(1,), (3,)], 2: [(2, 3), (1, 5)], 3: [(1, 2, 3)], 4: [(2, 1, 3, 2), (1, 2, 3, 2)]}

SITE = {"ctor": "Field.ctor", "update": "Field.update_field_values", "setter": "Field.array-setter"}
DT = {"None": None, "float": float, "int": int, "complex": complex, "bool": bool}
DTYPES_T = ["None", "float", "int", "complex", "bool"]


def shapes(tier, ndims=(1, 2, 3, 4)):
    src = SHAPES_Q if tier == "quick" else SHAPES_T
    return [s for nd in ndims for s in src[nd]]


def geoms(tier):
    return ["unit", "off"] if tier == "quick" else ["unit", "off", "nano"]


def axes_of(geom, nd):
    names = GEOM[geom]
    names = names[nd - 1:] + names[:nd - 1]
    return [AXES[k] for k in names[:nd]]


def mk_mesh(n, geom, dims=None, boxes=None):
    """mesh with n cells; optional subregions given as ordered list (name, lo, hi) of index boxes"""
    nd = len(n)
    ax = axes_of(geom, nd)
    pmin = [a[0] for a in ax]
    pmax = [a[0] + a[1] * k for a, k in zip(ax, n)]
    region = df.Region(p1=pmin, p2=pmax, dims=dims)
    if not boxes:
        return df.Mesh(region=region, n=n)
    plain = df.Mesh(region=region, n=n)
    cell = np.asarray(plain.cell, dtype=float)
    lo0 = np.asarray(plain.region.pmin, dtype=float)
    hi0 = np.asarray(plain.region.pmax, dtype=float)
    subs = {}
    for name, lo, hi in boxes:
        p1 = [lo0[k] + lo[k] * cell[k] if lo[k] > 0 else lo0[k] for k in range(nd)]
        p2 = [lo0[k] + hi[k] * cell[k] if hi[k] < n[k] else hi0[k] for k in range(nd)]
        subs[name] = df.Region(p1=p1, p2=p2, dims=dims)
    return df.Mesh(region=region, n=n, subregions=subs)


def tdata(shape, nvdim, dt, seed, salt=0):
    """position coded data, exact in dtype dt; salt makes different objects carry different values"""
    shape = tuple(int(i) for i in shape)
    if dt == "bool":
        return C.coded_mask((*shape, nvdim), k=salt).astype(bool)
    if dt == "complex":
        return C.tracer(shape, nvdim, seed + 17 * salt, cplx=True) + 1000.0 * salt
    a = C.tracer(shape, nvdim, seed + 17 * salt) + 1000.0 * salt
    if dt == "int":
        return a.astype(np.int64)
    return a


def pyval(x):
    """numpy scalar -> python scalar of the same kind"""
    return x.item() if hasattr(x, "item") else x


def pytuple(v):
    return tuple(pyval(x) for x in np.asarray(v).reshape(-1))


def same_values(got, exp):
    got, exp = np.asarray(got), np.asarray(exp)
    return got.shape == exp.shape and bool(np.array_equal(got, exp))


def first_diff(got, exp):
    got, exp = np.asarray(got), np.asarray(exp)
    if got.shape != exp.shape:
        return f"shape {got.shape} expected {exp.shape}"
    w = np.argwhere(~(got == exp))
    if not len(w):
        return "?"
    i = tuple(int(k) for k in w[0])
    return f"{len(w)} entries differ, first {i}: stored {got[i].item()!r} expected {exp[i].item()!r}"


class Geo:
    """exact geometry of a mesh"""

    def __init__(self, mesh):
        self.mesh = mesh
        self.lat = C.Lattice.of(mesh)
        self.n = tuple(int(i) for i in mesh.n)
        self.nd = len(self.n)
        self.pmin = np.asarray(mesh.region.pmin, dtype=float)
        self.pmax = np.asarray(mesh.region.pmax, dtype=float)
        self.cell = (self.pmax - self.pmin) / np.asarray(self.n)
        self.M = [self.lat.magnitude(k) for k in range(self.nd)]
        self.tf = float(mesh.region.tolerance_factor)
        self.minedge = float(np.min(self.pmax - self.pmin))

    def cells(self):
        return [tuple(int(i) for i in idx) for idx in np.ndindex(*self.n)]

    def centre_exact(self, idx):
        return [self.lat.centre(k, i) for k, i in enumerate(idx)]

    def centre_float(self, idx):
        return [float(c) for c in self.centre_exact(idx)]

    def band(self, k, x):
        """ambiguity band around a face along axis k for coordinate x (absolute)"""
        return Fr(self.tf * (self.minedge + abs(float(x)))) + Fr(16 * C.ulp(max(self.M[k], abs(float(x)))))

    def candidates(self, p):
        """all cells that may legitimately be reported for point p (floats); None if p is clearly outside"""
        per_axis = []
        for k in range(self.nd):
            x = Fr(float(p[k]))
            b = self.band(k, x)
            if x < self.lat.pmin[k] - b or x > self.lat.pmax[k] + b:
                return None
            t = (x - self.lat.pmin[k]) / self.lat.cell[k]
            i = math.floor(t)
            bc = b / self.lat.cell[k]
            opts = {i}
            if t - i <= bc:
                opts.add(i - 1)
            if (i + 1) - t <= bc:
                opts.add(i + 1)
            opts = {min(max(o, 0), self.n[k] - 1) for o in opts}
            per_axis.append(sorted(opts))
        out = [()]
        for o in per_axis:
            out = [c + (i,) for c in out for i in o]
        return out

    def decode(self, p):
        """robust cell decode of a float point that is (close to) a cell centre"""
        p = np.asarray(p, dtype=float).reshape(-1)
        idx = np.floor((p - self.pmin) / self.cell).astype(int)
        return tuple(int(i) for i in np.clip(idx, 0, np.asarray(self.n) - 1))


# ---- functions of position -----------------------------------------------


def lookup_fn(geo, table, ret):
    """piecewise constant function: value of the cell the point lies in"""
    nv = table.shape[-1]

    def fn(p):
        v = table[geo.decode(p)]
        if ret == "tuple":
            return pytuple(v)
        if ret == "list":
            return list(pytuple(v))
        if ret == "scalar":
            assert nv == 1
            return pyval(v[0])
        return np.array(v)

    return fn


LIN_W = [1.0, 10.0, 100.0, 1000.0]


def linear_fn(geo, nv, cplx=False):
    """affine in the cell coordinate; component c adds c*0.25 (and i*(c+1)*value for complex)"""

    def fn(p):
        p = np.asarray(p, dtype=float).reshape(-1)
        s = 0.0
        for k in range(geo.nd):
            s = s + LIN_W[k] * ((p[k] - geo.pmin[k]) / geo.cell[k])
        if cplx:
            return tuple(complex(s + 0.25 * c, -(c + 1) * s) for c in range(nv))
        return tuple(s + 0.25 * c for c in range(nv))

    return fn


def linear_expected(geo, idx, nv, cplx=False, subgeo=None):
    """exact value at the exact centre, and the tolerance"""
    s = sum(LIN_W[k] * (idx[k] + 0.5) for k in range(geo.nd))
    tol = sum(LIN_W[k] * 16 * C.ulp(geo.M[k]) / geo.cell[k] for k in range(geo.nd)) + 1e-12 * abs(s) + 1e-300
    if cplx:
        return [complex(s + 0.25 * c, -(c + 1) * s) for c in range(nv)], tol * (nv + 1)
    return [s + 0.25 * c for c in range(nv)], tol


VDIMS = {
    1: [None, ("s",)],
    2: [None, ("a", "b"), ("y", "x")],
    3: [None, ("a", "b", "c"), ("z", "x", "y")],
    4: [None, ("a", "b", "c", "d"), ("v3", "v2", "v1", "v0")],
}


# ==========================================================================
# unit values


def _spec_kinds(nvdim, dt):
    k = ["zero", "tuple", "list", "ndarray", "full", "full-list", "fn-tuple", "fn-list", "fn-ndarray"]
    if nvdim == 1:
        k += ["scalar", "nshape", "nshape-list", "fn-scalar"]
        if dt in ("None", "float", "int", "complex"):
            k += ["np-scalar"]
    if dt in ("None", "float", "complex"):
        k += ["fn-linear"]
    return k


def unit_values(ctx):
    n = ctx.choose("n", shapes(ctx.tier))
    geom = ctx.choose("geom", geoms(ctx.tier))
    nvdim = ctx.choose("nvdim", [1, 3] if ctx.tier == "quick" else [1, 2, 3, 4])
    dt = ctx.choose("dtype", ["None", "int", "complex", "bool"] if ctx.tier == "quick" else DTYPES_T)
    kind = ctx.choose("kind", _spec_kinds(nvdim, dt))
    routes = ["ctor", "update"] + ([] if kind.startswith("fn-") else ["setter"])
    route = ctx.choose("route", routes)
    mesh = mk_mesh(n, geom)
    geo = Geo(mesh)
    vdt = "float" if dt == "None" else dt  # kind of values used in the specification
    data = tdata(n, nvdim, vdt, ctx.seed, salt=1)
    const = data[tuple(0 for _ in n)]  # one vector of the right kind
    tol = None
    if kind == "zero":
        spec, exp = 0, np.zeros((*n, nvdim))
    elif kind == "scalar":
        spec, exp = pyval(const[0]), np.broadcast_to(const, (*n, nvdim))
    elif kind == "np-scalar":
        spec, exp = const[0], np.broadcast_to(const, (*n, nvdim))
    elif kind == "tuple":
        spec, exp = pytuple(const), np.broadcast_to(const, (*n, nvdim))
    elif kind == "list":
        spec, exp = list(pytuple(const)), np.broadcast_to(const, (*n, nvdim))
    elif kind == "ndarray":
        spec, exp = np.array(const), np.broadcast_to(const, (*n, nvdim))
    elif kind == "full":
        spec, exp = data.copy(), data
    elif kind == "full-list":
        spec, exp = data.tolist(), data
    elif kind == "nshape":
        spec, exp = data[..., 0].copy(), data
    elif kind == "nshape-list":
        spec, exp = data[..., 0].tolist(), data
    elif kind == "fn-linear":
        cplx = dt == "complex"
        spec = linear_fn(geo, nvdim, cplx)
        exp = np.zeros((*n, nvdim), dtype=complex if cplx else float)
        for idx in geo.cells():
            exp[idx], tol = linear_expected(geo, idx, nvdim, cplx)
    else:
        spec, exp = lookup_fn(geo, data, kind[3:]), data
    spec_before = spec.copy() if isinstance(spec, np.ndarray) else None
    if route == "ctor":
        ctx.step(1, f"Field(mesh{n}, nvdim={nvdim}, value=<{kind}>, dtype={dt})")
        f = df.Field(mesh, nvdim=nvdim, value=spec, dtype=DT[dt])
    else:
        old = tdata(n, nvdim, vdt, ctx.seed, salt=2)
        f = df.Field(mesh, nvdim=nvdim, value=old, dtype=DT[dt])
        if route == "update":
            ctx.step(1, f"update_field_values(<{kind}>)")
            f.update_field_values(spec)
        else:
            ctx.step(1, f"field.array = <{kind}>")
            f.array = spec
    got = f.array
    ctx.observe(np.asarray(got))
    inst = ctx.key(drop=("geom",)) if kind != "fn-linear" else ctx.key()
    ctx.check()
    if not isinstance(got, np.ndarray) or got.shape != (*n, nvdim):
        ctx.fail(f"{SITE[route]}/stored-shape", f"array shape {getattr(got, 'shape', None)} expected {(*n, nvdim)}",
                 instance=inst)
        return
    ctx.check()
    if tol is None:
        if not same_values(got, exp):
            ctx.fail(f"{SITE[route]}/stored-value-differs/{kind.split('-')[0]}", first_diff(got, exp), instance=inst)
    else:
        err = np.abs(np.asarray(got, dtype=complex) - exp)
        if not np.all(err <= tol):
            w = tuple(int(i) for i in np.argwhere(~(err <= tol))[0])
            ctx.fail(f"{SITE[route]}/function-not-evaluated-at-centre",
                     f"cell {w[:-1]} comp {w[-1]}: stored {got[w].item()!r}, f(centre) = {exp[w].item()!r} (tol {tol:.3g})",
                     instance=inst)
    if spec_before is not None:
        ctx.check()
        if not C.same_bytes(spec, spec_before):
            ctx.fail(f"{SITE[route]}/specification-array-modified", "the array passed as value was changed", instance=inst)


# ==========================================================================
# unit dict

DICT_SHAPES_T = [(4,), (6,), (4, 3), (4, 2, 2), (4, 2, 1, 2)]
DICT_SHAPES_Q = [(4,), (4, 3), (4, 2, 2)]

# names are chosen so that alphabetical order differs from listing order
NAMES = ["r2", "r1", "a0"]


def _layouts(n):
    """ordered lists of (name, lo, hi) index boxes"""
    nd = len(n)
    n0 = n[0]

    def box(a, b, narrow=False):
        lo = [a] + [0] * (nd - 1)
        hi = [b] + list(n[1:])
        if narrow and nd > 1 and n[1] > 1:
            hi[1] = n[1] - 1  # does not span the second axis completely
        return tuple(lo), tuple(hi)

    whole = box(0, n0)
    L = {
        "none": [],
        "interior": [box(1, n0 - 1, True)],
        "disjoint": [box(0, 1), box(2, n0, True)],
        "touching": [box(0, 2), box(2, n0, True)],
        "overlap": [box(0, 3), box(1, n0, True)],
        "overlap-rev": [box(1, n0, True), box(0, 3)],
        "cover": [whole],
        "nested-outer-first": [whole, box(1, n0 - 1, True)],
        "nested-inner-first": [box(1, n0 - 1, True), whole],
        "three": [box(0, 2), box(1, 3, True), whole],
    }
    return {k: [(NAMES[i], lo, hi) for i, (lo, hi) in enumerate(v)] for k, v in L.items()}


LAYOUT_NAMES = ["none", "interior", "disjoint", "touching", "overlap", "overlap-rev", "cover", "nested-outer-first",
                "nested-inner-first", "three"]


def _key_subsets(k):
    if k == 0:
        return ["all"]
    if k == 1:
        return ["all", "none"]
    return ["all", "drop-first", "drop-second", "none"]


def _build_dict(ctx, mesh, geo, layout, nvdim, dt, subkind, defkind, keys, order, nanpos=None):
    """returns (spec dict, per cell: list of acceptable expected vectors or None (=not judged), tol per cell)"""
    vdt = "float" if dt == "None" else dt
    n = geo.n
    names = [b[0] for b in layout]
    keyed = list(names)
    if keys == "drop-first":
        keyed = names[1:]
    elif keys == "drop-second":
        keyed = names[:1] + names[2:]
    elif keys == "none":
        keyed = []
    consts = tdata((len(NAMES) + 1,), nvdim, vdt, ctx.seed, salt=3)  # one constant vector per subregion + default
    table = tdata(n, nvdim, vdt, ctx.seed, salt=4)  # per cell values for callables/arrays
    spec = {}
    sub_expected = {}  # name -> function idx -> (vector, tol)
    for j, (name, lo, hi) in enumerate(layout):
        if name not in keyed:
            continue
        if nanpos == name:
            spec[name] = float("nan") if nvdim == 1 else tuple([float("nan")] * nvdim)
            sub_expected[name] = lambda idx: (np.full(nvdim, np.nan), None)
        elif subkind == "const":
            v = consts[j]
            spec[name] = pyval(v[0]) if nvdim == 1 else pytuple(v)
            sub_expected[name] = lambda idx, v=v: (v, None)
        elif subkind == "callable":
            spec[name] = lookup_fn(geo, table, "tuple")
            sub_expected[name] = lambda idx: (table[idx], None)
        elif subkind == "linear":
            cplx = dt == "complex"
            spec[name] = linear_fn(geo, nvdim, cplx)
            sub_expected[name] = lambda idx, cplx=cplx: linear_expected(geo, idx, nvdim, cplx)
        else:  # array over the cells of the subregion
            sl = tuple(slice(a, b) for a, b in zip(lo, hi))
            spec[name] = table[sl].copy()
            sub_expected[name] = lambda idx: (table[idx], None)
    if order == "reversed":
        spec = dict(reversed(list(spec.items())))
    if defkind == "const":
        v = consts[len(NAMES)]
        spec["default"] = pyval(v[0]) if nvdim == 1 else pytuple(v)
        dexp = lambda idx, v=v: (v, None)  # noqa: E731
    elif defkind == "callable":
        table2 = tdata(n, nvdim, vdt, ctx.seed, salt=5)
        spec["default"] = lookup_fn(geo, table2, "tuple")
        dexp = lambda idx: (table2[idx], None)  # noqa: E731
    elif defkind == "linear":
        cplx = dt == "complex"
        spec["default"] = linear_fn(geo, nvdim, cplx)
        dexp = lambda idx, cplx=cplx: linear_expected(geo, idx, nvdim, cplx)  # noqa: E731
    elif defkind == "nan":
        spec["default"] = float("nan") if nvdim == 1 else tuple([float("nan")] * nvdim)
        dexp = lambda idx: (np.full(nvdim, np.nan), None)  # noqa: E731
    else:
        dexp = None
    if defkind != "missing" and order == "reversed":
        # 'default' first in the dict as well
        spec = {"default": spec.pop("default"), **spec}
    # membership by exact containment of the exact centre in the stored subregion boxes
    subs = mesh.subregions
    boxes = {}
    for name in names:
        r = subs[name]
        boxes[name] = ([Fr(float(x)) for x in r.pmin], [Fr(float(x)) for x in r.pmax])
    dict_order = [k for k in spec if k != "default"]
    expected = {}
    incomplete = False
    for idx in geo.cells():
        c = geo.centre_exact(idx)
        inside = [nm for nm in names
                  if all(boxes[nm][0][k] <= c[k] <= boxes[nm][1][k] for k in range(geo.nd))]
        keyed_inside = [nm for nm in inside if nm in keyed]
        acc = []
        if keyed_inside:
            acc.append(sub_expected[keyed_inside[0]](idx))  # mesh order
            # NOT accepted: the order in which the value dict happens to list its keys.  Two dicts that compare equal
            # are the same specification and must give the same field; "first-listed subregion" refers to the
            # subregions as the mesh lists them.
            if inside[0] not in keyed:
                # an earlier-listed subregion without a value contains the cell: default is acceptable too
                if dexp is not None:
                    acc.append(dexp(idx))
                else:
                    acc = None
        else:
            if dexp is None:
                incomplete = True
                acc = None
            else:
                acc.append(dexp(idx))
        expected[idx] = acc
    return spec, expected, incomplete


def _judge_cells(ctx, sigbase, got, expected, inst):
    """compare every cell with its acceptable values; one failure per execution"""
    for idx, acc in expected.items():
        if acc is None:
            continue
        ctx.check()
        g = np.asarray(got[idx])
        ok = False
        for v, tol in acc:
            v = np.asarray(v)
            if tol is None:
                if C.eq_nan(g.astype(complex), v.astype(complex)):
                    ok = True
            elif np.all(np.abs(g.astype(complex) - v) <= tol):
                ok = True
        if not ok:
            ctx.fail(sigbase, f"cell {idx}: stored {g.tolist()!r}, specification gives "
                     f"{' or '.join(repr(np.asarray(v).tolist()) for v, _ in acc)}", instance=inst)
            return False
    return True


def unit_dict(ctx):
    quick = ctx.tier == "quick"
    n = ctx.choose("n", DICT_SHAPES_Q if quick else DICT_SHAPES_T)
    # quick: the lattice with non-representable faces ("off": faces at -0.3 + 0.1 k ...) with one component and one dtype
    geom = ctx.choose("geom", ["unit", "off"] if quick else ["unit", "off", "nano"])
    slim = quick and geom == "off"
    lay = ctx.choose("layout", LAYOUT_NAMES)
    nvdim = ctx.choose("nvdim", [1] if slim else [1, 3] if quick else [1, 2, 3])
    dt = ctx.choose("dtype", ["None"] if slim else ["None", "int", "bool"] if quick else DTYPES_T)
    subkinds = ["const", "callable", "array"] + (["linear"] if dt in ("None", "float", "complex") and not quick else [])
    layout = _layouts(n)[lay]
    subkind = ctx.choose("subvalue", subkinds if layout else ["const"])
    defkinds = ["const", "callable", "missing"] + (["linear"] if dt in ("None", "float", "complex") and not quick else [])
    defkind = ctx.choose("default", defkinds)
    keys = ctx.choose("keys", _key_subsets(len(layout)))
    order = ctx.choose("order", ["mesh", "reversed"] if len(layout) >= 2 and keys == "all" else ["mesh"])
    # the update route only adds the stale previous content: enumerated on the unit geometry
    route = ctx.choose("route", ["ctor", "update"] if geom == "unit" else ["ctor"])
    try:
        mesh = mk_mesh(n, geom, boxes=layout)
    except ValueError:
        # the library refuses the (aligned) subregion: C14's business
        ctx.note("subregion-refused-by-mesh")
        raise engine.Skip()
    geo = Geo(mesh)
    spec, expected, incomplete = _build_dict(ctx, mesh, geo, layout, nvdim, dt, subkind, defkind, keys, order)
    inst = ctx.key(drop=("geom",)) if "linear" not in (subkind, defkind) else ctx.key()
    vdt = "float" if dt == "None" else dt
    if route == "ctor":
        ctx.step(1, f"Field(mesh{n}+{lay}, nvdim={nvdim}, value={{{', '.join(spec)}}}, dtype={dt})")
        call = lambda: df.Field(mesh, nvdim=nvdim, value=spec, dtype=DT[dt])  # noqa: E731
    else:
        f0 = df.Field(mesh, nvdim=nvdim, value=tdata(n, nvdim, vdt, ctx.seed, salt=2), dtype=DT[dt])
        ctx.step(1, f"update_field_values({{{', '.join(spec)}}})")

        def call():
            f0.update_field_values(spec)
            return f0
    if incomplete:
        # cells without any value: the statement does not say what happens
        raised, r = C.raises(call)
        ctx.note("incomplete-dict:" + ("raised" if raised else "accepted"))
        ctx.observe(raised)
        return
    f = call()
    got = f.array
    ctx.observe(np.asarray(got))
    ctx.check()
    if got.shape != (*n, nvdim):
        ctx.fail("Field.dict/stored-shape", f"array shape {got.shape} expected {(*n, nvdim)}", instance=inst)
        return
    # input class of the signature: kind of default x dtype family x mesh dimensionality
    sig = "Field.dict/stored-value-differs"
    if defkind in ("callable", "linear"):
        sig += "/callable-default/" + ("int-or-bool-dtype" if dt in ("int", "bool") else "float-or-complex-dtype")
        sig += "/1-D" if len(n) == 1 else "/n-D"
    _judge_cells(ctx, sig, got, expected, inst)


# ==========================================================================
# unit nan: NaN is a value like any other


def unit_nan(ctx):
    quick = ctx.tier == "quick"
    n = ctx.choose("n", [(4,), (4, 3)] if quick else [(4,), (4, 3), (4, 2, 2)])
    nvdim = ctx.choose("nvdim", [1, 3])
    dt = ctx.choose("dtype", ["None", "float", "complex"])
    kind = ctx.choose("kind", ["const", "array", "fn", "dict-sub", "dict-default", "dict-sub-callable-default"])
    mesh_plain = mk_mesh(n, "unit")
    if kind in ("const", "array", "fn"):
        geo = Geo(mesh_plain)
        data = tdata(n, nvdim, "float", ctx.seed, salt=1)
        data[tuple(0 for _ in n)][0] = np.nan
        data[tuple(k - 1 for k in n)][-1] = np.nan
        if kind == "const":
            exp = np.full((*n, nvdim), np.nan)
            spec = float("nan") if nvdim == 1 else tuple([float("nan")] * nvdim)
        elif kind == "array":
            exp, spec = data, data.copy()
        else:
            exp, spec = data, lookup_fn(geo, data, "tuple")
        ctx.step(1, f"Field(value=<{kind} with NaN>)")
        f = df.Field(mesh_plain, nvdim=nvdim, value=spec, dtype=DT[dt])
        ctx.observe(f.array)
        ctx.check()
        if not (f.array.shape == exp.shape and C.eq_nan(f.array.astype(complex), exp.astype(complex))):
            ctx.fail("Field.ctor/stored-value-differs/nan", "NaN of the specification not stored as given")
        return
    layout = _layouts(n)["overlap"]
    mesh = mk_mesh(n, "unit", boxes=layout)
    geo = Geo(mesh)
    if kind == "dict-sub":
        spec, expected, _ = _build_dict(ctx, mesh, geo, layout, nvdim, dt, "const", "const", "all", "mesh", nanpos="r1")
    elif kind == "dict-sub-callable-default":
        spec, expected, _ = _build_dict(ctx, mesh, geo, layout, nvdim, dt, "const", "callable", "all", "mesh", nanpos="r1")
    else:
        spec, expected, _ = _build_dict(ctx, mesh, geo, layout, nvdim, dt, "const", "nan", "all", "mesh")
    ctx.step(1, f"Field(value=<{kind}: NaN>)")
    cls = f"{kind}/" + ("1-D" if len(n) == 1 else "n-D")
    ctx.check()
    raised, f = C.raises(lambda: df.Field(mesh, nvdim=nvdim, value=spec, dtype=DT[dt]))
    ctx.observe(raised)
    if raised:
        ctx.fail(f"Field.dict/nan-value-refused/{kind}",
                 f"a dict specification whose only peculiarity is a NaN value raised {type(f).__name__}: {f}")
        return
    ctx.observe(f.array)
    _judge_cells(ctx, f"Field.dict/stored-value-differs/nan-value/{cls}", f.array, expected, ctx.key())


# ==========================================================================
# unit source: another field as specification

# "samecount": as many cells and the same lower corner as the target, but cells twice / three halves as large (the target
# covers the lower part of the source; equal n and pmin do not make two meshes the same discretisation)
RELS = ["same", "finer2", "finer3", "coarser", "larger", "shifted", "samecount2", "samecount1.5", "notcover"]


def unit_source(ctx):
    quick = ctx.tier == "quick"
    n = ctx.choose("n", shapes(ctx.tier, (1, 2, 3)) if quick else shapes(ctx.tier))
    geom = ctx.choose("geom", geoms(ctx.tier))
    rel = ctx.choose("relation", [r for r in RELS if r != "coarser" or any(i % 2 == 0 for i in n)])
    nvdim = ctx.choose("nvdim", [1, 3] if quick else [1, 2, 3])
    dt = ctx.choose("dtype", ["None", "int"] if quick else DTYPES_T)
    dims = ctx.choose("dims", ["default", "renamed"])
    route = ctx.choose("route", ["ctor", "update"])
    nd = len(n)
    dn = None if dims == "default" else C.DIMSETS[nd][1]
    mesh = mk_mesh(n, geom, dims=dn)
    geo = Geo(mesh)
    pmin, pmax, cell = geo.pmin, geo.pmax, geo.cell
    if rel == "same":
        sp1, sp2, sn = pmin, pmax, n
    elif rel in ("finer2", "finer3"):
        k = int(rel[-1])
        sp1, sp2, sn = pmin, pmax, tuple(i * k for i in n)
    elif rel == "coarser":
        sp1, sp2, sn = pmin, pmax, tuple(i // 2 if i % 2 == 0 else i for i in n)
    elif rel == "larger":
        sp1, sp2, sn = pmin - cell, pmax + cell, tuple(i + 2 for i in n)
    elif rel == "shifted":
        sp1, sp2, sn = pmin - 0.25 * cell, pmax + 0.75 * cell, tuple(i + 1 for i in n)
    elif rel.startswith("samecount"):
        sp1, sp2, sn = pmin, pmin + float(rel[9:]) * (pmax - pmin), n
    else:  # the source lies one cell further along the first axis: the first layer of target centres is not covered
        sh = np.zeros(nd)
        sh[0] = cell[0]
        sp1, sp2, sn = pmin + sh, pmax + sh, n
    smesh = df.Mesh(region=df.Region(p1=list(sp1), p2=list(sp2), dims=dn), n=sn)
    sgeo = Geo(smesh)
    vdt = "float" if dt == "None" else dt
    sdata = tdata(sn, nvdim, vdt, ctx.seed, salt=6)
    src = df.Field(smesh, nvdim=nvdim, value=sdata, dtype=DT[dt])
    sbefore = C.field_snap(src)
    if route == "ctor":
        call = lambda: df.Field(mesh, nvdim=nvdim, value=src, dtype=DT[dt])  # noqa: E731
        f0 = None
    else:
        f0 = df.Field(mesh, nvdim=nvdim, value=tdata(n, nvdim, vdt, ctx.seed, salt=2), dtype=DT[dt])
        before = C.field_snap(f0)

        def call():
            f0.update_field_values(src)
            return f0
    ctx.step(1, f"Field(mesh{n}, value=<Field on {rel} mesh {sn}>)")
    inst = ctx.key(drop=("geom",))
    if rel == "notcover":
        ctx.check()
        raised, r = C.raises(call)
        ctx.observe(raised)
        if not raised:
            ctx.fail("Field.source/not-covering-accepted",
                     "source field whose region misses a whole layer of target cell centres was accepted", instance=inst)
        elif f0 is not None:
            ctx.check()
            if C.field_snap(f0) != before:
                ctx.fail("Field.source/refused-but-modified", "refused source changed the existing field", instance=inst)
        return
    f = call()
    got = f.array
    ctx.observe(np.asarray(got).shape)
    ctx.check()
    if got.shape != (*n, nvdim):
        ctx.fail("Field.source/stored-shape", f"array shape {got.shape} expected {(*n, nvdim)}", instance=inst)
        return
    for idx in geo.cells():
        c = geo.centre_float(idx)
        cand = sgeo.candidates(c)
        ctx.check()
        if not cand:
            raise RuntimeError("harness: target centre outside source")
        g = np.asarray(got[idx])
        hit = [s for s in cand if np.array_equal(g, sdata[s])]
        ctx.observe(hit[:1])  # which source cell was taken (independent of the tracer permutation)
        if not hit:
            ctx.fail("Field.source/stored-value-differs",
                     f"cell {idx} (centre {c}): stored {g.tolist()}, source cells containing the centre "
                     f"{cand} hold {[sdata[s].tolist() for s in cand]}", instance=inst)
            break
    ctx.check()
    if C.field_snap(src) != sbefore:
        ctx.fail("Field.source/source-modified", "the source field was changed", instance=inst)


# ==========================================================================
# unit reuse - values assigned after the mesh object has been used and then transformed in place


def unit_reuse(ctx):
    """Non-initial states: a mesh that has already been described / used for a first field is translated, scaled or
    turned IN PLACE, then a field is filled (constructor or update_field_values on the field that already lives on that
    mesh object) from a source field on a larger, finer mesh and from a function of position.  The stored values must be
    the specification at the cell centres the mesh has NOW."""
    n = ctx.choose("n", [(4,), (3, 2), (2, 3, 2)])
    nd = len(n)
    spec = ctx.choose("specification", ["source-field", "function"])
    first = ctx.choose("first-use", ["field-from-same-specification", "cells+coordinate_field", "nothing"])
    steps = [("translate", 1.0), ("translate", -2.5), ("scale", 0.5), ("scale", 2.0)]
    if nd >= 2:
        steps += [("rotate90", 1), ("rotate90", 2)]
    step = ctx.choose("then-in-place", steps)
    route = ctx.choose("route", ["ctor", "update"])
    cell = [1.0, 0.5, 0.25][:nd]
    pmin = [0.25, -1.0, 2.0][:nd]
    pmax = [a + c * k for a, c, k in zip(pmin, cell, n)]
    mesh = df.Mesh(region=df.Region(p1=pmin, p2=pmax), n=n)
    # source: covers [-16, 16]^nd with cells of 1/8: every target centre of every step lies strictly inside one source cell
    sn = tuple([256] * nd) if nd == 1 else tuple([64] * nd) if nd == 2 else tuple([32] * nd)
    h = 32.0 / sn[0]
    smesh = df.Mesh(region=df.Region(p1=[-16.0] * nd, p2=[16.0] * nd), n=sn)
    w = np.array([3.0, -5.0, 7.0][:nd])

    def fn(p):  # affine in the position: exact at dyadic points, sensitive to any shift of the evaluation point
        p = np.atleast_1d(np.asarray(p, dtype=float))
        v = float(np.dot(w, p))
        return v

    if spec == "source-field":
        sidx = np.stack(np.meshgrid(*[np.arange(k) for k in sn], indexing="ij"), axis=-1)
        code = np.zeros(sn)
        for a in range(nd):
            code = code * sn[a] + sidx[..., a]
        sdata = code[..., None]      # the flat index of the source cell: decodable
        value = df.Field(smesh, nvdim=1, value=sdata)
    else:
        value = fn
    inst = ctx.key()
    f0 = None
    if first == "field-from-same-specification" or route == "update":
        ctx.step(1, "first field on the mesh")
        f0 = df.Field(mesh, nvdim=1, value=value if first == "field-from-same-specification" else 0.0)
    if first == "cells+coordinate_field":
        mesh.cells, mesh.vertices, mesh.coordinate_field()
    ctx.step(1, f"in place: {step}")
    dims = mesh.region.dims
    if step[0] == "translate":
        mesh.translate([step[1] * c for c in [1.0, -0.5, 0.75][:nd]], inplace=True)
    elif step[0] == "scale":
        mesh.scale(step[1], reference_point=[0.0] * nd, inplace=True)
    else:
        if f0 is not None:
            f0.rotate90(dims[0], dims[1], k=step[1], reference_point=[0.0] * nd, inplace=True)
            mesh = f0.mesh
        else:
            mesh.rotate90(dims[0], dims[1], k=step[1], reference_point=[0.0] * nd, inplace=True)
    ctx.step(1, f"{route}: values from {spec}")
    if route == "ctor":
        f = df.Field(mesh, nvdim=1, value=value)
    else:
        f0.update_field_values(value)
        f = f0
    geo = Geo(f.mesh)
    ctx.observe(np.round(f.array, 9))
    for idx in geo.cells():
        c = np.array([float(x) for x in geo.centre_exact(idx)])
        ctx.check()
        if spec == "function":
            exp = np.array([fn(c)])
            ok = bool(np.all(np.abs(f.array[idx] - exp) <= 1e-9 * (1.0 + np.abs(exp))))
        else:
            j = np.floor((c + 16.0) / h).astype(int)
            flat = 0
            for a in range(nd):
                flat = flat * sn[a] + int(j[a])
            exp = np.array([float(flat)])
            ok = bool(np.array_equal(f.array[idx], exp))
        if not ok:
            ctx.fail(f"Field.reuse/{spec}/value-not-at-the-current-cell-centre",
                     f"after {first} and in-place {step}: cell {idx} (centre {c.tolist()}) stores {f.array[idx].tolist()}, "
                     f"the specification there is {exp.tolist()}", instance=inst)
            return


# ==========================================================================
# unit sample

OFFSETS = {
    # fractional position inside the cell per axis (cycled over the axes)
    "centre": [0.5, 0.5, 0.5, 0.5],
    "off1": [0.25, 0.75, 0.4, 0.6],
    "off2": [0.75, 0.25, 0.6, 0.4],
    "off3": [0.1, 0.9, 0.9, 0.1],
    "off4": [0.9, 0.1, 0.3, 0.95],
    "lowface": [0.0, 0.5, 0.5, 0.5],  # on the lower face of the first axis
    "upface": [0.5, 1.0, 0.5, 1.0],  # on upper faces of the 2nd/4th axis (1-D: first)
    "lowcorner": [0.0, 0.0, 0.0, 0.0],
    "upcorner": [1.0, 1.0, 1.0, 1.0],
}


def _point(geo, idx, fr):
    p = []
    for k, i in enumerate(idx):
        u = fr[k]
        if u == 0.0:
            x = float(geo.lat.face(k, i)) if i > 0 else geo.pmin[k]
        elif u == 1.0:
            x = float(geo.lat.face(k, i + 1)) if i + 1 < geo.n[k] else geo.pmax[k]
        else:
            x = float(geo.lat.face(k, i) + Fr(u) * geo.lat.cell[k])
        p.append(float(x))
    return p


def unit_sample(ctx):
    n = ctx.choose("n", shapes(ctx.tier))
    geom = ctx.choose("geom", geoms(ctx.tier))
    nvdim = ctx.choose("nvdim", [1, 3] if ctx.tier == "quick" else [1, 2, 3, 4])
    dt = ctx.choose("dtype", ["None", "complex"] if ctx.tier == "quick" else DTYPES_T)
    off = ctx.choose("offset", list(OFFSETS))
    ptype = ctx.choose("ptype", ["tuple", "ndarray", "list"] + (["scalar"] if len(n) == 1 else []))
    # boundary conditions do not change which cell contains a point (the upper face of a periodic axis is still in the last cell)
    bc = ctx.choose("bc", ["", "periodic-all-axes", "dirichlet"]) if ptype == "tuple" else ""
    mesh = mk_mesh(n, geom)
    if bc.startswith("periodic") and any(len(d) != 1 for d in mesh.region.dims):
        raise engine.Skip()  # periodic directions are given as a string of one-letter axis names
    if bc:
        mesh = df.Mesh(region=mesh.region, n=mesh.n, bc="".join(mesh.region.dims) if bc.startswith("periodic") else bc)
    geo = Geo(mesh)
    vdt = "float" if dt == "None" else dt
    data = tdata(n, nvdim, vdt, ctx.seed, salt=1)
    f = df.Field(mesh, nvdim=nvdim, value=data, dtype=DT[dt])
    before = C.field_snap(f)
    fr = OFFSETS[off]
    if len(n) == 1 and off == "upface":
        fr = [1.0]
    inst = ctx.key(drop=("geom",))
    failed = False
    for idx in geo.cells():
        p = _point(geo, idx, fr)
        cand = geo.candidates(p)
        arg = {"tuple": tuple(p), "ndarray": np.array(p), "list": list(p), "scalar": p[0]}[ptype]
        ctx.step(1)
        v = f(arg)
        ctx.observe(np.asarray(v))
        ctx.check()
        if idx not in cand:
            raise RuntimeError("harness: constructed point not in its cell")
        g = np.asarray(v).reshape(-1)
        if not any(g.shape == (nvdim,) and np.array_equal(g, f.array[c]) for c in cand) and not failed:
            failed = True
            ctx.fail("Field.__call__/value-is-not-the-containing-cell",
                     f"point {p} lies in cell {cand}: returned {g.tolist()}, stored "
                     f"{[np.asarray(f.array[c]).tolist() for c in cand]}", instance=inst)
    ctx.check()
    if C.field_snap(f) != before:
        ctx.fail("Field.__call__/field-modified", "sampling changed the field", instance=inst)


# ==========================================================================
# unit access: labels and iteration


def unit_access(ctx):
    n = ctx.choose("n", shapes(ctx.tier))
    geom = ctx.choose("geom", ["unit", "off"])
    nvdim = ctx.choose("nvdim", [1, 2, 3, 4])
    vd = ctx.choose("vdims", VDIMS[nvdim])
    dt = ctx.choose("dtype", ["None", "int", "complex"] if ctx.tier == "quick" else DTYPES_T)
    mesh = mk_mesh(n, geom)
    geo = Geo(mesh)
    vdt = "float" if dt == "None" else dt
    data = tdata(n, nvdim, vdt, ctx.seed, salt=1)
    f = df.Field(mesh, nvdim=nvdim, value=data, dtype=DT[dt], vdims=None if vd is None else list(vd))
    before = C.field_snap(f)
    inst = ctx.key(drop=("geom",))
    labels = f.vdims
    ctx.check()
    if vd is not None and (labels is None or tuple(labels) != tuple(vd)):
        ctx.fail("Field.vdims/labels-not-kept", f"vdims {labels} requested {vd}", instance=inst)
        return
    if labels is not None:
        ctx.check()
        if len(labels) != nvdim:
            ctx.fail("Field.vdims/label-count", f"{labels} for nvdim={nvdim}", instance=inst)
            return
        for c, lab in enumerate(labels):
            ctx.step(1, f"field.{lab}")
            comp = getattr(f, lab)
            arr = np.asarray(comp.array if isinstance(comp, df.Field) else comp)
            ctx.observe(arr)
            ctx.check()
            if arr.size != int(np.prod(n)) or not np.array_equal(arr.reshape(n), f.array[..., c]):
                ctx.fail("Field.__getattr__/component-is-not-the-matching-column",
                         f"field.{lab} (label {c} of {list(labels)}) does not equal array[..., {c}]", instance=inst)
                break
    # iteration: mesh order = the order in which the mesh itself enumerates its cells
    ctx.step(1, "list(field)")
    vals = list(f)
    order = [tuple(int(i) for i in idx) for idx in mesh.indices]
    pts = [np.asarray(p, dtype=float).reshape(-1) for p in mesh]
    ctx.observe(np.asarray(vals))
    ctx.check()
    if len(vals) != len(order) or len(order) != int(np.prod(n)) or len(set(order)) != len(order):
        ctx.fail("Field.__iter__/length", f"{len(vals)} values for {int(np.prod(n))} cells", instance=inst)
    else:
        for i, (v, idx, p) in enumerate(zip(vals, order, pts)):
            ctx.check()
            g = np.asarray(v).reshape(-1)
            cand = geo.candidates(p)
            if not np.array_equal(g, f.array[idx]) or cand is None or idx not in cand:
                ctx.fail("Field.__iter__/not-mesh-order",
                         f"item {i}: {g.tolist()} but mesh cell {i} is {idx} (point {p.tolist()}) holding "
                         f"{np.asarray(f.array[idx]).tolist()}", instance=inst)
                break
    ctx.check()
    if C.field_snap(f) != before:
        ctx.fail("Field.access/field-modified", "component access / iteration changed the field", instance=inst)


# ==========================================================================
# unit line

# fractional coordinates in the region (cycled over axes)
LINE_PTS = {
    "pmin": [0, 0, 0, 0],
    "pmax": [1, 1, 1, 1],
    "mid": [0.5, 0.5, 0.5, 0.5],
    "mixed": [1, 0, 1, 0],
    "faceA": [0, 0.5, 0.5, 0.5],
    "faceB": [0.5, 1, 0.5, 1],
    "in1": [0.3, 0.7, 0.2, 0.9],
    "in2": [0.81, 0.13, 0.55, 0.37],
    "cell0": None,  # centre of the first cell
}

LINE_SHAPES_T = [(1,), (2,), (5,), (1, 1), (2, 3), (4, 4), (1, 2, 3), (2, 2, 2), (2, 1, 3, 2)]
LINE_SHAPES_Q = [(5,), (2, 3), (1, 2, 3)]


def _line_point(geo, name):
    if name == "cell0":
        return geo.centre_float(tuple(0 for _ in geo.n))
    fr = LINE_PTS[name]
    p = []
    for k in range(geo.nd):
        u = fr[k]
        if u == 0:
            p.append(float(geo.pmin[k]))
        elif u == 1:
            p.append(float(geo.pmax[k]))
        else:
            p.append(float(geo.lat.pmin[k] + Fr(u) * (geo.lat.pmax[k] - geo.lat.pmin[k])))
    return p


def _check_line(ctx, f, geo, p1, p2, npts, arg1, arg2, nvdim, label, inst):
    """field.line(p1, p2, n): number of points, equidistant positions, values of a cell containing the returned point,
    distance from p1, field untouched"""
    nd = geo.nd
    before = C.field_snap(f)
    ctx.step(1, label)
    line = f.line(p1=arg1, p2=arg2, n=npts)
    dat = line.data
    ctx.check()
    try:
        pts = np.asarray(dat[list(line.point_columns)], dtype=float).reshape(len(dat), -1)
        vals = np.asarray(dat[list(line.value_columns)]).reshape(len(dat), -1)
        r = np.asarray(dat["r"], dtype=float)
    except Exception as e:  # layout of the result: tolerant, but the three observables must exist
        ctx.fail("Field.line/result-layout", f"cannot read points/values/r from the Line: {type(e).__name__}: {e}",
                 instance=inst)
        return
    ctx.observe(pts, vals, r)
    if len(dat) != npts or pts.shape != (npts, nd) or vals.shape != (npts, nvdim):
        ctx.fail("Field.line/number-of-points",
                 f"{len(dat)} rows, points {pts.shape}, values {vals.shape}; requested n={npts}, ndim={nd}, nvdim={nvdim}",
                 instance=inst)
        return
    e1 = [Fr(x) for x in p1]
    e2 = [Fr(x) for x in p2]
    Mk = [max(geo.M[k], abs(p1[k]), abs(p2[k])) for k in range(nd)]
    for i in range(npts):
        exact = [e1[k] + Fr(i, npts - 1) * (e2[k] - e1[k]) for k in range(nd)]
        ctx.check()
        if any(abs(Fr(float(pts[i, k])) - exact[k]) > 16 * C.ulp(Mk[k]) for k in range(nd)):
            ctx.fail("Field.line/points-not-equidistant-p1-to-p2",
                     f"point {i} of {npts}: {pts[i].tolist()} expected {[float(x) for x in exact]}", instance=inst)
            return
        cand = geo.candidates(pts[i])
        ctx.check()
        if cand is None or not any(np.array_equal(vals[i], f.array[c]) for c in cand):
            ctx.fail("Field.line/value-is-not-the-field-at-the-point",
                     f"point {i} {pts[i].tolist()} in cell {cand}: value {vals[i].tolist()}", instance=inst)
            return
        d2 = sum((Fr(float(pts[i, k])) - e1[k]) ** 2 for k in range(nd))
        dist = math.sqrt(float(d2))
        ctx.check()
        if C.gt(abs(r[i] - dist), 16 * math.sqrt(nd) * max(C.ulp(m) for m in Mk) + 8 * C.ulp(dist)):
            ctx.fail("Field.line/r-is-not-distance-from-p1", f"point {i}: r={r[i]!r}, |p-p1|={dist!r}", instance=inst)
            return
    ctx.check()
    if C.field_snap(f) != before:
        ctx.fail("Field.line/field-modified", "line sampling changed the field", instance=inst)



def unit_line(ctx):
    quick = ctx.tier == "quick"
    n = ctx.choose("n", LINE_SHAPES_Q if quick else LINE_SHAPES_T)
    geom = ctx.choose("geom", geoms(ctx.tier))
    nvdim = ctx.choose("nvdim", [1, 3] if quick else [1, 2, 3])
    vd = ctx.choose("vdims", [None] if quick else VDIMS[nvdim][:2])
    a = ctx.choose("p1", list(LINE_PTS))
    b = ctx.choose("p2", list(LINE_PTS))
    npts = ctx.choose("npoints", [2, 3, 5])
    ptype = ctx.choose("ptype", ["tuple", "float64-ndarray"] + (["scalar"] if len(n) == 1 else []))
    nd = len(n)
    mesh = mk_mesh(n, geom)
    geo = Geo(mesh)
    data = tdata(n, nvdim, "float", ctx.seed, salt=1)
    f = df.Field(mesh, nvdim=nvdim, value=data, vdims=None if vd is None else list(vd))
    p1, p2 = _line_point(geo, a), _line_point(geo, b)
    if ptype == "tuple":
        arg1, arg2 = tuple(p1), tuple(p2)
    elif ptype == "float64-ndarray":
        arg1, arg2 = np.array(p1, dtype=float), np.array(p2, dtype=float)
    else:
        arg1, arg2 = p1[0], p2[0]
    inst = ctx.key(drop=("geom", "vdims"))
    _check_line(ctx, f, geo, p1, p2, npts, arg1, arg2, nvdim, f"field.line({a}, {b}, n={npts})", inst)
    if ptype == "float64-ndarray":
        # the caller's end points are the caller's: unchanged after the call, and a second call with the same arrays
        # samples the same line
        ctx.check()
        if not (np.array_equal(arg1, np.array(p1, dtype=float)) and np.array_equal(arg2, np.array(p2, dtype=float))):
            ctx.fail("Field.line/end-point-arrays-of-the-caller-modified", f"p1 {p1} -> {arg1.tolist()}, p2 {p2} -> {arg2.tolist()}",
                     instance=inst)
            return
        _check_line(ctx, f, geo, p1, p2, npts, arg1, arg2, nvdim, "second call with the same end-point arrays", inst)


# points on cell faces as line ends: the last point p1 + (n-1)*(p2-p1)/(n-1) may round to one ulp outside the region
FACE_AXES = [(0.1, 0.1, 6), (0.1, 0.2, 3), (-0.3, 0.1, 5), (7.7, 1.0 / 3.0, 3), (0.0, 0.7, 4)]


def unit_line_faces(ctx):
    """lines that start on ANY vertex of the first axis and end exactly on the lower or upper face of the region, for
    every number of points 2..7, on lattices whose faces are not representable: the computed end point can round to one
    ulp outside the region; it must still be reported with the value of the boundary cell it belongs to"""
    nd = ctx.choose("ndim", [1, 2, 3])
    lo, w, k = ctx.choose("axis", FACE_AXES)
    n = [k, 2, 3][:nd]
    ax = [(lo, w), (-0.25, 0.5), (1.5, 0.25)][:nd]
    pmin = [a[0] for a in ax]
    pmax = [a[0] + a[1] * c for a, c in zip(ax, n)]
    mesh = df.Mesh(region=df.Region(p1=pmin, p2=pmax), n=n)
    geo = Geo(mesh)
    verts = [float(v) for v in mesh.vertices.x]
    cents = [float(v) for v in mesh.cells.x]
    start = ctx.choose("from", [("vertex", i) for i in range(len(verts))] + [("centre", 0), ("centre", len(cents) - 1)])
    end = ctx.choose("to", ["lower-face", "upper-face"])
    npts = ctx.choose("npoints", [2, 3, 4, 5, 6, 7])
    x1 = verts[start[1]] if start[0] == "vertex" else cents[start[1]]
    x2 = float(mesh.region.pmin[0]) if end == "lower-face" else float(mesh.region.pmax[0])
    if x1 == x2:
        raise engine.Skip()
    other = [float(c) for c in geo.centre_float(tuple(0 for _ in n))][1:]
    p1, p2 = [x1] + other, [x2] + other
    nvdim = 2
    f = df.Field(mesh, nvdim=nvdim, value=tdata(tuple(n), nvdim, "float", ctx.seed, salt=1))
    _check_line(ctx, f, geo, p1, p2, npts, tuple(p1), tuple(p2), nvdim, f"field.line({p1}, {p2}, n={npts})", ctx.key())


# ==========================================================================
# unit bad

BAD_SHAPES_T = [(1,), (3,), (2, 3), (1, 5), (1, 2, 3), (2, 1, 3, 2)]
BAD_SHAPES_Q = [(3,), (2, 3), (1, 2, 3)]


def _bad_kinds(nvdim, route, nd, dt):
    k = ["str", "None", "object", "tuple-too-long", "array-extra-component", "array-extra-cell", "list-extra-cell",
         "empty-tuple"]
    # NumPy converts any object to bool by truthiness: strings inside sequences / returned by functions are not
    # demanded to be refused for dtype=bool
    strings = dt != "bool"
    if strings:
        k += ["tuple-of-str"]
    if nvdim > 1:
        k += ["nonzero-scalar", "nonzero-complex-scalar", "tuple-too-short", "array-missing-component",
              # one number for several components, in the representations a number can arrive in
              "nonzero-0d-array", "nonzero-0d-int-array", "nonzero-float32-scalar", "nonzero-int64-scalar",
              "nonzero-fraction", "one-element-array"]
    else:
        k += ["nshape-extra-cell"]
        if nd > 1:
            k += ["nshape-transposed-extra"]
    if route != "setter":
        k += ["fn-too-many-components", "source-wrong-nvdim", "source-not-covering"]
        if strings:
            k += ["fn-returns-str", "dict-unknown-type-value"]
        if nvdim > 1:
            k += ["fn-too-few-components"]
    return k


def unit_bad(ctx):
    quick = ctx.tier == "quick"
    n = ctx.choose("n", BAD_SHAPES_Q if quick else BAD_SHAPES_T)
    nvdim = ctx.choose("nvdim", [1, 3] if quick else [1, 2, 3, 4])
    dt = ctx.choose("dtype", ["None", "int"] if quick else ["None", "int", "complex", "bool"])
    route = ctx.choose("route", ["ctor", "update", "setter"])
    kind = ctx.choose("bad", _bad_kinds(nvdim, route, len(n), dt))
    nd = len(n)
    mesh = mk_mesh(n, "off")
    geo = Geo(mesh)
    vdt = "float" if dt == "None" else dt
    data = tdata(n, nvdim, vdt, ctx.seed, salt=1)
    n1 = tuple([n[0] + 1] + list(n[1:]))
    if kind == "str":
        spec = "abc"
    elif kind == "None":
        spec = None
    elif kind == "object":
        spec = object()
    elif kind == "tuple-too-long":
        spec = tuple(range(1, nvdim + 2))
    elif kind == "tuple-too-short":
        spec = tuple(range(1, nvdim))
    elif kind == "empty-tuple":
        spec = ()
    elif kind == "tuple-of-str":
        spec = tuple("q" for _ in range(nvdim))
    elif kind == "array-extra-component":
        spec = tdata(n, nvdim + 1, vdt, ctx.seed, salt=7)
    elif kind == "array-missing-component":
        spec = tdata(n, nvdim - 1, vdt, ctx.seed, salt=7)
    elif kind == "array-extra-cell":
        spec = tdata(n1, nvdim, vdt, ctx.seed, salt=7)
    elif kind == "list-extra-cell":
        spec = tdata(n1, nvdim, vdt, ctx.seed, salt=7).tolist()
    elif kind == "nshape-extra-cell":
        spec = tdata(n1, 1, vdt, ctx.seed, salt=7)[..., 0]
    elif kind == "nshape-transposed-extra":
        spec = np.swapaxes(tdata(n1, 1, vdt, ctx.seed, salt=7)[..., 0], 0, 1)
    elif kind == "nonzero-scalar":
        spec = 3
    elif kind == "nonzero-complex-scalar":
        spec = 2 - 1j
    elif kind == "nonzero-0d-array":
        spec = np.array(2.5)
    elif kind == "nonzero-0d-int-array":
        spec = np.asarray(3)
    elif kind == "nonzero-float32-scalar":
        spec = np.float32(2.5)
    elif kind == "nonzero-int64-scalar":
        spec = np.int64(3)
    elif kind == "nonzero-fraction":
        spec = fractions.Fraction(5, 2)
    elif kind == "one-element-array":
        spec = np.array([2.5])
    elif kind == "fn-too-many-components":
        spec = lambda p: tuple(range(nvdim + 1))  # noqa: E731
    elif kind == "fn-too-few-components":
        spec = lambda p: tuple(range(nvdim - 1))  # noqa: E731
    elif kind == "fn-returns-str":
        spec = lambda p: "abc"  # noqa: E731
    elif kind == "source-wrong-nvdim":
        spec = df.Field(mesh, nvdim=nvdim + 1, value=tdata(n, nvdim + 1, "float", ctx.seed, salt=7))
    elif kind == "source-not-covering":
        sh = np.zeros(nd)
        sh[0] = geo.cell[0]
        sm = df.Mesh(region=df.Region(p1=list(geo.pmin + sh), p2=list(geo.pmax + sh)), n=n)
        spec = df.Field(sm, nvdim=nvdim, value=tdata(n, nvdim, "float", ctx.seed, salt=7))
    elif kind == "dict-unknown-type-value":
        spec = {"default": "abc"}
    else:
        raise RuntimeError(kind)
    inst = ctx.key()
    if route == "ctor":
        C.expect_raises(ctx, f"Field.ctor/bad-specification-accepted/{kind}",
                        lambda: df.Field(mesh, nvdim=nvdim, value=spec, dtype=DT[dt]))
        ctx.observe("ctor")
        return
    valid = C.coded_mask(n, k=1)
    f = df.Field(mesh, nvdim=nvdim, value=data, dtype=DT[dt], valid=valid, unit="T")
    before = C.field_snap(f)
    if route == "update":
        raised = C.expect_raises(ctx, f"Field.update_field_values/bad-specification-accepted/{kind}",
                                 f.update_field_values, spec)
    else:
        def setit():
            f.array = spec
        raised = C.expect_raises(ctx, f"Field.array-setter/bad-specification-accepted/{kind}", setit)
    ctx.observe(raised, f.array)
    if not raised:
        return  # already reported as accepted; the modification is its consequence
    ctx.check()
    if C.field_snap(f) != before:
        ctx.fail(f"{SITE[route]}/bad-specification-modified-the-field/{kind}",
                 "the existing field is not byte-identical after the bad specification", instance=inst)


def units(tier):
    return [
        {"name": "values", "fn": unit_values, "bound": None},
        {"name": "dict", "fn": unit_dict, "bound": None},
        {"name": "nan", "fn": unit_nan, "bound": None},
        {"name": "source", "fn": unit_source, "bound": None},
        {"name": "reuse", "fn": unit_reuse, "bound": None},
        {"name": "sample", "fn": unit_sample, "bound": None},
        {"name": "access", "fn": unit_access, "bound": None},
        {"name": "line", "fn": unit_line, "bound": None},
        {"name": "line_faces", "fn": unit_line_faces, "bound": None},
        {"name": "bad", "fn": unit_bad, "bound": None},
    ]
