"""C20 - matplotlib plots draw the field's own numbers at their physical coordinates.

The observables are matplotlib's own artists on the axes handed to the plot:
``AxesImage`` (array, extent, origin), ``Quiver`` (X, Y, U, V, Umask, colour
array), the arguments received by ``Axes.contour`` (bound method of the axes
wrapped by the harness), the axis labels; plus byte snapshots of the field.

Every pixel / arrow / grid point is located through the artist's OWN geometry
(extent + origin, X/Y) and then compared with the value of the cell whose
centre it sits on, so a re-ordering that draws the same picture is accepted.
"""
import colorsys
import math
import re
from fractions import Fraction as Fr

import matplotlib

matplotlib.use("Agg")
import matplotlib.pyplot as plt  # noqa: E402
import numpy as np  # noqa: E402
from matplotlib.image import AxesImage  # noqa: E402
from matplotlib.quiver import Quiver  # noqa: E402

import discretisedfield as df  # noqa: E402
from mc import common as C  # noqa: E402
from mc import engine  # noqa: E402

PROPERTY = "C20"
RULE = ("full products: unit scalar = geometry x validity x multiplier x filter x {scalar, contour}; unit vector = geometry "
        "x component layout x validity x multiplier x vdims argument x colour source; unit lightness = geometry x "
        "component layout x validity x filter x lightness source x multiplier; unit call = geometry x component layout x "
        "validity x multiplier; unit refuse = all listed wrong inputs x plot kinds. An execution is non-trivial when at "
        "least one artist was compared with the field.")
ASSUMPTIONS = [
    "scope: 2-d meshes n in {(3,2),(1,4),(5,5)} (+ (4,3),(2,3) thorough), anisotropic cells, nm / m / km (+ um, far "
    "offset) scales, renamed and permuted axis names, distinct units; 1-3 components; multipliers default, 1e-9, 1e-6, 1, 1e3",
    "value types: float64 everywhere; scalar / contour plots additionally with integer- and Boolean-typed scalar fields, "
    "vector plots with integer-typed vector fields (no filter on another mesh); complex fields are not plotted",
    "the plot kinds keep using image / quiver / contour artists (AxesImage, Quiver, Axes.contour); a re-implementation on "
    "other artist types would need the observer, not the property, to be adapted",
    "values handed to matplotlib are compared for equality (no arithmetic is involved); coordinates with tolerance "
    "1e-9 cell + 16 ulp of the largest rescaled coordinate",
    "filter / colour / lightness fields on another resolution are block-uniform over each cell of the plotted field, so "
    "every reading of 'the filter value of a cell' (centre sample, average, any/all) gives the same answer",
    "with an EXPLICIT filter field only 'filter zero -> hidden' and 'valid and filter non-zero -> drawn with the right "
    "value' are demanded; whether an invalid cell with non-zero filter is drawn is only counted (note "
    "'invalid-cell-drawn-under-explicit-filter'): the documented design lets an explicit filter replace validity",
    "lightness plots: hue of the drawn colour = in-plane angle / 2pi (scalar fields: value / 2pi), hidden cells "
    "transparent, pixel lightness non-decreasing in the lightness source; the normalisation itself is not fixed",
    "the default multiplier is inferred from the drawn extent (nearest power of 1000) and must then be consistent for "
    "extent, positions and both axis labels",
    "contour plots need >= 2 cells per axis (matplotlib's own requirement); such geometries are skipped for contour",
    "the colour wheel of lightness plots is a decoration in an inset axes and is switched off except for one thorough "
    "choice; colour bars, clim / symmetric_clim, figure size and file output are not examined",
]

# ---------------------------------------------------------------------------
# alphabets

GEOMS = {
    # name: (n, p1, cell, dims, units)
    "nm32": ((3, 2), (1e-9, 2e-9), (2e-9, 1e-9), ("x", "y"), ("m", "m")),
    "m14ab": ((1, 4), (-3.5, 10.25), (2.0, 0.5), ("a", "b"), ("m", "K")),
    "km55xz": ((5, 5), (2e3, -7e3), (1e3, 400.0), ("x", "z"), ("m", "m")),
    "um43yx": ((4, 3), (0.1e-6, -0.7e-6), (0.3e-6, 0.7e-6), ("y", "x"), ("m", "s")),
    "far23": ((2, 3), (1e4 + 0.1, 7.7), (0.1, 1 / 3), ("x", "y"), ("m", "m")),
    # corners given as Python ints (integer-typed corner arrays); divided by the multiplier 1e3 they are not integers
    "int-km43": ((4, 3), (-1500, 250), (1000, 500), ("x", "y"), ("m", "m")),
}
GEOM_QUICK = ["nm32", "m14ab", "km55xz", "int-km43"]
MULTS = [None, 1e-9, 1, 1e3, 1e-6]
PREFIX = {-24: ["y"], -21: ["z"], -18: ["a"], -15: ["f"], -12: ["p"], -9: ["n"], -6: ["u", "µ", "μ", r"\mu ", r"$\mu$"],
          -3: ["m"], 0: [""], 3: ["k"], 6: ["M"], 9: ["G"], 12: ["T"], 15: ["P"], 18: ["E"], 21: ["Z"], 24: ["Y"]}


class Geom:
    def __init__(self, name):
        n, p1, cell, dims, units = GEOMS[name]
        self.name = name
        self.n = tuple(n)
        p2 = tuple(a + c * k for a, c, k in zip(p1, cell, n))
        self.mesh = df.Mesh(region=df.Region(p1=p1, p2=p2, dims=dims, units=units), n=n)
        self.dims, self.units = dims, units
        self.pmin = [Fr(float(x)) for x in self.mesh.region.pmin]
        self.pmax = [Fr(float(x)) for x in self.mesh.region.pmax]
        self.cell = [(b - a) / k for a, b, k in zip(self.pmin, self.pmax, self.n)]

    def other_mesh(self, factor=3):
        return df.Mesh(region=self.mesh.region, n=tuple(k * factor for k in self.n))


def _validity(n, kind):
    if kind == "all":
        return np.ones(n, dtype=bool)
    m = C.coded_mask(n, 1)
    if m.all() or not m.any():
        m = m.copy()
        m.flat[0] = not m.flat[0]
    return m


def _block(a, factor=3):
    return np.repeat(np.repeat(a, factor, axis=0), factor, axis=1)


def _filter(geom, kind):
    """(filter field or None, zero-pattern on the plotted mesh or None)"""
    if kind is None:
        return None, None
    n = geom.n
    keep = C.coded_mask(n, 3 if kind in ("same", "tiny") else 5)
    if keep.all() or not keep.any():
        keep = keep.copy()
        keep.flat[-1] = not keep.flat[-1]
    k = np.arange(keep.size).reshape(n)
    vals = np.where(keep, (1.0 + k) * (-1.0) ** k, 0.0)  # non-zero values of both signs where kept
    if kind == "tiny":
        # non-zero but tiny filter values (a norm of 2.5e-10, a difference of 1e-15 ...): NOT zero, so the cell is drawn
        tiny = np.array([2.5e-10, -7e-12, 1e-15, -1e-300])[k % 4]
        return df.Field(geom.mesh, nvdim=1, value=np.where(keep, tiny, 0.0)[..., None]), ~keep
    if kind == "same":
        return df.Field(geom.mesh, nvdim=1, value=vals[..., None]), ~keep
    if kind == "other-same-count":
        # another grid with the SAME number of cells: twice as fine along one axis, half as fine along the other (which
        # must have an even count).  The zero pattern depends on the refined axis only, so the filter is still uniform over
        # every cell of the plotted mesh and "the filter value of a cell" has one reading.
        ax = 0 if n[1] % 2 == 0 else (1 if n[0] % 2 == 0 else None)
        if ax is not None and n[1 - ax] >= 2:
            line = np.array([(3 * i + 1) % 4 != 0 for i in range(n[ax])])
            if line.all() or not line.any():
                line[-1] = not line[-1]
            lv = np.where(line, 1.0 + np.arange(n[ax]), 0.0)
            nf = [0, 0]
            nf[ax], nf[1 - ax] = 2 * n[ax], n[1 - ax] // 2
            fine = np.repeat(lv, 2)
            arr = fine[:, None] * np.ones(nf[1])[None, :] if ax == 0 else np.ones(nf[0])[:, None] * fine[None, :]
            zero = ~(line[:, None] & np.ones(n, bool)) if ax == 0 else ~(np.ones(n, bool) & line[None, :])
            fm = df.Mesh(region=geom.mesh.region, n=tuple(nf))
            return df.Field(fm, nvdim=1, value=arr[..., None]), zero
    return df.Field(geom.other_mesh(), nvdim=1, value=_block(vals)[..., None]), ~keep


def _aux_scalar(geom, kind, salt):
    """auxiliary scalar (colour / lightness source): (field, values on the plotted mesh)"""
    n = geom.n
    vals = C.tracer(n, 1, 0)[..., 0] * 0.5 + salt  # fixed data (not the seed): distinct values
    if kind == "same":
        return df.Field(geom.mesh, nvdim=1, value=vals[..., None]), vals
    return df.Field(geom.other_mesh(), nvdim=1, value=_block(vals)[..., None]), vals


# component layouts: name -> (nvdim, vdims, mapping builder(dims) or "none")
def _layouts():
    return {
        "s": (1, None, None),
        "v2-default": (2, None, None),
        "v2-pq-swapped": (2, ["p", "q"], lambda d: {"p": d[1], "q": d[0]}),
        "v3-sel-like": (3, None, lambda d: {"x": d[0], "y": d[1], "z": "w"}),
        "v3-abc-cyclic": (3, ["a", "b", "c"], lambda d: {"a": "w", "b": d[0], "c": d[1]}),
        # the same pairing written with its keys in the order of the axes they point to / in reversed order
        "v3-abc-cyclic-axisorder": (3, ["a", "b", "c"], lambda d: {"b": d[0], "c": d[1], "a": "w"}),
        "v2-pq-swapped-keys-reversed": (2, ["p", "q"], lambda d: {"q": d[0], "p": d[1]}),
        "v3-swapped-none": (3, None, lambda d: {"x": d[1], "y": d[0], "z": None}),
        "v3-nomap": (3, ["p", "q", "r"], lambda d: {}),
        "v3-from-sel": (3, None, "sel"),
    }


LAYOUTS = _layouts()


def make_field(geom, layout, valid, seed, dtype="float"):
    """returns (field, inplane) with inplane = (index of the component along axis 0, along axis 1) or None.
    dtype 'int' / 'bool': the values are stored in an integer- / Boolean-typed array (legitimate fields: a cell count,
    a mask) - hidden cells still have to be hidden and the drawn numbers are the stored ones"""
    nv, vdims, mp = LAYOUTS[layout]
    n = geom.n
    arr = C.tracer(n, nv, seed)
    dkw = {} if dtype == "float" else {"dtype": {"int": int, "bool": bool}[dtype]}
    if nv == 1:
        if dtype == "int":
            return df.Field(geom.mesh, nvdim=1, value=arr.astype(int), valid=valid, unit="rad", **dkw), None
        if dtype == "bool":
            return df.Field(geom.mesh, nvdim=1, value=(arr % 2 == 0), valid=valid, unit="rad", **dkw), None
        # angles in (0, 2 pi) so that the scalar doubles as a hue; still pairwise distinct
        arr = 0.2 + arr * (5.8 / (arr.max() + 1))
        return df.Field(geom.mesh, nvdim=1, value=arr, valid=valid, unit="rad"), None
    arr = arr - (arr.max() + 1) / 2 + 0.25  # both signs -> all quadrants of the in-plane angle, never zero
    if dtype == "int":
        arr = (C.tracer(n, nv, seed) - (n[0] * n[1] * nv) // 2).astype(int)  # integers of both signs, pairwise distinct
    if mp == "sel":
        d = geom.dims
        third = "w"
        reg = df.Region(p1=tuple(float(x) for x in geom.mesh.region.pmin) + (0.0,),
                        p2=tuple(float(x) for x in geom.mesh.region.pmax) + (float(geom.mesh.cell[0]),),
                        dims=d + (third,), units=geom.units + ("m",))
        f3 = df.Field(df.Mesh(region=reg, n=n + (1,)), nvdim=3, value=arr[:, :, None, :], valid=valid[:, :, None],
                      unit="A/m")
        f = f3.sel(third)
        vd = list(f.vdims)
        mapping = dict(f.vdim_mapping)
    else:
        kw = {}
        if vdims is not None:
            kw["vdims"] = vdims
        if mp is not None:
            kw["vdim_mapping"] = mp(geom.dims)
        f = df.Field(geom.mesh, nvdim=nv, value=arr, valid=valid, unit="A/m", **kw, **dkw)
        vd = list(f.vdims)
        mapping = dict(f.vdim_mapping) if f.vdim_mapping else {}
    inpl = []
    for d in geom.dims:
        c = [k for k, v in enumerate(vd) if mapping.get(v) == d]
        inpl.append(c[0] if len(c) == 1 else None)
    return f, (None if None in inpl else tuple(inpl))


# ---------------------------------------------------------------------------
# observers

def _tolpos(geom, ax, m):
    M = max(abs(float(geom.pmin[ax])), abs(float(geom.pmax[ax]))) / m
    return 1e-9 * float(geom.cell[ax]) / m + 16 * C.ulp(M)


def _cell_of(geom, ax, x, m):
    """index of the cell whose centre (divided by m) is x, or None"""
    t = (x * m - float(geom.pmin[ax])) / float(geom.cell[ax]) - 0.5
    i = int(round(t))
    if i < 0 or i >= geom.n[ax]:
        return None
    exact = float(geom.pmin[ax] + Fr(2 * i + 1, 2) * geom.cell[ax]) / m
    if C.gt(abs(x - exact), _tolpos(geom, ax, m)):
        return None
    return i


def infer_multiplier(geom, span0):
    """power of 1000 closest to edge / drawn span"""
    e = float(geom.pmax[0] - geom.pmin[0])
    if not (span0 > 0) or not math.isfinite(span0):
        return None
    k = round(math.log10(e / span0) / 3)
    return 10.0 ** (3 * k), 3 * k


def check_labels(ctx, site, ax, geom, exp3, inst):
    ctx.check()
    for axis, lab in ((0, ax.get_xlabel()), (1, ax.get_ylabel())):
        ok = False
        for pre in PREFIX.get(exp3, []):
            pat = r"^\s*" + re.escape(geom.dims[axis]) + r"\s*[\(\[/]\s*" + re.escape(pre) + re.escape(geom.units[axis]) \
                  + r"\s*[\)\]]?\s*$"
            if re.match(pat, lab):
                ok = True
        if not ok:
            ctx.fail(site + "/axis-label", f"{'xy'[axis]}-label {lab!r}: expected dimension {geom.dims[axis]!r} with unit "
                     f"'{PREFIX.get(exp3, ['?'])[0]}{geom.units[axis]}'", instance=inst)
            return


def main_image(ax):
    ims = [im for im in ax.images if isinstance(im, AxesImage)]
    return ims


def observe_image(ctx, site, im, geom, mult, inst):
    """locate every pixel through extent + origin; returns (m, exp3, cellmap) where cellmap[(i, j)] = (value, hidden)
    or None after reporting a failure"""
    arr = im.get_array()
    ext = [float(v) for v in im.get_extent()]
    l, r, b, t = ext
    ctx.check()
    if mult is None:
        inf = infer_multiplier(geom, abs(r - l))
        if inf is None:
            ctx.fail(site + "/extent", f"degenerate extent {ext}", instance=inst)
            return None
        m, exp3 = inf
    else:
        m, exp3 = float(mult), int(round(math.log10(mult)))
    want = [float(geom.pmin[0]) / m, float(geom.pmax[0]) / m, float(geom.pmin[1]) / m, float(geom.pmax[1]) / m]
    exact = [geom.pmin[0] / Fr(m), geom.pmax[0] / Fr(m), geom.pmin[1] / Fr(m), geom.pmax[1] / Fr(m)]
    tol0 = 16 * C.ulp(max(abs(want[0]), abs(want[1])))
    tol1 = 16 * C.ulp(max(abs(want[2]), abs(want[3])))
    bad = (abs(Fr(min(l, r)) - exact[0]) > tol0 or abs(Fr(max(l, r)) - exact[1]) > tol0
           or abs(Fr(min(b, t)) - exact[2]) > tol1 or abs(Fr(max(b, t)) - exact[3]) > tol1)
    if bad:
        ctx.fail(site + "/extent-not-region-over-multiplier", f"extent {ext} but region / {m:g} = {want}", instance=inst)
        return None
    a = np.ma.asarray(arr)
    R, Cc = a.shape[0], a.shape[1]
    if (R, Cc) != (geom.n[1], geom.n[0]):
        ctx.fail(site + "/image-shape", f"image is {a.shape}, mesh n={geom.n} (expected one pixel per cell, rows along the "
                 "second axis)", instance=inst)
        return None
    mask = np.ma.getmaskarray(a)
    data = np.ma.getdata(a)
    cellmap = {}
    for rr in range(R):
        y = (b + (rr + 0.5) * (t - b) / R) if im.origin == "lower" else (t - (rr + 0.5) * (t - b) / R)
        j = _cell_of_loose(geom, 1, y, m)
        for cc in range(Cc):
            x = l + (cc + 0.5) * (r - l) / Cc
            i = _cell_of_loose(geom, 0, x, m)
            if i is None or j is None or (i, j) in cellmap:
                ctx.fail(site + "/pixel-not-on-a-cell", f"pixel [{rr},{cc}] sits at ({x}, {y}) which is not a distinct cell "
                         "centre / multiplier", instance=inst)
                return None
            v = data[rr, cc]
            hid = bool(np.all(mask[rr, cc])) or bool(np.any(np.isnan(np.asarray(v, dtype=float))))
            cellmap[(i, j)] = (v, hid)
    return m, exp3, cellmap


def _cell_of_loose(geom, ax, x, m):
    """pixel centres come from dividing the extent: allow 1e-6 cell"""
    t = (x * m - float(geom.pmin[ax])) / float(geom.cell[ax]) - 0.5
    i = int(round(t))
    if i < 0 or i >= geom.n[ax] or abs(t - i) > 1e-6:
        return None
    return i


def expected_hidden(valid, fzero):
    """(must_hide, must_draw) boolean arrays"""
    if fzero is None:
        return ~valid, valid.copy()
    return fzero.copy(), (~fzero) & valid


def compare_cells(ctx, site, cellmap, values, must_hide, must_draw, inst, what="value"):
    """values[i, j] (scalar per cell) against the drawn ones"""
    n = values.shape
    ctx.check(int(must_hide.sum() + must_draw.sum()))
    for i in range(n[0]):
        for j in range(n[1]):
            v, hid = cellmap[(i, j)]
            if must_hide[i, j] and not hid:
                ctx.fail(site + "/hidden-cell-drawn", f"cell ({i},{j}) must not be drawn but shows {v}", instance=inst)
                return False
            if must_draw[i, j]:
                if hid:
                    ctx.fail(site + "/visible-cell-not-drawn", f"cell ({i},{j}) is valid and not filtered but hidden",
                             instance=inst)
                    return False
                if not (float(v) == float(values[i, j])):
                    ctx.fail(site + f"/wrong-{what}-at-cell", f"cell ({i},{j}) shows {float(v)!r}, the field has "
                             f"{float(values[i, j])!r}", instance=inst)
                    return False
            if not must_hide[i, j] and not must_draw[i, j] and not hid:
                ctx.note("invalid-cell-drawn-under-explicit-filter")
    return True


def observe_quiver(ctx, site, ax, geom, mult, m_hint, inst):
    """returns list of (i, j, U, V, masked, C or None) per arrow, or None after a failure"""
    qs = [c for c in ax.collections if isinstance(c, Quiver)]
    ctx.check()
    if len(qs) != 1:
        ctx.fail(site + "/observer-no-single-quiver", f"{len(qs)} Quiver artists on the axes", instance=inst)
        return None
    q = qs[0]
    X, Y = np.asarray(q.X, float).ravel(), np.asarray(q.Y, float).ravel()
    U, V = np.ma.getdata(q.U).ravel(), np.ma.getdata(q.V).ravel()
    um = q.Umask
    um = np.zeros(len(X), bool) if um is np.ma.nomask else np.asarray(um, bool).ravel()
    um = um | np.isnan(U.astype(float)) | np.isnan(V.astype(float))
    Cc = q.get_array()
    if mult is None:
        if m_hint is not None:
            m = m_hint
        else:
            span = (X.max() - X.min()) if geom.n[0] > 1 else None
            if span:
                e = float(geom.cell[0] * (geom.n[0] - 1))
                m = 10.0 ** (3 * round(math.log10(e / span) / 3))
            else:
                span = Y.max() - Y.min()
                e = float(geom.cell[1] * (geom.n[1] - 1))
                m = 10.0 ** (3 * round(math.log10(e / span) / 3)) if span else 1.0
    else:
        m = float(mult)
    out = {}
    for k in range(len(X)):
        i, j = _cell_of(geom, 0, X[k], m), _cell_of(geom, 1, Y[k], m)
        if i is None or j is None or (i, j) in out:
            ctx.fail(site + "/arrow-not-at-a-cell-centre", f"arrow {k} at ({X[k]!r}, {Y[k]!r}) is not at a distinct cell "
                     f"centre / {m:g}", instance=inst)
            return None
        cval, cm = None, False
        if Cc is not None:
            ca = np.ma.asarray(Cc).ravel()
            cm = bool(np.ma.getmaskarray(ca)[k])
            cval = float(np.ma.getdata(ca)[k])
        out[(i, j)] = (float(U[k]), float(V[k]), bool(um[k]), cval, cm)
    return m, out


def compare_arrows(ctx, site, arrows, geom, field_arr, ux, vy, valid, colour, inst):
    """ux / vy: component index or None (zero arrows); colour: per-cell values or None"""
    n = geom.n
    ctx.check(n[0] * n[1])
    for i in range(n[0]):
        for j in range(n[1]):
            a = arrows.get((i, j))
            if not valid[i, j]:
                if a is not None and not a[2]:
                    ctx.fail(site + "/hidden-cell-drawn", f"invalid cell ({i},{j}) has a visible arrow ({a[0]}, {a[1]})",
                             instance=inst)
                    return False
                continue
            if a is None or a[2]:
                ctx.fail(site + "/visible-cell-not-drawn", f"valid cell ({i},{j}) has no visible arrow", instance=inst)
                return False
            eu = 0.0 if ux is None else float(field_arr[i, j, ux])
            ev = 0.0 if vy is None else float(field_arr[i, j, vy])
            if a[0] != eu or a[1] != ev:
                ctx.fail(site + "/wrong-arrow-components", f"cell ({i},{j}): arrow ({a[0]}, {a[1]}) but the components along "
                         f"the plot axes are ({eu}, {ev})", instance=inst)
                return False
            if colour is not None:
                if a[3] is None or a[4]:
                    ctx.fail(site + "/colour-missing", f"cell ({i},{j}) has no colour value", instance=inst)
                    return False
                if a[3] != float(colour[i, j]):
                    ctx.fail(site + "/wrong-colour-value", f"cell ({i},{j}): colour {a[3]} expected {float(colour[i, j])}",
                             instance=inst)
                    return False
    return True


class ContourTap:
    """wraps the bound ``contour`` of ONE axes object and records what it receives"""

    def __init__(self, ax):
        self.calls = []
        self._orig = ax.contour
        ax.contour = self

    def __call__(self, *a, **k):
        self.calls.append(a)
        return self._orig(*a, **k)


def new_axes():
    fig = plt.figure(figsize=(3, 2.5))
    return fig, fig.add_subplot(111)


def unchanged(ctx, site, f, before, inst, extra=()):
    ctx.check()
    if C.field_snap(f) != before:
        ctx.fail(site + "/field-modified-by-plotting", "field / mesh / validity differ after the plot", instance=inst)


# ---------------------------------------------------------------------------
# units

def unit_scalar(ctx):
    quick = ctx.tier == "quick"
    gname = ctx.choose("geom", GEOM_QUICK if quick else list(GEOMS))
    vkind = ctx.choose("valid", ["all", "coded"])
    mult = ctx.choose("multiplier", MULTS[:4] if quick else MULTS)
    fkind = ctx.choose("filter", [None, "same", "other", "tiny", "other-same-count"])
    kind = ctx.choose("kind", ["scalar", "contour"])
    dt = ctx.choose("value-type", ["float", "int", "bool"] if fkind in (None, "same") else ["float"])
    geom = Geom(gname)
    if kind == "contour" and min(geom.n) < 2:
        ctx.note("contour-needs-2x2")
        raise engine.Skip()
    valid = _validity(geom.n, vkind)
    f, _ = make_field(geom, "s", valid, ctx.seed, dtype=dt)
    filt, fzero = _filter(geom, fkind)
    before = C.field_snap(f)
    fbefore = None if filt is None else C.field_snap(filt)
    vals = np.array(f.array[..., 0], copy=True)
    must_hide, must_draw = expected_hidden(valid, fzero)
    inst = ctx.key()
    site = "mpl." + kind
    fig, ax = new_axes()
    try:
        kw = {} if mult is None else {"multiplier": mult}
        if filt is not None:
            kw["filter_field"] = filt
        if kind == "scalar":
            ctx.step(1, f"mpl.scalar({', '.join(kw)})")
            f.mpl.scalar(ax=ax, **kw)
            ims = main_image(ax)
            ctx.check()
            if len(ims) != 1:
                ctx.fail(site + "/observer-no-single-image", f"{len(ims)} images on the axes", instance=inst)
                return
            ob = observe_image(ctx, site, ims[0], geom, mult, inst)
            if ob is None:
                return
            m, exp3, cellmap = ob
            ctx.observe([(k, (None if h else float(v))) for k, (v, h) in sorted(cellmap.items())], exp3)
            compare_cells(ctx, site, cellmap, vals, must_hide, must_draw, inst)
        else:
            tap = ContourTap(ax)
            ctx.step(1, f"mpl.contour({', '.join(kw)})")
            f.mpl.contour(ax=ax, **kw)
            ctx.check()
            if len(tap.calls) != 1 or len(tap.calls[0]) < 3:
                ctx.fail(site + "/observer-contour-not-called-with-x-y-z", f"{len(tap.calls)} calls of Axes.contour",
                         instance=inst)
                return
            X, Y, Z = [np.ma.asarray(a) for a in tap.calls[0][:3]]
            if X.ndim == 1 and Y.ndim == 1:
                X, Y = np.meshgrid(X, Y)
            if not (X.shape == Y.shape == Z.shape):
                ctx.fail(site + "/contour-grid-shape", f"X {X.shape} Y {Y.shape} Z {Z.shape}", instance=inst)
                return
            if mult is None:
                span = float(X.max() - X.min())
                e = float(geom.cell[0] * (geom.n[0] - 1))
                exp3 = 3 * round(math.log10(e / span) / 3)
                m = 10.0 ** exp3
            else:
                m, exp3 = float(mult), int(round(math.log10(mult)))
            cellmap = {}
            zm, zd = np.ma.getmaskarray(Z), np.ma.getdata(Z)
            for idx in np.ndindex(*X.shape):
                i, j = _cell_of(geom, 0, float(X[idx]), m), _cell_of(geom, 1, float(Y[idx]), m)
                if i is None or j is None or (i, j) in cellmap:
                    ctx.fail(site + "/grid-point-not-at-a-cell-centre", f"grid point {idx} at ({float(X[idx])!r}, "
                             f"{float(Y[idx])!r}) is not a distinct cell centre / {m:g}", instance=inst)
                    return
                cellmap[(i, j)] = (zd[idx], bool(zm[idx]) or bool(np.isnan(zd[idx])))
            if len(cellmap) != geom.n[0] * geom.n[1]:
                ctx.fail(site + "/contour-grid-shape", f"{len(cellmap)} grid points for {geom.n} cells", instance=inst)
                return
            ctx.observe([(k, (None if h else float(v))) for k, (v, h) in sorted(cellmap.items())], exp3)
            compare_cells(ctx, site, cellmap, vals, must_hide, must_draw, inst)
        check_labels(ctx, site, ax, geom, exp3, inst)
        unchanged(ctx, site, f, before, inst)
        if filt is not None:
            ctx.check()
            if filt is f or C.field_snap(filt) != fbefore:
                ctx.note("argument-field-modified")
    finally:
        plt.close("all")


VEC_LAYOUTS_Q = ["v2-default", "v2-pq-swapped", "v3-sel-like", "v3-abc-cyclic", "v3-nomap"]
VEC_LAYOUTS_T = VEC_LAYOUTS_Q + ["v3-swapped-none", "v3-from-sel"]


def _vdims_args(f, inplane):
    """None (through the mapping) + every ordered pair of labels + one-sided"""
    vd = list(f.vdims)
    out = []
    if inplane is not None:
        out.append(None)
    for a in range(len(vd)):
        for b in range(len(vd)):
            if a != b:
                out.append((vd[a], vd[b]))
    out.append((vd[0], None))
    out.append((None, vd[-1]))
    return out


def unit_vector(ctx):
    quick = ctx.tier == "quick"
    gname = ctx.choose("geom", GEOM_QUICK if quick else list(GEOMS))
    layout = ctx.choose("layout", VEC_LAYOUTS_Q if quick else VEC_LAYOUTS_T)
    vkind = ctx.choose("valid", ["coded", "all"])
    mult = ctx.choose("multiplier", [None, 1e-9, 1e3] if quick else MULTS)
    geom = Geom(gname)
    valid = _validity(geom.n, vkind)
    dt = ctx.choose("value-type", ["float", "int"] if layout in ("v2-default", "v3-abc-cyclic") and mult is None else ["float"])
    f, inplane = make_field(geom, layout, valid, ctx.seed, dtype=dt)
    vd = list(f.vdims)
    varg = ctx.choose("vdims", _vdims_args(f, inplane))
    if varg is None:
        ux, vy = inplane
    else:
        ux = None if varg[0] is None else vd.index(varg[0])
        vy = None if varg[1] is None else vd.index(varg[1])
    third = None
    if f.nvdim == 3 and ux is not None and vy is not None:
        third = [k for k in range(3) if k not in (ux, vy)][0]
    colours = ["off", "field-same", "field-other"] + (["auto"] if third is not None else [])
    cmode = ctx.choose("colour", colours)
    kw = {} if mult is None else {"multiplier": mult}
    if varg is not None:
        kw["vdims"] = list(varg)
    colour = None
    cf = None
    if cmode == "off":
        kw["use_color"] = False
    elif cmode == "auto":
        colour = np.array(f.array[..., third], copy=True)
    else:
        cf, colour = _aux_scalar(geom, "same" if cmode == "field-same" else "other", 0.125)
        kw["color_field"] = cf
    before = C.field_snap(f)
    cbefore = None if cf is None else C.field_snap(cf)
    arr = np.array(f.array, copy=True)
    inst = ctx.key()
    site = "mpl.vector"
    fig, ax = new_axes()
    try:
        ctx.step(1, f"mpl.vector({', '.join(kw)}) layout={layout}")
        f.mpl.vector(ax=ax, **kw)
        ob = observe_quiver(ctx, site, ax, geom, mult, None, inst)
        if ob is None:
            return
        m, arrows = ob
        exp3 = int(round(math.log10(m)))
        ctx.observe(sorted(arrows.items()), exp3)
        compare_arrows(ctx, site, arrows, geom, arr, ux, vy, valid, colour, inst)
        check_labels(ctx, site, ax, geom, exp3, inst)
        unchanged(ctx, site, f, before, inst)
        if cf is not None and C.field_snap(cf) != cbefore:
            ctx.note("argument-field-modified")
    finally:
        plt.close("all")


def _hue_of(rgb):
    h, l, s = colorsys.rgb_to_hls(float(rgb[0]), float(rgb[1]), float(rgb[2]))
    return h, l, s


def unit_lightness(ctx):
    quick = ctx.tier == "quick"
    gname = ctx.choose("geom", GEOM_QUICK if quick else list(GEOMS))
    layouts = ["s", "v2-default", "v2-pq-swapped", "v3-sel-like", "v3-abc-cyclic"] + ([] if quick else ["v3-swapped-none",
                                                                                                      "v3-from-sel"])
    layout = ctx.choose("layout", layouts)
    vkind = ctx.choose("valid", ["coded", "all"])
    fkind = ctx.choose("filter", [None, "same", "other", "tiny"])
    lsrc = ctx.choose("lightness", ["default", "field-same", "field-other", "self"] if layout == "s" else
                      ["default", "field-same", "field-other"])
    mult = ctx.choose("multiplier", [None, 1e-6] if quick else [None, 1e-6, 1, 1e3])
    wheel = ctx.choose("colorwheel", [False] if quick or fkind is not None or lsrc != "default" else [False, True])
    geom = Geom(gname)
    valid = _validity(geom.n, vkind)
    f, inplane = make_field(geom, layout, valid, ctx.seed)
    filt, fzero = _filter(geom, fkind)
    arr = np.array(f.array, copy=True)
    kw = {} if mult is None else {"multiplier": mult}
    kw["colorwheel"] = wheel  # decoration in an inset axes (costly to draw); not part of the property
    if filt is not None:
        kw["filter_field"] = filt
    lf, lvals = None, None
    if lsrc == "self":
        lf, lvals = f, arr[..., 0].copy()
        kw["lightness_field"] = f
    elif lsrc != "default":
        lf, lvals = _aux_scalar(geom, "same" if lsrc == "field-same" else "other", 0.375)
        kw["lightness_field"] = lf
    else:
        if f.nvdim == 3:
            third = [k for k in range(3) if k not in inplane][0]
            lvals = arr[..., third].copy()
        else:
            lvals = np.sqrt((arr ** 2).sum(axis=-1))
    if f.nvdim == 1:
        angle = arr[..., 0].copy()
    else:
        angle = np.arctan2(arr[..., inplane[1]], arr[..., inplane[0]]) % (2 * math.pi)
    before = C.field_snap(f)
    lbefore = None if lf is None else C.field_snap(lf)
    must_hide, must_draw = expected_hidden(valid, fzero)
    inst = ctx.key()
    site = "mpl.lightness"
    fig, ax = new_axes()
    try:
        ctx.step(1, f"mpl.lightness({', '.join(kw)}) layout={layout}")
        f.mpl.lightness(ax=ax, **kw)
        ims = main_image(ax)
        ctx.check()
        if len(ims) != 1:
            ctx.fail(site + "/observer-no-single-image", f"{len(ims)} images on the axes", instance=inst)
            return
        a = np.asarray(ims[0].get_array())
        if a.ndim != 3 or a.shape[2] != 4:
            ctx.fail(site + "/observer-image-not-rgba", f"image array shape {a.shape}", instance=inst)
            return
        # per pixel: hidden = alpha 0
        class _Im:  # the generic locator works on a 2-d view; colour looked up afterwards
            origin = ims[0].origin

            @staticmethod
            def get_array():
                idx = np.arange(a.shape[0] * a.shape[1], dtype=float).reshape(a.shape[:2])
                return np.ma.array(idx, mask=(a[..., 3] == 0))

            get_extent = ims[0].get_extent
        ob = observe_image(ctx, site, _Im, geom, mult, inst)
        if ob is None:
            return
        m, exp3, cellmap = ob
        n = geom.n
        flat = a.reshape(-1, 4)
        drawn = []
        ctx.check(int(must_hide.sum() + must_draw.sum()))
        for i in range(n[0]):
            for j in range(n[1]):
                v, hid = cellmap[(i, j)]
                if must_hide[i, j] and not hid:
                    ctx.fail(site + "/hidden-cell-drawn", f"cell ({i},{j}) must not be drawn but is opaque", instance=inst)
                    return
                if must_draw[i, j] and hid:
                    ctx.fail(site + "/visible-cell-not-drawn", f"cell ({i},{j}) is valid and not filtered but transparent",
                             instance=inst)
                    return
                if not hid:
                    if not must_draw[i, j]:
                        ctx.note("invalid-cell-drawn-under-explicit-filter")
                    px = flat[int(v)]
                    h, l, s = _hue_of(px[:3])
                    drawn.append((i, j, h, l, s))
        ctx.observe([(i, j, round(h, 6), round(l, 6)) for i, j, h, l, s in drawn], exp3)
        for i, j, h, l, s in drawn:
            if 1e-6 < l < 1 - 1e-6:
                eh = (angle[i, j] / (2 * math.pi)) % 1.0
                d = abs(h - eh)
                d = min(d, 1 - d)
                ctx.check()
                if C.gt(d, 1e-6):
                    ctx.fail(site + "/hue-not-inplane-angle", f"cell ({i},{j}): hue {h:.6f} of the drawn colour, in-plane "
                             f"angle / 2pi = {eh:.6f}", instance=inst)
                    return
        for (i, j, h, l, s) in drawn:
            for (i2, j2, h2, l2, s2) in drawn:
                if lvals[i, j] < lvals[i2, j2] - 1e-12 * (1 + abs(lvals[i2, j2])) and l > l2 + 1e-9:
                    ctx.check()
                    ctx.fail(site + "/lightness-not-monotonic-in-its-source", f"cells ({i},{j}) and ({i2},{j2}): source "
                             f"{lvals[i, j]} < {lvals[i2, j2]} but drawn lightness {l:.6f} > {l2:.6f}", instance=inst)
                    return
        ctx.check()
        check_labels(ctx, site, ax, geom, exp3, inst)
        unchanged(ctx, site, f, before, inst)
        if lf is not None and lf is not f and C.field_snap(lf) != lbefore:
            ctx.note("argument-field-modified:lightness_field")
    finally:
        plt.close("all")


def unit_call(ctx):
    quick = ctx.tier == "quick"
    gname = ctx.choose("geom", GEOM_QUICK if quick else list(GEOMS))
    layouts = ["s", "v2-default", "v2-pq-swapped", "v3-sel-like", "v3-abc-cyclic"] + ([] if quick else ["v3-swapped-none",
                                                                                                      "v3-from-sel"])
    layout = ctx.choose("layout", layouts)
    vkind = ctx.choose("valid", ["coded", "all"])
    mult = ctx.choose("multiplier", MULTS[:4] if quick else MULTS)
    own = ctx.choose("axes", ["given", "created-by-the-plot"])
    # non-initial state: ANOTHER field (other validity) has been plotted before with the very same keyword dictionaries
    earlier = ctx.choose("plotted-before-with-the-same-keyword-dicts", ["nothing", "field-with-other-validity"])
    geom = Geom(gname)
    valid = _validity(geom.n, vkind)
    f, inplane = make_field(geom, layout, valid, ctx.seed)
    arr = np.array(f.array, copy=True)
    before = C.field_snap(f)
    kw = {} if mult is None else {"multiplier": mult}
    inst = ctx.key()
    site = "mpl.__call__"
    plt.close("all")
    if earlier != "nothing":
        skw, vkw = {"cmap": "viridis"}, {"use_color": False}
        kw["scalar_kw"], kw["vector_kw"] = skw, vkw
        other_valid = _validity(geom.n, "all" if vkind == "coded" else "coded")
        f0, _ = make_field(geom, layout, other_valid, ctx.seed + 1)
        fig0, ax0 = new_axes()
        ctx.step(1, "earlier plot of another field with the same scalar_kw / vector_kw objects")
        f0.mpl(ax=ax0, **kw)
        plt.close("all")
    if own == "given":
        fig, ax = new_axes()
    try:
        ctx.step(1, f"mpl({', '.join(kw)}) layout={layout}")
        if own == "given":
            f.mpl(ax=ax, **kw)
        else:
            f.mpl(figsize=(3, 2.5), **kw)
            ax = plt.gcf().axes[0]
        exp3 = None
        m = None
        if f.nvdim in (1, 3):
            ims = main_image(ax)
            ctx.check()
            if len(ims) != 1:
                ctx.fail(site + "/observer-no-single-image", f"{len(ims)} images on the axes", instance=inst)
                return
            ob = observe_image(ctx, site, ims[0], geom, mult, inst)
            if ob is None:
                return
            m, exp3, cellmap = ob
            comp = 0 if f.nvdim == 1 else [k for k in range(3) if k not in inplane][0]
            ctx.observe([(k, (None if h else float(v))) for k, (v, h) in sorted(cellmap.items())], exp3)
            compare_cells(ctx, site, cellmap, arr[..., comp], ~valid, valid.copy(), inst,
                          what="value" if f.nvdim == 1 else "out-of-plane-component")
        if f.nvdim in (2, 3):
            ob = observe_quiver(ctx, site, ax, geom, mult, m, inst)
            if ob is None:
                return
            m, arrows = ob
            exp3 = int(round(math.log10(m)))
            ctx.observe(sorted(arrows.items()))
            compare_arrows(ctx, site, arrows, geom, arr, inplane[0], inplane[1], valid, None, inst)
        check_labels(ctx, site, ax, geom, exp3, inst)
        unchanged(ctx, site, f, before, inst)
    finally:
        plt.close("all")


def _refusals():
    m2 = lambda: df.Mesh(p1=(0, 0), p2=(3e-9, 2e-9), n=(3, 2))  # noqa: E731
    m3 = lambda: df.Mesh(p1=(0, 0, 0), p2=(3, 2, 2), n=(3, 2, 2))  # noqa: E731
    m1 = lambda: df.Mesh(p1=(0,), p2=(3,), n=(3,))  # noqa: E731
    mk = {
        "3d-scalar": lambda: df.Field(m3(), nvdim=1, value=1.0),
        "3d-vector": lambda: df.Field(m3(), nvdim=3, value=(1.0, 2.0, 3.0)),
        "1d-scalar": lambda: df.Field(m1(), nvdim=1, value=1.0),
        "2d-v2": lambda: df.Field(m2(), nvdim=2, value=(1.0, 2.0)),
        "2d-v3": lambda: df.Field(m2(), nvdim=3, value=(1.0, 2.0, 3.0), vdim_mapping={"x": "x", "y": "y", "z": "z"}),
        "2d-v3-nomap": lambda: df.Field(m2(), nvdim=3, value=(1.0, 2.0, 3.0)),
        "2d-v4": lambda: df.Field(m2(), nvdim=4, value=(1.0, 2.0, 3.0, 4.0)),
        "2d-s": lambda: df.Field(m2(), nvdim=1, value=2.0),
    }
    calls = {
        "scalar": lambda f, ax: f.mpl.scalar(ax=ax),
        "contour": lambda f, ax: f.mpl.contour(ax=ax),
        "vector": lambda f, ax: f.mpl.vector(ax=ax),
        "lightness": lambda f, ax: f.mpl.lightness(ax=ax),
        "call": lambda f, ax: f.mpl(ax=ax),
    }
    wrong = []
    for fk in ("3d-scalar", "3d-vector", "1d-scalar"):
        for ck in calls:
            wrong.append((fk, ck))
    for fk in ("2d-v2", "2d-v3", "2d-v4"):
        wrong += [(fk, "scalar"), (fk, "contour")]
    wrong += [("2d-v4", "lightness"), ("2d-v4", "call"), ("2d-s", "vector"), ("2d-v3-nomap", "vector")]
    return mk, calls, wrong


def unit_refuse(ctx):
    mk, calls, wrong = _refusals()
    fk, ck = ctx.choose("case", wrong)
    f = mk[fk]()
    before = C.field_snap(f)
    inst = f"case={fk};plot={ck}"
    fig, ax = new_axes()
    try:
        ctx.step(1, f"{fk}.mpl.{ck}")
        ctx.check()
        raised, e = C.raises(calls[ck], f, ax)
        ctx.observe(raised, type(e).__name__)
        if not raised:
            ctx.fail(f"mpl.{ck}/wrong-field-accepted", f"{fk}: plot was drawn for a field of the wrong spatial or component "
                     "dimension", instance=inst)
        else:
            ctx.note("refused:" + type(e).__name__)
        ctx.check()
        if C.field_snap(f) != before:
            ctx.fail(f"mpl.{ck}/field-modified-by-plotting", f"{fk}: refused plot modified the field", instance=inst)
    finally:
        plt.close("all")


def units(tier):
    return [
        {"name": "scalar", "fn": unit_scalar, "bound": None},
        {"name": "vector", "fn": unit_vector, "bound": None},
        {"name": "lightness", "fn": unit_lightness, "bound": None},
        {"name": "call", "fn": unit_call, "bound": None},
        {"name": "refuse", "fn": unit_refuse, "bound": None},
    ]
