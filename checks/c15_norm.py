"""C15 - setting a norm rescales non-zero vectors only; norm / orientation.

Stateless exploration on the real ``Field.norm`` (getter and setter),
``Field.orientation`` and ``Field(..., norm=...)``: every vector of a
length x direction alphabet (1e-6 ... 1e150, exact zeros, negative components)
is placed in the cells of small meshes (all chunks of the alphabet are
enumerated, so every vector meets every norm specification), every kind of norm
specification is applied through the setter and through the constructor, and
every cell is compared with the exact Euclidean length / direction of the
ACTUAL float vector that was stored.

Units
  set     norm set by constant / (*n,1) array / n-shaped array / list / function / one-component field,
          via setter, constructor, constructor with validity mask; then a value update (no renormalisation)
  get     norm getter (values, one component, mesh, unit, validity), orientation (unit / zero), orientation*norm
  reuse   histories: read / set first, change the values through every public route (in-place writes into field.array,
          array setter, update_field_values), read / set again - the answers belong to the current values
"""
import math
from fractions import Fraction as Fr

import numpy as np

import discretisedfield as df
from mc import common as C

PROPERTY = "C15"
RULE = ("unit set: full product mesh x nvdim x chunk of the vector alphabet x norm-specification kind x target "
        "(4 constants or 4 cyclic per-cell target patterns, zeros in places) x route; unit get: full product mesh x "
        "nvdim x chunk x unit x validity x labels. All cells of the mesh are judged in every execution. An execution "
        "is non-trivial when at least one oracle comparison ran.")
ASSUMPTIONS = [
    "scope: meshes with <= 8 cells in 1-3 dimensions, nvdim 1-4, real float64 fields (default dtype)",
    "vector alphabet per nvdim: exact zero; +-L*e_k for every axis k; L*(3,4,0,..)/5 (also on the last two components), "
    "L*generic mixed-sign direction; L in {1, 1e-6, 1e-3, 5, 1e8, 1e150}; set-unit additionally 5e-9 and 1e-12 (non-zero, so they must get the target length); get-unit additionally 1e-9 (below the 1e-8 "
    "threshold: the orientation must be zero there, as the statement says)",
    "norm setting and norm/orientation are cell-wise: cells do not interact, so enumerating all chunks of the alphabet "
    "(each chunk next to zeros and to other magnitudes) covers all per-cell inputs of the alphabet",
    "targets {1, 2.5, 8e5, 0}; length compared with relative tolerance 1e-12, direction with absolute 1e-12 per "
    "component; zero cells and target 0 are compared exactly",
    "reference lengths are computed in exact rational arithmetic from the float components actually stored",
    "negative or non-finite targets and wrong norm specifications are outside the statement and are not enumerated; "
    "integer-typed (int64, int16 with large values) and complex fields: norm = sqrt(sum |z_i|^2) and orientation = v/|v| "
    "(new fields) are demanded in unit get_int; the norm SETTER is not demanded for them (an integer array could not store "
    "the result)",
]

SHAPES_T = [(1,), (3,), (8,), (2, 2), (2, 4), (1, 3), (2, 2, 2), (1, 2, 3)]
SHAPES_Q = [(3,), (2, 4), (1, 2, 3)]
LENGTHS = [1.0, 1e-6, 1e-3, 5.0, 1e8, 1e150]
TINY = 1e-9
SMALL = [5e-9, 1e-12]  # non-zero vectors shorter than the 1e-8 threshold of ORIENTATION: the norm SETTER must still treat them as non-zero
TARGETS = [1.0, 2.5, 8e5, 0.0]
GENERIC = {1: [], 2: [(-4.0, 3.0)], 3: [(1.0, -2.0, 2.0)], 4: [(1.0, -2.0, 2.0, -4.0)]}
GNORM = {2: 5.0, 3: 3.0, 4: 5.0}


def directions(d):
    out = []
    for k in range(d):
        for s in (1.0, -1.0):
            e = [0.0] * d
            e[k] = s
            out.append(tuple(e))
    if d >= 2:
        v = [0.0] * d
        v[0], v[1] = 3.0 / 5.0, 4.0 / 5.0
        out.append(tuple(v))
    if d >= 3:
        v = [0.0] * d
        v[-2], v[-1] = -4.0 / 5.0, 3.0 / 5.0
        out.append(tuple(v))
    for g in GENERIC[d]:
        out.append(tuple(x / GNORM[d] for x in g))
    return out


def alphabet(d, tiny=False):
    """list of (class, vector); zeros interleaved so that every chunk meets a zero neighbour"""
    vs = []
    for L in LENGTHS + ([TINY] if tiny else SMALL):
        for u in directions(d):
            vs.append(("tiny" if L == TINY else "regular", tuple(L * x for x in u)))
    out = []
    for i, v in enumerate(vs):
        if i % 4 == 0:
            out.append(("zero", tuple([0.0] * d)))
        out.append(v)
    return out


def mk_mesh(n):
    ax = [(-0.3, 0.1), (7.7, 1.0 / 3.0), (-123.456, 2.5)][:len(n)]
    pmin = [a[0] for a in ax]
    pmax = [a[0] + a[1] * k for a, k in zip(ax, n)]
    return df.Mesh(region=df.Region(p1=pmin, p2=pmax), n=n)


def exact_len(v):
    return math.sqrt(float(sum(Fr(float(x)) ** 2 for x in v)))


def fill(n, d, chunk, tiny=False):
    A = alphabet(d, tiny)
    cells = [tuple(int(i) for i in idx) for idx in np.ndindex(*n)]
    arr = np.zeros((*n, d))
    cls = {}
    for j, idx in enumerate(cells):
        c, v = A[(chunk * len(cells) + j) % len(A)]
        arr[idx] = v
        cls[idx] = c
    return arr, cls, cells


def nchunks(n, d, tiny=False):
    return -(-len(alphabet(d, tiny)) // int(np.prod(n)))


def decode(mesh, p):
    p = np.asarray(p, dtype=float).reshape(-1)
    pmin = np.asarray(mesh.region.pmin, dtype=float)
    cell = (np.asarray(mesh.region.pmax, dtype=float) - pmin) / np.asarray(mesh.n)
    idx = np.clip(np.floor((p - pmin) / cell).astype(int), 0, np.asarray(mesh.n) - 1)
    return tuple(int(i) for i in idx)


SPEC_KINDS = ["const", "const-int", "array-n1", "array-n", "list-n", "function", "function-ndarray", "field"]


def unit_set(ctx):
    quick = ctx.tier == "quick"
    n = ctx.choose("n", SHAPES_Q if quick else SHAPES_T)
    d = ctx.choose("nvdim", [1, 3] if quick else [1, 2, 3, 4])
    chunk = ctx.choose("chunk", list(range(nchunks(n, d))))
    kind = ctx.choose("spec", SPEC_KINDS)
    tsel = ctx.choose("target", [0, 1, 2, 3])
    # "setter-valid": the norm is set on a field that already carries a validity mask flagging non-zero cells invalid:
    # "every cell whose vector was non-zero" has no exception for cells that are not valid
    route = ctx.choose("route", ["setter", "ctor", "ctor-valid", "setter-valid"])
    mesh = mk_mesh(n)
    arr, cls, cells = fill(n, d, chunk)
    # targets per cell
    T = np.zeros(n)
    for j, idx in enumerate(cells):
        T[idx] = TARGETS[tsel] if kind.startswith("const") else TARGETS[(j + tsel) % 4]
    if kind == "const":
        spec = float(TARGETS[tsel])
    elif kind == "const-int":
        if TARGETS[tsel] != int(TARGETS[tsel]):
            spec = float(TARGETS[tsel])
        else:
            spec = int(TARGETS[tsel])
    elif kind == "array-n1":
        spec = T.reshape(*n, 1).copy()
    elif kind == "array-n":
        spec = T.copy()
    elif kind == "list-n":
        spec = T.tolist()
    elif kind == "function":
        spec = lambda p: float(T[decode(mesh, p)])  # noqa: E731
    elif kind == "function-ndarray":
        spec = lambda p: np.array([T[decode(mesh, p)]])  # noqa: E731
    else:
        spec = df.Field(mesh, nvdim=1, value=T.reshape(*n, 1).copy())
    valid = C.coded_mask(n, k=2)
    given = arr.copy()
    if route == "setter":
        f = df.Field(mesh, nvdim=d, value=given, unit="A/m")
        ctx.step(1, f"field.norm = <{kind}>")
        f.norm = spec
        expvalid = np.ones(n, dtype=bool)
    elif route == "setter-valid":
        f = df.Field(mesh, nvdim=d, value=given, valid=valid.copy(), unit="A/m")
        ctx.step(1, f"masked field.norm = <{kind}>")
        f.norm = spec
        expvalid = valid
    elif route == "ctor":
        ctx.step(1, f"Field(value=..., norm=<{kind}>)")
        f = df.Field(mesh, nvdim=d, value=given, norm=spec, unit="A/m")
        expvalid = np.ones(n, dtype=bool)
    else:
        ctx.step(1, f"Field(value=..., norm=<{kind}>, valid=mask)")
        f = df.Field(mesh, nvdim=d, value=given, norm=spec, valid=valid.copy(), unit="A/m")
        expvalid = valid
    got = f.array
    ctx.observe(got)
    inst = ctx.key()
    ctx.check()
    if got.shape != (*n, d):
        ctx.fail("Field.norm-set/array-shape", f"array shape {got.shape} expected {(*n, d)}", instance=inst)
        return
    ctx.check()
    if not C.same_bytes(given, arr):
        ctx.fail("Field.norm-set/value-specification-modified", "the array given as value was changed", instance=inst)
    if route in ("ctor-valid", "setter-valid"):
        ctx.check()
        if not np.array_equal(np.asarray(f.valid).astype(bool), expvalid):
            ctx.fail("Field.norm-set/validity-not-as-given", "validity passed with norm= is not the one stored", instance=inst)
    seen = set()
    for idx in cells:
        v = arr[idx]
        w = got[idx]
        t = float(T[idx])
        ctx.check()
        if cls[idx] == "zero":
            if np.any(w != 0):
                if "zero" not in seen:
                    ctx.fail("Field.norm-set/zero-cell-not-zero", f"cell {idx}: zero vector became {w.tolist()} (target {t})",
                             instance=inst)
                seen.add("zero")
            continue
        if t == 0.0:
            if np.any(w != 0) and "t0" not in seen:
                seen.add("t0")
                ctx.fail("Field.norm-set/target-zero-not-zero", f"cell {idx}: {v.tolist()} with norm 0 became {w.tolist()}",
                         instance=inst)
            continue
        L0 = exact_len(v)
        L1 = exact_len(w) if np.all(np.isfinite(w)) else float("nan")
        if not abs(L1 - t) <= 1e-12 * t:
            if "len" not in seen:
                ctx.fail("Field.norm-set/length-is-not-the-target",
                         f"cell {idx}: {v.tolist()} -> {w.tolist()} has length {L1!r}, target {t!r}", instance=inst)
            seen.add("len")
            continue
        ctx.check()
        u0 = np.array([float(Fr(float(x)) / Fr(L0)) for x in v])
        u1 = w / L1
        if not np.all(np.abs(u1 - u0) <= 1e-12):
            if "dir" not in seen:
                ctx.fail("Field.norm-set/direction-changed",
                         f"cell {idx}: {v.tolist()} -> {w.tolist()}: unit vector {u1.tolist()} was {u0.tolist()}",
                         instance=inst)
            seen.add("dir")
    # a later value update is not renormalised
    new = C.tracer(n, d, ctx.seed) - 3.0  # contains an exact zero component and negative values
    upd = ctx.choose("update", ["array", "constant", "function"])
    if upd == "array":
        ctx.step(1, "update_field_values(array)")
        f.update_field_values(new.copy())
        exp = new
    elif upd == "constant":
        const = tuple(float(x) for x in new[tuple(0 for _ in n)])
        ctx.step(1, "update_field_values(constant)")
        f.update_field_values(const if d > 1 else const[0])
        exp = np.broadcast_to(np.array(const), (*n, d))
    else:
        ctx.step(1, "update_field_values(function)")
        f.update_field_values(lambda p: tuple(float(x) for x in new[decode(mesh, p)]))
        exp = new
    ctx.observe(f.array)
    ctx.check()
    if f.array.shape != exp.shape or not np.array_equal(f.array, exp):
        w = (np.argwhere(~(f.array == exp))[0] if f.array.shape == exp.shape else [])
        w = tuple(int(i) for i in w[:-1])
        ctx.fail("Field.update_field_values/earlier-norm-reapplied-or-value-wrong",
                 f"after norm=<{kind}> update_field_values(<{upd}>) stored "
                 f"{f.array[w].tolist() if w or f.array.shape == exp.shape else f.array.shape} in cell {w}, the new "
                 f"value there is {np.asarray(exp)[w].tolist()}")


def unit_get(ctx):
    quick = ctx.tier == "quick"
    n = ctx.choose("n", SHAPES_Q if quick else SHAPES_T)
    d = ctx.choose("nvdim", [1, 3] if quick else [1, 2, 3, 4])
    chunk = ctx.choose("chunk", list(range(nchunks(n, d, tiny=True))))
    unit = ctx.choose("unit", [None, "A/m"])
    vmask = ctx.choose("valid", ["all", "coded"])
    labels = ctx.choose("vdims", ["default", "custom"])
    mesh = mk_mesh(n)
    arr, cls, cells = fill(n, d, chunk, tiny=True)
    valid = np.ones(n, dtype=bool) if vmask == "all" else C.coded_mask(n, k=3)
    vd = None if labels == "default" else ["p", "q", "r", "s"][:d]
    f = df.Field(mesh, nvdim=d, value=arr.copy(), unit=unit, valid=valid.copy(), vdims=vd)
    before = C.field_snap(f)
    inst = ctx.key()
    # ---- norm
    ctx.step(1, "field.norm")
    nf = f.norm
    ctx.check()
    if not isinstance(nf, df.Field) or nf.nvdim != 1 or nf.array.shape != (*n, 1):
        ctx.fail("Field.norm/not-a-one-component-field",
                 f"norm is {type(nf).__name__} nvdim={getattr(nf, 'nvdim', None)} shape={getattr(getattr(nf, 'array', None), 'shape', None)}",
                 instance=inst)
        return
    ctx.observe(nf.array)
    ctx.check(3)
    if not nf.mesh == f.mesh:
        ctx.fail("Field.norm/other-mesh", "norm is not defined on the field's mesh", instance=inst)
    if nf.unit != f.unit:
        ctx.fail("Field.norm/unit-not-kept", f"norm unit {nf.unit!r}, field unit {f.unit!r}", instance=inst)
    if np.asarray(nf.valid).shape != valid.shape or not np.array_equal(np.asarray(nf.valid).astype(bool), valid):
        ctx.fail("Field.norm/validity-not-kept", "validity of the norm differs from the field's", instance=inst)
    bad = False
    for idx in cells:
        L = exact_len(arr[idx])
        g = float(nf.array[idx][0])
        ctx.check()
        if cls[idx] == "zero":
            ok = g == 0.0
        else:
            ok = abs(g - L) <= 1e-12 * L
        if not ok and not bad:
            bad = True
            ctx.fail("Field.norm/not-the-euclidean-length", f"cell {idx}: {arr[idx].tolist()} norm {g!r} expected {L!r}",
                     instance=inst)
    # ---- orientation
    ctx.step(1, "field.orientation")
    of = f.orientation
    ctx.check()
    if not isinstance(of, df.Field) or of.array.shape != (*n, d):
        ctx.fail("Field.orientation/shape", f"orientation is {type(of).__name__} with array shape "
                 f"{getattr(getattr(of, 'array', None), 'shape', None)}", instance=inst)
        return
    ctx.observe(of.array)
    seen = set()
    for idx in cells:
        v = arr[idx]
        o = np.asarray(of.array[idx], dtype=float)
        ctx.check()
        if cls[idx] == "zero":
            if np.any(o != 0) and "z" not in seen:
                seen.add("z")
                ctx.fail("Field.orientation/non-zero-on-zero-cell", f"cell {idx}: orientation {o.tolist()} of a zero vector",
                         instance=inst)
            continue
        L = exact_len(v)
        u = np.array([float(Fr(float(x)) / Fr(L)) for x in v])
        unit_ok = bool(np.all(np.abs(o - u) <= 1e-12))
        if cls[idx] == "tiny":
            # "lengths up to the library's absolute 1e-8 threshold count as zero there": the orientation is zero
            if np.any(o != 0) and "t" not in seen:
                seen.add("t")
                ctx.fail("Field.orientation/vector-below-the-threshold-not-treated-as-zero",
                         f"cell {idx}: {v.tolist()} (length 1e-9 <= 1e-8) has orientation {o.tolist()}, expected zero", instance=inst)
            continue
        if not unit_ok:
            if "u" not in seen:
                seen.add("u")
                lo = exact_len(o) if np.all(np.isfinite(o)) else float("nan")
                ctx.fail("Field.orientation/not-the-unit-vector",
                         f"cell {idx}: {v.tolist()} (length {L!r}) has orientation {o.tolist()} of length {lo!r}",
                         instance=inst)
            continue
        # orientation * norm reproduces the field
        ctx.check()
        rec = o * float(nf.array[idx][0])
        if not np.all(np.abs(rec - v) <= 1e-12 * L) and "r" not in seen:
            seen.add("r")
            ctx.fail("Field.orientation/orientation-times-norm-differs-from-field",
                     f"cell {idx}: {o.tolist()} * {float(nf.array[idx][0])!r} = {rec.tolist()} but the field holds {v.tolist()}",
                     instance=inst)
    ctx.check()
    if C.field_snap(f) != before:
        ctx.fail("Field.norm-get/field-modified", "reading norm / orientation changed the field", instance=inst)

INT_VECS = {1: [(3,), (0,), (-2,), (7,)], 2: [(3, 4), (0, 0), (-5, 12), (0, -2)], 3: [(3, 4, 0), (0, 0, 0), (1, -2, 2), (0, 0, -7)],
            4: [(1, -2, 2, -4), (0, 0, 0, 0), (0, 3, 0, 4), (5, 0, 0, 0)]}


def unit_get_int(ctx):
    """integer-typed fields (a field of counts or lattice vectors stored with dtype=int): norm and orientation are derived
    NEW fields, so they exist and are the Euclidean length / the unit vector just as for the float field with the same
    values (the norm SETTER would have to store non-integers in an integer array and is not demanded here)"""
    n = ctx.choose("n", [(4,), (2, 2)])
    d = ctx.choose("nvdim", [1, 2, 3, 4])
    rot = ctx.choose("first-vector", [0, 1, 2, 3])
    dt = ctx.choose("dtype", ["int64", "int16-large-values", "complex"])
    mesh = mk_mesh(n)
    cells = [tuple(int(i) for i in idx) for idx in np.ndindex(*n)]
    arr = np.zeros((*n, d), dtype=int)
    for j, idx in enumerate(cells):
        arr[idx] = INT_VECS[d][(j + rot) % 4]
    if dt == "int64":
        f = df.Field(mesh, nvdim=d, value=arr.copy(), dtype=int)
    elif dt == "int16-large-values":
        arr = arr * 100                       # squares exceed the int16 range, the lengths do not
        f = df.Field(mesh, nvdim=d, value=arr.astype(np.int16), dtype=np.int16)
    else:
        # every second component purely imaginary: the Euclidean length is sqrt(sum |z|^2) (e.g. |(3, 4i, 0)| = 5,
        # although the plain squares 9 - 16 do not even sum to a positive number)
        ph = np.where(np.arange(d) % 2 == 1, 1j, 1.0)
        arr = arr * ph
        f = df.Field(mesh, nvdim=d, value=arr.copy(), dtype=complex)
    inst = ctx.key()
    ctx.step(2, f"norm, orientation of a {dt}-typed field")
    nf, of = f.norm.array, f.orientation.array
    ctx.observe(nf, of)
    for idx in cells:
        v = arr[idx].astype(complex if dt == "complex" else float)
        L = math.sqrt(float(sum(Fr(float(abs(x.real))) ** 2 + Fr(float(abs(x.imag))) ** 2 for x in np.atleast_1d(v).astype(complex))))
        ctx.check(2)
        g = complex(nf[idx][0])
        if not (g == 0.0 if L == 0 else abs(g - L) <= 1e-12 * L):
            ctx.fail(f"Field.norm/not-the-euclidean-length/{dt}-field", f"cell {idx}: {v.tolist()} norm {nf[idx][0]!r} "
                     f"expected {L!r}", instance=inst)
            return
        exp = v / L if L else v
        if not np.all(np.abs(np.asarray(of[idx], dtype=complex) - exp) <= 1e-12):
            ctx.fail(f"Field.orientation/not-the-unit-vector/{dt}-field", f"cell {idx}: {v.tolist()} orientation "
                     f"{np.asarray(of[idx]).tolist()} expected {np.asarray(exp).tolist()}", instance=inst)
            return


def _state_ok(ctx, f, tag, inst):
    """norm / orientation / norm setter against the values the field holds NOW"""
    cur = np.array(f.array, dtype=float)
    n = cur.shape[:-1]
    cells = [tuple(int(i) for i in idx) for idx in np.ndindex(*n)]
    ctx.step(2, f"{tag}: norm, orientation")
    nf, of = f.norm.array, f.orientation.array
    ctx.observe(nf, of)
    for idx in cells:
        v = cur[idx]
        L = exact_len(v)
        ctx.check(2)
        g = float(nf[idx][0])
        if not (g == 0.0 if L == 0 else abs(g - L) <= 1e-12 * L):
            ctx.fail(f"reuse/{tag}/norm-not-the-length-of-the-current-values",
                     f"cell {idx} holds {v.tolist()} (length {L!r}) but norm says {g!r}", instance=inst)
            return False
        o = np.asarray(of[idx], dtype=float)
        if L == 0:
            ok = not np.any(o != 0)
        elif L > 1.1e-8:
            ok = bool(np.all(np.abs(o - v / L) <= 1e-12))
        else:
            ok = True
        if not ok:
            ctx.fail(f"reuse/{tag}/orientation-not-the-unit-vector-of-the-current-values",
                     f"cell {idx} holds {v.tolist()} but orientation says {o.tolist()}", instance=inst)
            return False
    ctx.step(1, f"{tag}: norm = 2.5")
    f.norm = 2.5
    new = np.array(f.array, dtype=float)
    for idx in cells:
        v, w = cur[idx], new[idx]
        L = exact_len(v)
        ctx.check()
        if L == 0:
            ok = not np.any(w != 0)
        else:
            L1 = exact_len(w) if np.all(np.isfinite(w)) else float("nan")
            ok = abs(L1 - 2.5) <= 2.5e-12 and bool(np.all(np.abs(w / 2.5 - v / L) <= 1e-12))
        if not ok:
            ctx.fail(f"reuse/{tag}/norm-set-wrong-for-the-current-values",
                     f"cell {idx} held {v.tolist()}, after norm = 2.5 it holds {w.tolist()}", instance=inst)
            return False
    return True


def unit_reuse(ctx):
    """Non-initial states: the norm / orientation are read (or a norm is set) FIRST, then the values are changed through
    every public route (in-place element and slice writes into field.array, the array setter, update_field_values),
    then everything is read / set again: the answers must belong to the values the field holds at that moment."""
    n = ctx.choose("n", [(3,), (2, 2), (1, 2, 3)] if ctx.tier == "quick" else [(1,), (3,), (8,), (2, 2), (1, 3), (1, 2, 3), (2, 2, 2)])
    d = ctx.choose("nvdim", [1, 3] if ctx.tier == "quick" else [1, 2, 3, 4])
    first = ctx.choose("first", ["norm", "orientation", "norm+orientation", "set-norm", "nothing"])
    change = ctx.choose("change", ["array[cell] = v", "array[..., k] *= 10", "array[...] = 0 then one cell", "array = new",
                                   "update_field_values", "none"])
    second = ctx.choose("again", ["nothing", "norm", "orientation"])
    mesh = mk_mesh(n)
    arr = C.tracer(n, d, ctx.seed) - 2.0  # integers, one exact zero component somewhere, negative values
    arr[tuple(0 for _ in n)] = 0.0          # one exact zero cell
    f = df.Field(mesh, nvdim=d, value=arr.copy(), unit="A/m")
    inst = ctx.key()

    def read(what):
        if "norm" in what and "set" not in what:
            ctx.step(1, "norm")
            f.norm
        if "orientation" in what:
            ctx.step(1, "orientation")
            f.orientation
        if what == "set-norm":
            ctx.step(1, "norm = 4")
            f.norm = 4.0

    read(first)
    last = tuple(k - 1 for k in n)
    if change == "array[cell] = v":
        f.array[last] = np.arange(3.0, 3.0 + d)
    elif change == "array[..., k] *= 10":
        f.array[..., d - 1] *= 10.0
    elif change == "array[...] = 0 then one cell":
        f.array[...] = 0.0
        f.array[last] = -7.0
    elif change == "array = new":
        f.array = (arr[::-1] * 3.0 + 1.0).copy()
    elif change == "update_field_values":
        f.update_field_values((arr * -2.0 + 5.0).copy())
    ctx.step(1, change)
    read(second)
    _state_ok(ctx, f, "after-change" if change != "none" else "second-use", inst)


def unit_provenance(ctx):
    """fields with a past: values handed over as float32 / float16 arrays, or read back from a 4-byte binary OVF file, an
    HDF5 file, or produced by an operator; the norm, the orientation and the norm setter keep their 1e-12 accuracy with
    respect to the values the field actually holds (no hidden low-precision arithmetic)"""
    import os
    import shutil
    import tempfile
    src = ctx.choose("values-come-from", ["float32-array", "float16-array", "ovf-bin4", "ovf-txt", "hdf5", "negation", "sel"])
    d = ctx.choose("nvdim", [3, 1])
    n = (2, 2, 3)
    mesh = df.Mesh(p1=(0, 0, 0), p2=(2e-9, 2e-9, 3e-9), n=n)
    base = (C.tracer(n, d, ctx.seed) * 37.0 - 150.0)            # a few hundred: squares overflow float16, lengths do not
    base[0, 0, 0] = 0.0
    tmp = tempfile.mkdtemp(dir="/dev/shm", prefix="c15_")
    try:
        if src == "float32-array":
            f = df.Field(mesh, nvdim=d, value=base.astype(np.float32))
        elif src == "float16-array":
            f = df.Field(mesh, nvdim=d, value=base.astype(np.float16))
        elif src in ("ovf-bin4", "ovf-txt"):
            p = os.path.join(tmp, "a.ovf")
            df.Field(mesh, nvdim=d, value=base).to_file(p, representation=src.split("-")[1])
            f = df.Field.from_file(p)
        elif src == "hdf5":
            p = os.path.join(tmp, "a.h5")
            df.Field(mesh, nvdim=d, value=base).to_file(p)
            f = df.Field.from_file(p)
        elif src == "negation":
            f = -df.Field(mesh, nvdim=d, value=base)
        else:
            f = df.Field(mesh, nvdim=d, value=base).sel(x=(0.0, 2e-9))
    finally:
        shutil.rmtree(tmp, ignore_errors=True)
    _state_ok(ctx, f, f"values-from-{src}", ctx.key())


def unit_long_mesh(ctx):
    """meshes with 2^16 and 2^17 cells, one more and one fewer: whatever is computed in blocks, EVERY cell has its Euclidean
    length as norm, unit length as orientation, and the requested length after the norm is set (the last cells included)"""
    ncell = ctx.choose("cells", [65535, 65536, 65537, 131073, 70000])
    layout = ctx.choose("layout", ["1-d", "3-d (n, 1, 1)", "2-d (1, n)"])
    d = ctx.choose("nvdim", [3, 1])
    n = {"1-d": (ncell,), "3-d (n, 1, 1)": (ncell, 1, 1), "2-d (1, n)": (1, ncell)}[layout]
    mesh = df.Mesh(region=df.Region(p1=[0.0] * len(n), p2=[float(k) for k in n]), n=n)
    idx = np.arange(ncell, dtype=float).reshape(n)
    arr = np.stack([(idx % 7) - 3.0 + 0.5 * c for c in range(d)], axis=-1)   # no zero vector for d = 3; zeros for d = 1? no: +-0.5 steps
    arr[..., 0] = np.where(np.abs(arr).sum(axis=-1) == 0, 1.0, arr[..., 0])
    f = df.Field(mesh, nvdim=d, value=arr.copy(), unit="A/m")
    ref = np.sqrt(np.sum(arr * arr, axis=-1))
    inst = ctx.key()
    ctx.step(1, "norm")
    got = np.asarray(f.norm.array)[..., 0]
    ctx.check()
    if got.shape != ref.shape or C.gt(np.abs(got - ref), 1e-12 * ref):
        bad = np.argwhere(~(np.abs(got - ref) <= 1e-12 * ref)) if got.shape == ref.shape else []
        ctx.fail("Field.norm/long-mesh/not-the-euclidean-length", f"n={n}: {len(bad)} cells wrong, first {bad[0].tolist() if len(bad) else '?'} "
                 f"(got {got[tuple(bad[0])] if len(bad) else '?'}, length {ref[tuple(bad[0])] if len(bad) else '?'})", instance=inst)
        return
    ctx.step(1, "orientation")
    o = np.asarray(f.orientation.array)
    ctx.check()
    if C.gt(np.abs(np.sqrt(np.sum(o * o, axis=-1)) - 1.0), 1e-12):
        ctx.fail("Field.orientation/long-mesh/not-unit-length", f"n={n}", instance=inst)
        return
    ctx.step(1, "norm = 2.5")
    f.norm = 2.5
    a2 = np.asarray(f.array)
    ctx.check()
    ctx.observe(n, d)
    if C.gt(np.abs(np.sqrt(np.sum(a2 * a2, axis=-1)) - 2.5), 1e-12 * 2.5) or C.gt(np.abs(a2 * ref[..., None] - 2.5 * arr), 1e-11 * np.abs(arr).max()):
        ctx.fail("Field.norm-set/long-mesh/length-or-direction-wrong", f"n={n}", instance=inst)


def units(tier):
    return [
        {"name": "set", "fn": unit_set, "bound": None},
        {"name": "get", "fn": unit_get, "bound": None},
        {"name": "get_int", "fn": unit_get_int, "bound": None},
        {"name": "reuse", "fn": unit_reuse, "bound": None},
        {"name": "provenance", "fn": unit_provenance, "bound": None},
        {"name": "long_mesh", "fn": unit_long_mesh, "bound": None},
    ]
