"""C11 - field FFTs are the DFT at the k-mesh's frequencies.

Stateless exploration over ALL shapes (every n-tuple over a count alphabet, 1-4
dimensions, so every mix of even, odd and single-cell axes), mesh position,
anisotropic cell sets, real/complex data and the four transform kinds:

  kmesh    Mesh.fftn / Mesh.ifftn: k-cell centres against the exact shifted
           DFT sample frequencies (Fractions), counts, names, units, and the
           way back (cell, counts, centred at the origin, names, units).
  dft      Field.fftn / Field.rfftn on the complete impulse basis (components
           in groups of <= 4) against the O(N^2) sum  sum_r v(r) exp(-2 pi i k.r)
           with k = the k-cell centres the library reports and r counted from
           the first cell; tracer fields with 1-4 components against the
           measured impulse matrix (linearity, per component), zero-frequency
           cell = plain sum, real transform = matching half of the full one.
  inverse  ifftn(fftn(f)), irfftn(rfftn(f), shape in every accepted form),
           fftn(ifftn(g)): values to rounding, mesh of the original cell size
           and counts centred at the origin, names and units back.
  labels   component names and the component->axis mapping through all four
           transforms for every label/mapping kind.
"""
from fractions import Fraction as Fr
import itertools

import numpy as np

import discretisedfield as df
from mc import common as C

PROPERTY = "C11"
RULE = ("units kmesh/dft/inverse: full product ndim x every n-tuple over the count alphabet x position x cell set "
        "(x rfft x names x units | x real/complex | x transform pair and shape form); unit labels: full product "
        "ndim x nvdim x label kind x dims x transform. An execution is non-trivial when at least one oracle "
        "comparison ran on a value returned by the library.")
ASSUMPTIONS = [
    "scope quick: counts 1-D 1..8, 2-D 1..5, 3-D 1..4, 4-D 1..3; thorough: 1-D 1..16, 2-D 1..8, 3-D 1..6, 4-D 1..4 "
    "(every tuple, so every mix of even/odd/single-cell axes)",
    "all real/complex field values are covered by linearity: the transforms have no value-dependent branch, they are "
    "evaluated on the complete impulse basis (amplitudes 1 and, for complex data, 1j) and additivity/homogeneity are "
    "re-checked on seeded tracer fields with 1, 2, 3 and 4 components",
    "k-cell centres are compared with the exact rational frequencies j/(n*cell) (cell = the mesh's own float cell) with "
    "tolerance 16 ulp(1/cell); spectra with 1e-12*N*max|v|; round trips with 1e-12*max|v|; cell sizes 1e-12 relative; "
    "'centred at the origin' with 1e-12*edge",
    "tracer fields carry a coded validity mask whose invalid cells hold non-zero values: validity is not part of the "
    "transform (the statement sums over all real-space cells)",
    "the real transform is only applied to real data (the real transform of complex data is not defined); without an "
    "explicit shape the real inverse is only required to recover even last-axis counts (the statement grants this)",
    "naming: k-dims are compared with the documented 'k_<dim>'; k-units only behaviourally (differ from the original, "
    "contain it, distinct units stay distinct, the inverse restores them); component names with the documented "
    "'ft_<vdim>'; mapping values must name the k-axis at the same position as the axis they named before",
]

TWO_PI = 2.0 * np.pi

CELLSETS = {
    "unit": (1.0, 0.5, 2.0, 0.25),
    "nano": (2e-9, 1e-9, 5e-9, 3e-9),
    "nonrep": (0.1, 0.3, 1.0 / 3.0, 0.7),
}
POSITIONS = {  # offsets of pmin in units of the cell
    "origin": (0.0, 0.0, 0.0, 0.0),
    "offset": (0.3, -1.0, 5.0, -7.7),
    "far": (1e4 + 0.1, -123.456, 1.0 / 3.0, 7.7),
}


def _lim(tier):
    return {1: 8, 2: 5, 3: 4, 4: 3} if tier == "quick" else {1: 16, 2: 8, 3: 6, 4: 4}


def _shapes(tier, ndim):
    m = _lim(tier)[ndim]
    return sorted(itertools.product(range(1, m + 1), repeat=ndim), key=lambda t: (int(np.prod(t)), t))


def _cellsets(tier):
    return ["unit", "nano"] if tier == "quick" else ["unit", "nano", "nonrep"]


def _positions(tier):
    return ["origin", "offset"] if tier == "quick" else ["origin", "offset", "far"]


def _mesh(n, pos, cells, dims=None, units=None):
    ndim = len(n)
    cell = CELLSETS[cells][:ndim]
    off = POSITIONS[pos][:ndim]
    p1 = [o * c for o, c in zip(off, cell)]
    p2 = [a + k * c for a, k, c in zip(p1, n, cell)]
    return df.Mesh(region=df.Region(p1=p1, p2=p2, dims=dims, units=units), n=n)


def _centres(mesh):
    """the library's own cell centres, per axis"""
    return [np.asarray(mesh.cells[a], dtype=float) for a in range(mesh.region.ndim)]


def _ref_freqs(n, d, half):
    """exact DFT sample frequencies in k-mesh order (shifted; the non-negative half if ``half``)"""
    d = Fr(float(d))
    if half:
        return [Fr(m) / (n * d) for m in range(n // 2 + 1)]
    return [Fr(i - n // 2) / (n * d) for i in range(n)]


def _check_kmesh(ctx, km, mesh, rfft, site):
    """k-mesh of ``mesh``: counts and centres per axis.  Violations are keyed per axis (count, cell, half)
    so that the same axis fails under the same instance whatever the other axes are."""
    ndim = mesh.region.ndim
    n = [int(i) for i in mesh.n]
    ctx.check()
    if km.region.ndim != ndim:
        ctx.fail(f"{site}/k-mesh-ndim", f"k-mesh has {km.region.ndim} axes, mesh {ndim}")
        return False
    ok = True
    cen = _centres(km)
    for a in range(ndim):
        half = rfft and a == ndim - 1
        ref = _ref_freqs(n[a], mesh.cell[a], half)
        inst = f"axis-count={n[a]};cell={float(mesh.cell[a])!r};half={half}"
        ctx.check()
        if int(km.n[a]) != len(ref):
            ctx.fail(f"{site}/k-count", f"axis {a}: {int(km.n[a])} k-cells, expected {len(ref)}", instance=inst)
            ok = False
            continue
        tol = 16 * C.ulp(1.0 / float(mesh.cell[a]))
        got = cen[a]
        bad = [i for i in range(len(ref)) if abs(Fr(float(got[i])) - ref[i]) > tol]
        if bad:
            ok = False
            i = bad[0]
            if n[a] == 1:
                # classify: the known wrong value is 1/(2 cell)
                cls = "centre-at-half-inverse-cell" if abs(got[0] * 2 * float(mesh.cell[a]) - 1) < 1e-9 else "other"
                ctx.fail(f"{site}/k-centre-not-dft-frequency/single-cell-axis/{cls}",
                         f"axis {a} has one cell of size {float(mesh.cell[a])!r}: k-cell centre {got[0]!r}, the DFT "
                         f"frequency of one sample is 0", instance=inst)
            else:
                ctx.fail(f"{site}/k-centre-not-dft-frequency",
                         f"axis {a} (n={n[a]}, cell={float(mesh.cell[a])!r}, half={half}): centre[{i}]={got[i]!r}, "
                         f"expected {float(ref[i])!r}; all: {got.tolist()}", instance=inst)
    return ok


# --------------------------------------------------------------------------
# unit kmesh

DIMS = {
    "default": None,
    "renamed": {1: ("a",), 2: ("a", "b"), 3: ("a", "b", "c"), 4: ("a", "b", "c", "d")},
    "permuted": {1: ("y",), 2: ("y", "x"), 3: ("z", "x", "y"), 4: ("t", "z", "x", "y")},
}


def _dims(kind, ndim):
    return None if DIMS[kind] is None else DIMS[kind][ndim]


def _check_names_forward(ctx, km, mesh, site):
    dims, kd = list(mesh.region.dims), list(km.region.dims)
    ctx.check()
    if kd != [f"k_{d}" for d in dims]:
        ctx.fail(f"{site}/k-dims", f"dims {dims} -> {kd}, documented k_<dim>", instance=f"dims={dims}")
    u, ku = list(mesh.region.units), list(km.region.units)
    ctx.check()
    okc = all(isinstance(b, str) and b != a and a in b for a, b in zip(u, ku))
    inj = all((ku[i] == ku[j]) == (u[i] == u[j]) for i in range(len(u)) for j in range(len(u)))
    if len(ku) != len(u) or not okc or not inj:
        ctx.fail(f"{site}/k-units", f"units {u} -> {ku}: not reciprocal units of the same axes", instance=f"units={u}")


def _check_back(ctx, back, mesh, site, inst=None):
    """``back`` must have the counts and cell of ``mesh``, be centred at the origin, carry its names and units"""
    ndim = mesh.region.ndim
    ctx.check(3)
    if [int(i) for i in back.n] != [int(i) for i in mesh.n]:
        ctx.fail(f"{site}/counts", f"counts {back.n.tolist()} instead of {mesh.n.tolist()}", instance=inst)
        return False
    ok = True
    for a in range(ndim):
        if C.gt(abs(back.cell[a] - mesh.cell[a]), 1e-12 * abs(mesh.cell[a])):
            ctx.fail(f"{site}/cell", f"axis {a}: cell {back.cell[a]!r} instead of {mesh.cell[a]!r}", instance=inst)
            ok = False
        edge = float(mesh.n[a]) * float(mesh.cell[a])
        c = 0.5 * (back.region.pmin[a] + back.region.pmax[a])
        if C.gt(abs(c), 1e-12 * edge):
            ctx.fail(f"{site}/not-centred-at-origin", f"axis {a}: centre {c!r} (edge {edge!r})", instance=inst)
            ok = False
    ctx.check(2)
    if list(back.region.dims) != list(mesh.region.dims):
        ctx.fail(f"{site}/dims-not-restored", f"{list(mesh.region.dims)} -> {list(back.region.dims)}", instance=inst)
        ok = False
    if list(back.region.units) != list(mesh.region.units):
        ctx.fail(f"{site}/units-not-restored", f"{list(mesh.region.units)} -> {list(back.region.units)}", instance=inst)
        ok = False
    return ok


def unit_kmesh(ctx):
    ndim = ctx.choose("ndim", [1, 2, 3, 4])
    n = ctx.choose("n", _shapes(ctx.tier, ndim))
    rfft = ctx.choose("rfft", [False, True])
    pos = ctx.choose("pos", _positions(ctx.tier))
    cells = ctx.choose("cells", _cellsets(ctx.tier))
    dk = ctx.choose("dims", ["default", "renamed", "permuted"])
    uk = ctx.choose("units", ["m", "distinct"])
    units = None if uk == "m" else C.UNITS_DISTINCT[:ndim]
    mesh = _mesh(n, pos, cells, dims=_dims(dk, ndim), units=units)
    before = C.mesh_snap(mesh)
    ctx.step(1, f"Mesh.fftn(rfft={rfft}) n={n}")
    km = mesh.fftn(rfft=rfft)
    ctx.observe(km.n, km.region.pmin, km.region.pmax, tuple(km.region.dims), tuple(km.region.units))
    _check_kmesh(ctx, km, mesh, rfft, "Mesh.fftn")
    _check_names_forward(ctx, km, mesh, "Mesh.fftn")
    ctx.check()
    if C.mesh_snap(mesh) != before:
        ctx.fail("Mesh.fftn/operand-modified", "the mesh was changed by fftn")
    # the way back
    forms = [("tuple", tuple(n)), ("list", list(n)), ("ndarray", np.array(n))]
    if ndim == 1:
        forms.append(("int", int(n[0])))
    if not rfft or n[-1] % 2 == 0:
        forms.insert(0, ("none", None))
    if not rfft:
        forms = forms[:1]  # the shape argument belongs to the real transform
    kbefore = C.mesh_snap(km)
    for fname, shape in forms:
        ctx.step(1, f"Mesh.ifftn(rfft={rfft}, shape={fname})")
        back = km.ifftn(rfft=rfft, shape=shape)
        ctx.observe(back.n, back.region.pmin, back.region.pmax, tuple(back.region.dims))
        _check_back(ctx, back, mesh, f"Mesh.ifftn/shape-{'given' if shape is not None else 'none'}",
                    inst=ctx.key(drop=("pos",)) + f";form={fname}")
    ctx.check()
    if C.mesh_snap(km) != kbefore:
        ctx.fail("Mesh.ifftn/operand-modified", "the k-mesh was changed by ifftn")


# --------------------------------------------------------------------------
# unit dft


def _dft_matrix(kcen, n, cell):
    """E[(k...),(j...)] = exp(-2 pi i sum_a k_a * j_a*cell_a), C-order flattening on both sides"""
    E = np.ones((1, 1), dtype=complex)
    for a in range(len(n)):
        r = np.arange(n[a], dtype=float) * float(cell[a])
        Ea = np.exp(-1j * TWO_PI * np.outer(kcen[a], r))
        E = np.kron(E, Ea)
    return E


def _impulse_matrix(ctx, mesh, transform, amp, N):
    """measured matrix: column j = transform of amp*e_j (components in groups of <= 4); also the k-mesh"""
    n = tuple(int(i) for i in mesh.n)
    cols = []
    km = None
    for j0 in range(0, N, 4):
        js = list(range(j0, min(j0 + 4, N)))
        arr = np.zeros((N, len(js)), dtype=complex if amp != 1 else float)
        for c, j in enumerate(js):
            arr[j, c] = amp
        f = df.Field(mesh, nvdim=len(js), value=arr.reshape(*n, len(js)), dtype=arr.dtype)
        ctx.step(1)
        F = getattr(f, transform)()
        if km is None:
            km = F.mesh
        out = np.asarray(F.array)
        cols.append(out.reshape(-1, len(js)))
    return np.concatenate(cols, axis=1), km


def unit_dft(ctx):
    ndim = ctx.choose("ndim", [1, 2, 3, 4])
    n = ctx.choose("n", _shapes(ctx.tier, ndim))
    pos = ctx.choose("pos", _positions(ctx.tier))
    cells = ctx.choose("cells", _cellsets(ctx.tier))
    kind = ctx.choose("data", ["real", "complex"])
    mesh = _mesh(n, pos, cells)
    N = int(np.prod(n))
    inst = ctx.key(drop=("pos", "cells"))
    transforms = ["fftn"] + (["rfftn"] if kind == "real" else [])
    spectra = {}
    for tr in transforms:
        half = tr == "rfftn"
        ctx.step(0, f"{tr} of {N} impulses and 4 tracer fields on n={n}")
        M, km = _impulse_matrix(ctx, mesh, tr, 1, N)
        ctx.observe(np.round(M, 9))
        nk = list(n[:-1]) + [n[-1] // 2 + 1] if half else list(n)
        ctx.check()
        if [int(i) for i in km.n] != nk:
            ctx.fail(f"Field.{tr}/k-mesh-counts", f"k-mesh counts {km.n.tolist()}, expected {nk}", instance=inst)
            continue
        _check_kmesh(ctx, km, mesh, half, "Mesh.fftn")  # the field's k-mesh: same site, same per-axis instances
        # (i) the transform of every impulse is the DFT phase at the k-cell centres the library reports
        E = _dft_matrix(_centres(km), n, mesh.cell)
        ctx.check(N)
        err = np.abs(M - E)
        if C.gt(err.max(), 1e-12 * N):
            w = np.unravel_index(int(np.argmax(err)), err.shape)
            ctx.fail(f"Field.{tr}/value-not-dft-at-k-centre",
                     f"impulse at flat cell {int(w[1])}, flat k-cell {int(w[0])}: got {M[w]!r}, "
                     f"exp(-2 pi i k.r) = {E[w]!r}", instance=inst)
        if kind == "complex":
            Mi, _ = _impulse_matrix(ctx, mesh, tr, 1j, N)
            ctx.check(N)
            if C.gt(np.abs(Mi - 1j * M).max(), 1e-12 * N):
                ctx.fail(f"Field.{tr}/not-linear/imaginary-impulse", "transform(1j*e) != 1j*transform(e)", instance=inst)
        # (ii) tracer fields: linear, per component; zero-frequency cell = plain sum
        zero = tuple(0 if (half and a == ndim - 1) else n[a] // 2 for a in range(ndim))
        for nv in (1, 2, 3, 4):
            v = C.tracer(n, nv, ctx.seed, cplx=(kind == "complex"))
            # some cells are marked invalid although they hold values: the transform is the sum over ALL real-space cells
            f = df.Field(mesh, nvdim=nv, value=v, dtype=v.dtype, valid=C.coded_mask(n, 2, need_false=False))
            before = C.field_snap(f)
            ctx.step(1)
            F = getattr(f, tr)()
            out = np.asarray(F.array)
            ctx.check()
            if out.shape != tuple(nk) + (nv,) or int(F.nvdim) != nv:
                ctx.fail(f"Field.{tr}/result-shape", f"array {out.shape}, nvdim {F.nvdim}; expected {tuple(nk) + (nv,)}",
                         instance=inst)
                continue
            vmax = float(np.abs(v).max())
            flat = v.reshape(N, nv)
            exp_lin = M @ flat
            ctx.check()
            if C.gt(np.abs(out.reshape(-1, nv) - exp_lin).max(), 1e-12 * N * vmax):
                ctx.fail(f"Field.{tr}/not-linear", f"transform of a {nv}-component field differs from the sum of the "
                         f"impulse responses (per component)", instance=inst)
            ctx.check()
            if C.gt(np.abs(out.reshape(-1, nv) - E @ flat).max(), 1e-12 * N * vmax):
                ctx.fail(f"Field.{tr}/value-not-dft-at-k-centre", f"{nv}-component tracer field differs from the DFT sum",
                         instance=inst)
            ctx.check()
            s = flat.sum(axis=0)
            if C.gt(np.abs(out[zero] - s).max(), 1e-12 * N * vmax):
                ctx.fail(f"Field.{tr}/zero-frequency-cell-not-sum",
                         f"cell {zero} holds {out[zero].tolist()}, the plain sum is {s.tolist()}", instance=inst)
            ctx.check()
            if C.field_snap(f) != before:
                ctx.fail(f"Field.{tr}/operand-modified", "the field was changed by the transform", instance=inst)
            spectra[(tr, nv)] = out
    # (iii) real transform = matching half of the full one
    if kind == "real":
        last = n[-1]
        idx = [(m + last // 2) % last for m in range(last // 2 + 1)]
        for nv in (1, 2, 3, 4):
            if ("fftn", nv) in spectra and ("rfftn", nv) in spectra:
                full, half_ = spectra[("fftn", nv)], spectra[("rfftn", nv)]
                vmax = float(N * nv)
                ctx.check()
                if C.gt(np.abs(full[..., idx, :] - half_).max(), 1e-12 * N * vmax):
                    ctx.fail("Field.rfftn/not-half-of-fftn", f"rfftn differs from the cells {idx} (last axis) of fftn",
                             instance=inst)


# --------------------------------------------------------------------------
# unit inverse


def unit_inverse(ctx):
    ndim = ctx.choose("ndim", [1, 2, 3, 4])
    n = ctx.choose("n", _shapes(ctx.tier, ndim))
    pos = ctx.choose("pos", _positions(ctx.tier))
    cells = ctx.choose("cells", _cellsets(ctx.tier))
    pairs = ["c2c:real", "c2c:complex", "inv-first:complex", "r2c:none", "r2c:tuple", "r2c:list", "r2c:ndarray"]
    if ndim == 1:
        pairs.append("r2c:int")
    pair = ctx.choose("pair", pairs)
    dk = ctx.choose("dims", ["default", "permuted"])
    mesh = _mesh(n, pos, cells, dims=_dims(dk, ndim), units=None if dk == "default" else C.UNITS_DISTINCT[:ndim])
    N = int(np.prod(n))
    inst = ctx.key(drop=("pos", "cells"))
    kindp, arg = pair.split(":")
    for nv in (1, 2, 3, 4):
        v = C.tracer(n, nv, ctx.seed, cplx=(arg == "complex"))
        f = df.Field(mesh, nvdim=nv, value=v, dtype=v.dtype, valid=C.coded_mask(n, 3, need_false=False))
        vmax = float(np.abs(v).max())
        if kindp == "c2c":
            ctx.step(2, "ifftn(fftn(f))")
            b = f.fftn().ifftn()
            site = "Field.ifftn(fftn)"
            must_values = True
        elif kindp == "inv-first":
            ctx.step(2, "fftn(ifftn(g))")
            b = f.ifftn().fftn()
            ctx.observe(np.round(np.asarray(b.array), 6))
            ctx.check()
            if b.array.shape != v.shape or C.gt(np.abs(b.array - v).max(), 1e-12 * N * vmax):
                ctx.fail("Field.fftn(ifftn)/values", "fftn(ifftn(g)) does not reproduce g", instance=inst)
            continue
        else:
            shape = {"none": None, "tuple": tuple(n), "list": list(n), "ndarray": np.array(n), "int": int(n[0])}[arg]
            ctx.step(2, f"irfftn(rfftn(f), shape={arg})")
            R = f.rfftn()
            if shape is None and n[-1] % 2 == 1:
                # odd last axis without the original count: nothing is promised (not even acceptance)
                r, b = C.raises(R.irfftn)
                ctx.note("irfftn-without-shape-on-odd-last-axis:" + ("raised" if r else "returned"))
                ctx.check()
                ctx.observe("odd-no-shape", r)
                continue
            b = R.irfftn(shape=shape)
            site = "Field.irfftn(rfftn)/shape-" + ("none" if shape is None else "given")
            must_values = True
        out = np.asarray(b.array)
        ctx.observe(np.round(out, 6))
        ctx.check()
        if out.shape != v.shape:
            ctx.fail(f"{site}/result-shape", f"array {out.shape}, expected {v.shape}", instance=inst)
            continue
        if must_values and C.gt(np.abs(out - v).max(), 1e-12 * N * vmax):
            w = np.unravel_index(int(np.argmax(np.abs(out - v))), v.shape)
            ctx.fail(f"{site}/values", f"round trip differs at {tuple(int(i) for i in w)}: {out[w]!r} vs {v[w]!r}",
                     instance=inst)
        _check_back(ctx, b.mesh, mesh, site, inst=inst)


# --------------------------------------------------------------------------
# unit labels

LABELS = ["default", "custom", "custom-empty-mapping", "custom-permuted", "custom-permuted-keyorder", "custom-permuted-axisorder", "one-unmapped",
          "scalar-named"]


def _labels(kind, nv, dims):
    """(vdims, vdim_mapping) or None if the kind does not exist for this nv/ndim"""
    ndim = len(dims)
    names = ["a", "b", "c", "d"][:nv] if dims[0] != "a" else ["p", "q", "r", "s"][:nv]
    if kind == "default":
        return None, None
    if kind == "custom":
        return names, None
    if kind == "custom-empty-mapping":
        return names, {}
    if kind == "custom-permuted":
        if nv != ndim or nv == 1:
            return None
        return names, {v: dims[(i + 1) % ndim] for i, v in enumerate(names)}
    if kind == "custom-permuted-keyorder":
        # the same kind of mapping, but the dict is WRITTEN in another key order than vdims (a dict is
        # unordered as far as the property goes: pairing by position inside the dict is wrong)
        if nv != ndim or nv == 1:
            return None
        return names, dict(reversed([(v, dims[(i + 1) % ndim]) for i, v in enumerate(names)]))
    if kind == "custom-permuted-axisorder":
        # keys listed in the order of the axes they point to: list(mapping.values()) == dims, pairing still cyclic
        if nv != ndim or nv == 1:
            return None
        return names, dict(sorted([(v, dims[(i + 1) % ndim]) for i, v in enumerate(names)], key=lambda kv: list(dims).index(kv[1])))
    if kind == "one-unmapped":
        if nv < 2:
            return None
        m = {v: (dims[i] if i < ndim else None) for i, v in enumerate(names)}
        m[names[-1]] = None
        return names, m
    if kind == "scalar-named":
        if nv != 1:
            return None
        return ["s"], {"s": dims[-1]}
    raise AssertionError(kind)


def _check_forward_labels(ctx, f, F, site, inst):
    dims, kd = list(f.mesh.region.dims), list(F.mesh.region.dims)
    ctx.check(2)
    if f.vdims is None:
        if F.vdims is not None:
            ctx.fail(f"{site}/vdims", f"unnamed component became {F.vdims}", instance=inst)
        return
    exp = [f"ft_{v}" for v in f.vdims]
    if F.vdims is None or list(F.vdims) != exp:
        ctx.fail(f"{site}/vdims", f"{f.vdims} -> {F.vdims}, documented {exp}", instance=inst)
        return
    old, new = f.vdim_mapping, F.vdim_mapping
    if (len(old) == 0) != (len(new) == 0):
        ctx.fail(f"{site}/mapping", f"mapping {old} -> {new}", instance=inst)
        return
    for v, nvn in zip(f.vdims, F.vdims):
        if v not in old:
            continue
        ctx.check()
        tgt = old[v]
        if tgt in dims:
            want = kd[dims.index(tgt)]
            if new.get(nvn, "<missing>") != want:
                ctx.fail(f"{site}/mapping/axis-not-renamed-consistently",
                         f"component {v!r} -> axis {tgt!r}; after the transform {nvn!r} -> {new.get(nvn, '<missing>')!r}, "
                         f"the k-axis at that position is {want!r}", instance=inst)
        elif tgt is None:
            if new.get(nvn, "<missing>") is not None:
                ctx.fail(f"{site}/mapping/unmapped-component-gets-an-axis-name",
                         f"component {v!r} is mapped to no axis (None); after the transform {nvn!r} -> "
                         f"{new.get(nvn, '<missing>')!r}", instance=inst)


def _check_restored_labels(ctx, f, b, site, inst):
    ctx.check(2)
    if (f.vdims is None) != (b.vdims is None) or (f.vdims is not None and list(f.vdims) != list(b.vdims)):
        ctx.fail(f"{site}/vdims-not-restored", f"{f.vdims} -> {b.vdims}", instance=inst)
        return
    if dict(f.vdim_mapping) != dict(b.vdim_mapping):
        onlynone = all(f.vdim_mapping.get(k) == b.vdim_mapping.get(k) or f.vdim_mapping.get(k) is None
                       for k in set(f.vdim_mapping) | set(b.vdim_mapping))
        ctx.fail(f"{site}/mapping-not-restored" + ("/unmapped-component" if onlynone else ""),
                 f"{f.vdim_mapping} -> {b.vdim_mapping}", instance=inst)


def unit_labels(ctx):
    ndim = ctx.choose("ndim", [1, 2, 3, 4])
    nv = ctx.choose("nvdim", [1, 2, 3, 4])
    dk = ctx.choose("dims", ["default", "renamed", "permuted"])
    n = ctx.choose("n", [(3, 2, 1, 2)[:ndim], (2, 3, 4, 1)[:ndim]][: 1 if ctx.tier == "quick" else 2])
    dims_in = _dims(dk, ndim)
    mesh = _mesh(n, "offset", "unit", dims=dims_in)
    dims = list(mesh.region.dims)
    kinds = [k for k in LABELS if k == "default" or _labels(k, nv, dims) is not None]
    lk = ctx.choose("labels", kinds)
    vdims, mapping = _labels(lk, nv, dims)
    tr = ctx.choose("transform", ["fftn", "rfftn", "ifftn", "irfftn"])
    data = ctx.choose("data", ["real", "complex"] if tr in ("fftn", "ifftn") else ["real"])
    v = C.tracer(n, nv, ctx.seed, cplx=(data == "complex"))
    f = df.Field(mesh, nvdim=nv, value=v, dtype=v.dtype, vdims=vdims, vdim_mapping=mapping, unit="A/m")
    inst = ctx.key(drop=("n", "data"))
    ctx.observe(f.vdims, sorted(f.vdim_mapping.items(), key=repr))
    if tr in ("fftn", "rfftn"):
        ctx.step(1, f"{tr} with labels {lk}")
        F = getattr(f, tr)()
        ctx.observe(F.vdims, sorted(F.vdim_mapping.items(), key=repr), tuple(F.mesh.region.dims))
        _check_forward_labels(ctx, f, F, "Field.forward-transform", inst)
        _check_names_forward(ctx, F.mesh, mesh, f"Field.{tr}")
    else:
        fwd = "fftn" if tr == "ifftn" else "rfftn"
        ctx.step(2, f"{tr}({fwd}(f)) with labels {lk}")
        F = getattr(f, fwd)()
        b = F.ifftn() if tr == "ifftn" else F.irfftn(shape=tuple(n))
        ctx.observe(b.vdims, sorted(b.vdim_mapping.items(), key=repr), tuple(b.mesh.region.dims))
        _check_restored_labels(ctx, f, b, "Field.inverse-of-forward", inst)
        ctx.check()
        if list(b.mesh.region.dims) != dims:
            ctx.fail(f"Field.{tr}({fwd})/dims-not-restored", f"{dims} -> {list(b.mesh.region.dims)}", instance=inst)


def units(tier):
    return [
        {"name": "kmesh", "fn": unit_kmesh, "bound": None},
        {"name": "dft", "fn": unit_dft, "bound": None},
        {"name": "inverse", "fn": unit_inverse, "bound": None},
        {"name": "labels", "fn": unit_labels, "bound": None},
    ]
