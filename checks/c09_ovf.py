"""C09 - OVF files round-trip fields and follow the OVF 1.0/2.0 format.

Units
  roundtrip  : full product shape x geometry x mesh unit x nvdim x labels x unit x values x
               representation x extend_scalar x subregions; every execution writes with the real
               ``Field.to_file``, decodes the written bytes with the INDEPENDENT reader (mc/ref/ovf.py)
               and reads back with the real ``Field.from_file``.
  chunks     : shapes whose value count sits on / next to the writer's 100 000-value chunk boundary.
  foreign    : files produced by the INDEPENDENT writer (OVF 1.0 big-endian / 2.0 little-endian, text,
               4- and 8-byte binary, three real-world record layouts) are read with ``Field.from_file``.
  faults     : for small binary files (library written and independent OVF 1.0/2.0): EVERY truncation
               offset, EVERY single-bit flip of the check value and EVERY 0x00/0xFF byte replacement in it.
  provenance : the field that is written comes from every other public producer (HDF5, OVF, VTK, xarray,
               rotate90, sel, negation) instead of the constructor.
"""
import json
import os
import shutil
import tempfile

import numpy as np

import discretisedfield as df
from mc import common as C
from mc import engine
from mc.ref import ovf as R

PROPERTY = "C09"
RULE = ("units roundtrip/chunks/foreign/provenance: full product of the listed alphabets (roundtrip: for "
        "extend_scalar=True on a vector field, where the flag must be a no-op, the product is shape x geometry x mesh unit "
        "x nvdim x {default, custom} labels x representation), one file written and read per execution; unit faults: full product file x fault kind x EVERY position (all truncation offsets "
        "0..len-1, all bits and all bytes of the check value). An execution is non-trivial when the library "
        "wrote or read a file and at least one oracle comparison ran.")
ASSUMPTIONS = [
    "scope: 3-d meshes with <= 24 cells (plus the chunk-boundary shapes up to 200 001 values), 1-6 components, "
    "default dimension names and tolerance (the OVF format stores neither)",
    "value alphabet: position-coded integers, and the extremes 0, -0.0, +-1, 1e-300, 1e300, +-max double, 5e-324, "
    "pi, 1/3, both check values, float32 max/min-subnormal neighbours; NaN/inf are outside 'the full float64 range'",
    "bin8: bytes identical; bin4: value equal to numpy's float32 rounding (overflow -> inf as numpy casts); "
    "text: |got-x| <= 1e-9*|x|",
    "the independent reader accepts header numbers of the written file with relative tolerance 1e-12 "
    "(corners) / 1e-9 (xbase = xmin + step/2, xstepsize = edge/nodes); Field.from_file must return the corners exactly",
    "foreign files: only mesh (corners, cell counts, mesh unit), component count and data are demanded; how the "
    "reader maps foreign labels/units (e.g. 'Magnetization_x', OVF 1.0 'valueunit') is recorded in notes, not judged",
    "labels of scalar fields are not demanded (statement: 'component labels of vector fields')",
    "faults: any exception is a rejection; a returned field is accepted only if the complete data block is still "
    "in the truncated file and the field equals the original exactly. Removing bytes from the middle of the data "
    "block with the trailer intact is observed (notes) but not judged: the quantifier names truncation points",
]

SPECIAL = [0.0, -0.0, 1.0, -1.0, 1e-300, 1e300, 1.7976931348623157e308, 5e-324, np.pi, 1.0 / 3.0, 1234567.0,
           123456789012345.0, -1.7976931348623157e308, 3.4028234663852886e38, 3.4028235677973366e38, 1.401298464324817e-45,
           7e-46, -1e-300, 0.1, 65504.0, 1e-9 / 3]

# geometry: name -> (offset per axis, cell width per axis, scale); corners = scale*off, scale*(off + w*n)
GEO = {
    "unit": ((0.0, 0.0, 0.0), (1.0, 1.0, 1.0), 1.0),
    "int": None,  # python-int corners (0,0,0)-(nx,ny,nz)
    "nano-off": ((7.7, -123.456, 0.1), (0.7, 2.5, 0.1), 1e-9),
    "far": ((1e4 + 0.1, 7.7, -0.3), (0.1, 1.0 / 3.0, 0.3), 1.0),
    "nano": ((0.0, 0.0, 0.0), (5.0, 5.0, 3.0), 1e-9),
    "frac": ((0.1, -0.3, 1.0 / 3.0), (0.1, 0.3, 1.0 / 3.0), 1.0),
    "pico": ((0.1, 0.0, -0.3), (0.3, 1.0, 0.7), 1e-12),
    "mega": ((-123.456, 1.0 / 3.0, 0.0), (2.5, 0.7, 1.0 / 3.0), 1e6),
    "aniso": ((0.0, -1.0, 2.0), (1.0, 1000.0, 0.001), 1e-9),
}
GEO_QUICK = ["unit", "int", "nano-off", "far"]
GEO_THOROUGH = GEO_QUICK + ["nano", "frac", "pico", "mega", "aniso"]

LABELS = {
    "default": None,
    "custom": ["a", "b", "c", "d", "e", "f"],
    "digits": ["v0", "v1", "v2", "v3", "v4", "v5"],
    "underscore": ["m_x", "m_y", "m_z", "m_u", "m_v", "m_w"],
    "underscore2": ["ax_1", "ax_2", "ax_3", "ax_4", "ax_5", "ax_6"],
    "punct": ["Bx.re", "By.re", "Bz.re", "Bx.im", "By.im", "Bz.im"],
    "dash": ["k-1", "k-2", "k-3", "k-4", "k-5", "k-6"],
}


def _corners(geo, n):
    if geo == "int":
        return (0, 0, 0), tuple(int(i) for i in n)
    off, w, s = GEO[geo]
    p1 = tuple(s * o for o in off)
    p2 = tuple(s * (o + ww * k) for o, ww, k in zip(off, w, n))
    return p1, p2


def _values(kind, n, nvdim, seed, rot=0):
    if kind == "tracer":
        return C.tracer(n, nvdim, seed)
    size = int(np.prod(n)) * nvdim
    flat = np.array([SPECIAL[(i + rot) % len(SPECIAL)] for i in range(size)], dtype=np.float64)
    return flat.reshape(*n, nvdim)


def _subregions(mesh, layout):
    if layout == "none":
        return None
    n = [int(i) for i in mesh.n]
    pmin = np.asarray(mesh.region.pmin, dtype=float)
    cell = np.asarray(mesh.cell, dtype=float)
    hx = (n[0] + 1) // 2
    a = df.Region(p1=tuple(pmin), p2=tuple(pmin + cell * np.array([hx, n[1], n[2]])))
    b = df.Region(p1=tuple(pmin + cell * np.array([0, 0, n[2] - 1])), p2=tuple(pmin + cell * np.array(n)))
    return {"left": a, "r2": b}


class _Tmp:
    def __enter__(self):
        self.d = tempfile.mkdtemp(dir="/dev/shm", prefix="dfmc-c09-")
        return self.d

    def __exit__(self, *a):
        shutil.rmtree(self.d, ignore_errors=True)


def _sel(ctx, *names):
    """instance key from the named choices only"""
    return ";".join(f"{n}={v}" for n, _, v in ctx.record if n in names)


def _expected(arr, rep):
    if rep == "bin4":
        with np.errstate(over="ignore", under="ignore"):
            return arr.astype(np.float32).astype(np.float64)
    return arr


def _values_ok(got, exp, rep):
    """(ok, description of first difference)"""
    got = np.asarray(got)
    if got.shape != exp.shape:
        return False, f"shape {got.shape} instead of {exp.shape}"
    if rep == "bin8":
        ok = got.dtype == np.float64 and got.tobytes() == np.ascontiguousarray(exp).tobytes()
        bad = None if ok else np.argwhere(~((got == exp) & (np.signbit(got) == np.signbit(exp))))
    elif rep == "bin4":
        eq = got == exp
        ok = bool(eq.all())
        bad = None if ok else np.argwhere(~eq)
    else:
        with np.errstate(over="ignore", invalid="ignore"):
            eq = np.abs(got - exp) <= 1e-9 * np.abs(exp)
        ok = bool(eq.all())
        bad = None if ok else np.argwhere(~eq)
    if ok:
        return True, ""
    if bad is None or len(bad) == 0:
        return False, f"dtype {got.dtype}"
    i = tuple(int(k) for k in bad[0])
    return False, f"{len(bad)} value(s) differ, first at index {i}: got {got[i]!r} expected {exp[i]!r}"


def _roundtrip(ctx, f, rep, ext, d, keys, sub_expected=None, tag="w"):
    """write f with the real writer, decode with the independent reader, read with the real reader.
    ``keys``: names of the choices that identify an instance for geometry/data signatures."""
    path = os.path.join(d, f"{tag}.omf")
    nv = int(f.nvdim)
    n = tuple(int(i) for i in f.mesh.n)
    src = np.array(f.array, dtype=np.float64, copy=True)
    before = C.field_snap(f)
    ctx.step(1, f"to_file(.omf, {rep}, extend_scalar={ext})")
    raised, e = C.raises(f.to_file, path, representation=rep, extend_scalar=ext)
    if raised:
        ctx.check()
        kind = "extend_scalar-on-vector-field" if (ext and nv > 1) else "valid-field"
        ctx.fail(f"to_file.ovf/refused/{kind}", f"writing raised {type(e).__name__}: {e}",
                 instance=_sel(ctx, "representation", "nvdim") if kind.startswith("extend") else _sel(ctx, *keys))
        return None
    ctx.check()
    if C.field_snap(f) != before:
        ctx.fail("to_file.ovf/operand-modified", "writing changed the field", instance=_sel(ctx, *keys))
    wd = 3 if (ext and nv == 1) else nv
    if wd == nv:
        content = src
    else:
        content = np.concatenate([src, np.zeros((*n, 2))], axis=-1)
    exp = _expected(content, rep)
    pmin = np.asarray(f.mesh.region.pmin, dtype=float)
    pmax = np.asarray(f.mesh.region.pmax, dtype=float)
    # ---- (b) independent reader on the written bytes
    ctx.check()
    try:
        o = R.read(path)
    except R.OVFError as err:
        o = None
        cls = "extend_scalar-on-vector-field" if (ext and nv > 1) else "any"
        ctx.fail(f"to_file.ovf/not-an-ovf2-file/{cls}", f"independent reader: {err}",
                 instance=_sel(ctx, "representation", "nvdim", "extend_scalar") if cls != "any" else _sel(ctx, *keys))
    if o is not None:
        ctx.observe(o.version, o.representation, o.n, o.valuedim)
        ctx.check(6)
        scale = np.maximum(np.maximum(np.abs(pmin), np.abs(pmax)), pmax - pmin)
        step = (pmax - pmin) / np.array(n)
        msg = []
        if o.version != 2:
            msg.append(f"version {o.version}")
        if o.representation != rep:
            msg.append(f"representation {o.representation} instead of {rep}")
        if o.n != n:
            msg.append(f"nodes {o.n} instead of {n}")
        if o.meshunit != f.mesh.region.units[0]:
            msg.append(f"meshunit {o.meshunit!r} instead of {f.mesh.region.units[0]!r}")
        if C.gt(np.abs(np.array(o.pmin) - pmin), 1e-12 * scale) or C.gt(np.abs(np.array(o.pmax) - pmax), 1e-12 * scale):
            msg.append(f"min/max {o.pmin}-{o.pmax} instead of {tuple(pmin)}-{tuple(pmax)}")
        if C.gt(np.abs(np.array(o.step) - step), 1e-9 * step):
            msg.append(f"stepsize {o.step} instead of {tuple(step)}")
        if C.gt(np.abs(np.array(o.base) - (pmin + step / 2)), 1e-9 * step + 1e-12 * scale):
            msg.append(f"base {o.base} instead of {tuple(pmin + step / 2)}")
        if msg:
            ctx.fail("to_file.ovf/header-differs-from-mesh", "; ".join(msg), instance=_sel(ctx, *keys))
        ctx.check()
        if o.valuedim != wd:
            ctx.fail("to_file.ovf/valuedim", f"valuedim {o.valuedim}, field has {nv} components (extend_scalar={ext})",
                     instance=_sel(ctx, "nvdim", "extend_scalar", "representation"))
        else:
            ok, why = _values_ok(o.data, exp, rep)
            if not ok:
                ctx.fail(f"to_file.ovf/data-differ-for-independent-reader/{rep}", why, instance=_sel(ctx, *keys))
    # ---- (a) the library's own reader
    ctx.step(1, "from_file(.omf)")
    raised, g = C.raises(df.Field.from_file, path)
    ctx.check()
    if raised:
        if ext and nv > 1:
            sig, inst = "from_file.ovf/own-file-rejected/extend_scalar-on-vector-field", _sel(ctx, "representation", "nvdim")
        elif f.vdims is not None and nv > 1 and any(not str(c).replace("_", "").isalnum() for c in f.vdims):
            sig, inst = "from_file.ovf/own-file-rejected/labels-with-punctuation", _sel(ctx, "labels", "nvdim")
        else:
            sig, inst = "from_file.ovf/own-file-rejected", _sel(ctx, *keys)
        ctx.fail(sig, f"reading the file just written raised {type(g).__name__}: {g}", instance=inst)
        return None
    ctx.observe(g.array, g.mesh.n, g.unit, g.vdims)
    ctx.check(5)
    gm = g.mesh
    if not (np.array_equal(np.asarray(gm.region.pmin, dtype=float), pmin)
            and np.array_equal(np.asarray(gm.region.pmax, dtype=float), pmax)):
        ctx.fail("ovf-roundtrip/region-corners", f"corners {gm.region.pmin}-{gm.region.pmax} instead of {pmin}-{pmax}",
                 instance=_sel(ctx, *keys))
    if tuple(int(i) for i in gm.n) != n:
        ctx.fail("ovf-roundtrip/cell-counts", f"n {tuple(gm.n)} instead of {n}", instance=_sel(ctx, *keys))
    if tuple(gm.region.units) != tuple(f.mesh.region.units):
        ctx.fail("ovf-roundtrip/mesh-unit", f"units {gm.region.units} instead of {f.mesh.region.units}",
                 instance=_sel(ctx, "meshunit"))
    if int(g.nvdim) != wd:
        ctx.fail("ovf-roundtrip/component-count", f"nvdim {g.nvdim} instead of {wd}",
                 instance=_sel(ctx, "nvdim", "extend_scalar", "representation"))
    if f.unit is None:
        if g.unit is not None:
            ctx.fail("ovf-roundtrip/unit/none-becomes-string", f"field without unit comes back with unit {g.unit!r}",
                     instance=_sel(ctx, "representation"))
    elif g.unit != f.unit:
        ctx.fail("ovf-roundtrip/unit", f"unit {g.unit!r} instead of {f.unit!r}", instance=_sel(ctx, "unit", "representation"))
    if int(g.nvdim) == wd and tuple(int(i) for i in gm.n) == n:
        ctx.check()
        ok, why = _values_ok(g.array, exp, rep)
        if not ok:
            ctx.fail(f"ovf-roundtrip/values/{rep}", why, instance=_sel(ctx, *keys))
    if nv > 1 and int(g.nvdim) == nv:
        ctx.check()
        if g.vdims is None or list(g.vdims) != list(f.vdims):
            if ext:
                sig, inst = "ovf-roundtrip/labels/extend_scalar-on-vector-field", _sel(ctx, "representation", "nvdim", "labels")
            elif any("_" in c for c in f.vdims):
                sig, inst = "ovf-roundtrip/labels/with-underscore", _sel(ctx, "labels", "nvdim")
            elif any(not c.replace("_", "").isalnum() for c in f.vdims):
                sig, inst = "ovf-roundtrip/labels/with-punctuation", _sel(ctx, "labels", "nvdim")
            else:
                sig, inst = "ovf-roundtrip/labels", _sel(ctx, "labels", "nvdim", "representation")
            ctx.fail(sig, f"labels {g.vdims} instead of {f.vdims}", instance=inst)
    if sub_expected is not None:
        ctx.check()
        got = [(k, tuple(np.asarray(v.pmin, dtype=float)), tuple(np.asarray(v.pmax, dtype=float))) for k, v in gm.subregions.items()]
        if got != sub_expected:
            ctx.fail("ovf-roundtrip/subregions", f"subregions {got} instead of {sub_expected}", instance=_sel(ctx, *keys))
    return g


KEYS = ("shape", "geometry", "nvdim", "values", "representation", "extend_scalar", "subregions")


def unit_roundtrip(ctx):
    q = ctx.tier == "quick"
    shape = ctx.choose("shape", [(2, 1, 1), (1, 1, 1), (1, 2, 3), (3, 2, 2)] + ([] if q else [(2, 3, 4)]))
    geo = ctx.choose("geometry", GEO_QUICK if q else GEO_THOROUGH)
    mu = ctx.choose("meshunit", ["m", "nm"])
    nv = ctx.choose("nvdim", [3, 1, 2] if q else [3, 1, 2, 4, 6])
    ext = ctx.choose("extend_scalar", [False, True])
    # extend_scalar=True must be a no-op for vector fields: that sub-space is explored over shape x geometry x
    # mesh unit x nvdim x {default, custom} labels x representation only
    noop = ext and nv > 1
    if nv == 1:
        lab = ctx.choose("labels", ["default"])
    elif noop:
        lab = ctx.choose("labels", ["default", "custom"])
    else:
        lab = ctx.choose("labels", ["default", "custom", "underscore", "punct"] if q else
                         ["default", "custom", "underscore", "punct", "digits", "underscore2", "dash"])
    unit = ctx.choose("unit", ["A/m"] if noop else (["A/m", None] if q else ["A/m", None, "T"]))
    vals = ctx.choose("values", ["tracer"] if noop else ["tracer", "special"])
    rep = ctx.choose("representation", ["bin8", "bin4", "txt"])
    sub = ctx.choose("subregions", ["none"] if noop else ["none", "two"])
    p1, p2 = _corners(geo, shape)
    region = df.Region(p1=p1, p2=p2, units=[mu] * 3)
    mesh = df.Mesh(region=region, n=shape)
    sub_expected = None
    if sub == "two":
        try:
            mesh = df.Mesh(region=region, n=shape, subregions=_subregions(mesh, sub))
        except ValueError:
            ctx.note("subregions-not-accepted-by-Mesh(C14)")
            raise engine.Skip()
        sub_expected = [(k, tuple(np.asarray(v.pmin, dtype=float)), tuple(np.asarray(v.pmax, dtype=float)))
                        for k, v in mesh.subregions.items()]
    vd = None if LABELS[lab] is None else LABELS[lab][:nv]
    rot = (shape[0] * 7 + shape[1] * 3 + shape[2] + nv) % len(SPECIAL)
    f = df.Field(mesh, nvdim=nv, value=_values(vals, shape, nv, ctx.seed, rot), vdims=vd, unit=unit)
    with _Tmp() as d:
        _roundtrip(ctx, f, rep, ext, d, KEYS, sub_expected)
        if sub == "two":
            ctx.check()
            side = os.path.join(d, "w.omf.subregions.json")
            if not os.path.exists(side):
                ctx.fail("to_file.ovf/no-side-car", "no subregion side-car file next to the OVF file",
                         instance=_sel(ctx, "representation"))
            else:
                json.load(open(side))


# (shape, nvdim, also with extend_scalar=True)
CHUNK_SHAPES = [((99999, 1, 1), 1, False), ((100000, 1, 1), 1, False), ((100001, 1, 1), 1, False), ((66667, 1, 1), 3, False),
                ((33333, 1, 1), 3, False), ((3, 1, 33334), 1, True), ((50, 30, 20), 4, False),  # 4 components: 120000 values, 3 x cells = 90000
                ((50, 40, 50), 1, True), ((50, 40, 50), 2, False), ((20, 30, 34), 5, False),
                ((41, 61, 40), 1, False), ((1, 1, 200001), 1, False), ((33334, 1, 1), 1, True)]


def unit_chunks(ctx):
    shape, nv, wext = ctx.choose("shape", CHUNK_SHAPES if ctx.tier != "quick" else CHUNK_SHAPES[:8])
    rep = ctx.choose("representation", ["bin8", "bin4", "txt"])
    ext = ctx.choose("extend_scalar", [False, True] if wext else [False])
    p2 = tuple(2.5e-9 * k for k in shape)
    mesh = df.Mesh(region=df.Region(p1=(0.0, 0.0, 0.0), p2=p2), n=shape)
    f = df.Field(mesh, nvdim=nv, value=C.tracer(shape, nv, ctx.seed), unit="A/m")
    with _Tmp() as d:
        _roundtrip(ctx, f, rep, ext, d, ("shape", "representation", "extend_scalar"))


def unit_foreign(ctx):
    q = ctx.tier == "quick"
    ver = ctx.choose("version", [2, 1])
    rep = ctx.choose("representation", ["bin8", "bin4", "txt"])
    style = ctx.choose("style", ["oommf", "mumax", "lower"])
    shape = ctx.choose("shape", [(2, 1, 1), (1, 1, 1), (1, 2, 3), (3, 2, 2)] + ([] if q else [(2, 3, 4), (13, 1, 2)]))
    geo = ctx.choose("geometry", ["nano", "unit", "far"] if q else ["nano", "unit", "far", "nano-off", "frac", "mega", "aniso"])
    nv = ctx.choose("nvdim", [3] if ver == 1 else ([3, 1, 2] if q else [3, 1, 2, 4, 6]))
    vals = ctx.choose("values", ["tracer", "special"])
    lab = ctx.choose("labels", ["Magnetization_x", "m_full_x", "plain"] if ver == 2 else ["n/a"])
    fu = ctx.choose("valueunits", ["A/m", "1"])
    p1, p2 = _corners(geo, shape)
    rot = (shape[0] + 2 * shape[1] + 5 * shape[2] + nv) % len(SPECIAL)
    data = _values(vals, shape, nv, ctx.seed, rot)
    comp = ["x", "y", "z", "u", "v", "w"]
    labels = None
    if ver == 2:
        labels = [{"Magnetization_x": "Magnetization_", "m_full_x": "m_full_", "plain": "c"}[lab] + comp[i] for i in range(nv)]
    with _Tmp() as d:
        path = os.path.join(d, "foreign" + (".omf" if style != "mumax" else ".ovf"))
        kept = R.write(path, version=ver, representation=rep, pmin=p1, pmax=p2, n=shape, data=data, meshunit="m",
                       labels=labels, units=[fu] * nv, style=style)
        # the independent reader must agree with the independent writer (harness self-test, not a verdict)
        o = R.read(path)
        if o.n != tuple(shape) or o.data.tobytes() != kept.tobytes():
            raise RuntimeError("reference reader and writer disagree")
        ctx.step(1, f"from_file(OVF {ver}.0 {rep} {style})")
        raised, g = C.raises(df.Field.from_file, path)
        ctx.check()
        inst = _sel(ctx, "version", "representation", "style", "shape", "geometry", "nvdim", "values")
        if raised:
            ctx.fail(f"from_file.ovf/foreign-file-rejected/ovf{ver}", f"{type(g).__name__}: {g}", instance=inst)
            return
        ctx.observe(g.array, g.mesh.n, g.unit, g.vdims)
        ctx.check(4)
        gm = g.mesh
        if not (np.array_equal(np.asarray(gm.region.pmin, dtype=float), np.array(p1, dtype=float))
                and np.array_equal(np.asarray(gm.region.pmax, dtype=float), np.array(p2, dtype=float))):
            ctx.fail(f"from_file.ovf/foreign/region-corners/ovf{ver}",
                     f"corners {gm.region.pmin}-{gm.region.pmax}, file says {p1}-{p2}", instance=inst)
        if tuple(int(i) for i in gm.n) != tuple(shape):
            ctx.fail(f"from_file.ovf/foreign/cell-counts/ovf{ver}", f"n {tuple(gm.n)}, file says {shape}", instance=inst)
        if tuple(gm.region.units) != ("m", "m", "m"):
            ctx.fail(f"from_file.ovf/foreign/mesh-unit/ovf{ver}", f"units {gm.region.units}", instance=inst)
        if int(g.nvdim) != nv:
            ctx.fail(f"from_file.ovf/foreign/component-count/ovf{ver}", f"nvdim {g.nvdim}, file has {nv}", instance=inst)
        elif tuple(int(i) for i in gm.n) == tuple(shape):
            ctx.check()
            ok, why = _values_ok(g.array, kept, rep)
            if not ok:
                ctx.fail(f"from_file.ovf/foreign/values/ovf{ver}-{rep}", why, instance=inst)
        ctx.note(f"foreign-unit:ovf{ver}:{fu}->{g.unit}")
        if ver == 2 and nv > 1:
            ctx.note(f"foreign-labels:{lab}->{'kept-suffix' if g.vdims == comp[:nv] else g.vdims}")


def unit_read_sequence(ctx):
    """What a file is read to must not depend on the files read BEFORE it in the same process: a foreign OVF 1.0 file
    (no component labels, one 'valueunit') is read, then a library-written OVF 2.0 file with custom labels and unit (1,
    2, 3 or 4 components), then the first file again.  Both readings of the first file must agree in everything."""
    rep = ctx.choose("representation", ["bin8", "bin4", "txt"])
    style = ctx.choose("style", ["oommf", "mumax"])
    nvA = ctx.choose("components-of-the-file-read-in-between", [3, 2, 1, 4])
    repA = ctx.choose("its-representation", ["bin8", "txt"])
    shape = (2, 1, 3)
    p1, p2 = _corners("nano", shape)
    data = _values("tracer", shape, 3, ctx.seed, 0)
    with _Tmp() as d:
        pathB = os.path.join(d, "foreign.omf")
        R.write(pathB, version=1, representation=rep, pmin=p1, pmax=p2, n=shape, data=data, meshunit="m", labels=None,
                units=["A/m"] * 3, style=style)
        meshA = df.Mesh(p1=(0, 0, 0), p2=(4e-9, 2e-9, 2e-9), n=(2, 1, 2))
        fA = df.Field(meshA, nvdim=nvA, value=C.tracer((2, 1, 2), nvA, ctx.seed), unit="T",
                      vdims=["pa", "pb", "pc", "pd"][:nvA] if nvA > 1 else None)
        pathA = os.path.join(d, "lib.ovf")
        fA.to_file(pathA, representation=repA)
        ctx.step(3, "from_file(foreign OVF 1.0); from_file(library OVF 2.0); from_file(foreign OVF 1.0) again")
        raised, b1 = C.raises(df.Field.from_file, pathB)
        if raised:
            ctx.note("first-read-refused(unit foreign judges it)")
            raise engine.Skip()
        df.Field.from_file(pathA)
        raised, b2 = C.raises(df.Field.from_file, pathB)
        ctx.check(2)
        inst = ctx.key()
        if raised:
            ctx.fail("from_file.ovf/read-sequence/second-read-of-the-same-file-raises",
                     f"after a {nvA}-component OVF 2.0 file was read: {type(b2).__name__}: {str(b2)[:160]}", instance=inst)
            return
        ctx.observe(b2.vdims, b2.unit, b2.array)
        same = (b1.vdims == b2.vdims and b1.unit == b2.unit and b1.nvdim == b2.nvdim and b1.mesh == b2.mesh
                and tuple(b1.mesh.region.units) == tuple(b2.mesh.region.units) and C.same_bytes(b1.array, b2.array))
        if not same:
            ctx.fail("from_file.ovf/read-sequence/result-depends-on-files-read-before",
                     f"first read: labels {b1.vdims} unit {b1.unit!r}; after a {nvA}-component file with labels "
                     f"{fA.vdims} unit 'T' was read in between: labels {b2.vdims} unit {b2.unit!r}", instance=inst)


# ---------------------------------------------------------------------------
# fault enumeration

FAULT_FILES = [("lib", "bin8", 3), ("lib", "bin4", 1), ("ovf1", "bin4", 3), ("lib", "bin8", 1), ("lib", "bin4", 3),
               ("ovf1", "bin8", 3), ("ovf2", "bin4", 2), ("ovf2", "bin8", 1)]


def _fault_file(ctx, d, origin, rep, nv):
    """returns (path, bytes, reference content array (nx,ny,nz,nv) as stored, pmin, pmax, n)"""
    shape = (2, 3, 2)
    p1, p2 = (0.0, -1.5e-9, 2e-9), (4e-9, 3e-9, 7e-9)
    data = C.tracer(shape, nv, 0) + 0.5  # fixed (seed independent), exact in float32
    path = os.path.join(d, "orig.omf")
    if origin == "lib":
        mesh = df.Mesh(region=df.Region(p1=p1, p2=p2), n=shape)
        f = df.Field(mesh, nvdim=nv, value=data, unit="A/m")
        ctx.step(1, "to_file")
        f.to_file(path, representation=rep)
        kept = data
    else:
        kept = R.write(path, version=1 if origin == "ovf1" else 2, representation=rep, pmin=p1, pmax=p2, n=shape,
                       data=data, labels=[f"c_{i}" for i in range(nv)] if origin == "ovf2" else None,
                       units=["A/m"] * nv, style="oommf")
    o = R.read(path)  # locates check value and data block independently of the library
    if not np.array_equal(o.data, kept):
        raise RuntimeError("reference reader disagrees with the original file")
    return path, open(path, "rb").read(), kept, p1, p2, shape, o


def unit_faults(ctx):
    q = ctx.tier == "quick"
    origin, rep, nv = ctx.choose("file", FAULT_FILES[:3] if q else FAULT_FILES)
    kind = ctx.choose("fault", ["truncate", "bitflip", "byte00", "byteFF"])
    with _Tmp() as d:
        path, raw, kept, p1, p2, shape, o = _fault_file(ctx, d, origin, rep, nv)
        co, cn = o.check_offset, o.check_nbytes
        data_end = o.data_offset + o.data_nbytes
        if kind == "truncate":
            off = ctx.choose("offset", list(range(len(raw))))
            bad = raw[:off]
        elif kind == "bitflip":
            bit = ctx.choose("bit", list(range(cn * 8)))
            b = bytearray(raw)
            b[co + bit // 8] ^= 1 << (bit % 8)
            bad = bytes(b)
        else:
            newv = 0x00 if kind == "byte00" else 0xFF
            pos = ctx.choose("byte", [i for i in range(cn) if raw[co + i] != newv])
            b = bytearray(raw)
            b[co + pos] = newv
            bad = bytes(b)
        p = os.path.join(d, "damaged.omf")
        with open(p, "wb") as fh:
            fh.write(bad)
        ctx.step(1, f"from_file(damaged: {kind})")
        raised, g = C.raises(df.Field.from_file, p)
        ctx.check()
        inst = ctx.key()
        if raised:
            ctx.observe("rejected", type(g).__name__)
            ctx.note(f"rejected:{kind}:{type(g).__name__}")
            return
        ctx.observe("accepted", g.array)
        same = (tuple(int(i) for i in g.mesh.n) == shape and int(g.nvdim) == nv
                and np.array_equal(np.asarray(g.mesh.region.pmin, dtype=float), np.array(p1))
                and np.array_equal(np.asarray(g.mesh.region.pmax, dtype=float), np.array(p2))
                and g.array.shape == kept.shape and np.array_equal(g.array, kept))
        if kind == "truncate":
            if len(bad) < data_end:
                ctx.fail(f"from_file.ovf/truncated-file-yields-field/{origin}-{rep}",
                         f"file cut at byte {len(bad)} (data block ends at {data_end}) still gives a field; "
                         f"equal to the original: {same}", instance=inst)
            elif not same:
                ctx.fail(f"from_file.ovf/truncated-trailer-changes-field/{origin}-{rep}",
                         f"file cut at byte {len(bad)} (after the data block) gives a different field", instance=inst)
            else:
                ctx.note("accepted:complete-data-block")
        else:
            ctx.fail(f"from_file.ovf/wrong-check-value-accepted/{origin}-{rep}",
                     f"check value bytes {bad[co:co + cn].hex()} instead of {raw[co:co + cn].hex()} accepted; "
                     f"field equal to the original: {same}", instance=inst)


def unit_shortblock(ctx):
    """observation only (notes): k values removed from the END of the data block, trailer intact."""
    origin, rep, nv = ctx.choose("file", FAULT_FILES[:3] if ctx.tier == "quick" else FAULT_FILES)
    k = ctx.choose("values-removed", [1, 2, 3, 5])
    with _Tmp() as d:
        path, raw, kept, p1, p2, shape, o = _fault_file(ctx, d, origin, rep, nv)
        data_end = o.data_offset + o.data_nbytes
        bad = raw[:data_end - k * o.check_nbytes] + raw[data_end:]
        p = os.path.join(d, "short.omf")
        with open(p, "wb") as fh:
            fh.write(bad)
        ctx.step(1, "from_file(short block, trailer intact)")
        raised, g = C.raises(df.Field.from_file, p)
        ctx.check()
        ctx.observe(raised)
        ctx.note("short-block-with-trailer:" + ("rejected" if raised else "ACCEPTED(not judged)"))


# ---------------------------------------------------------------------------
# provenance


def _produce(ctx, producer, nv, d):
    shape = (2, 3, 2)
    mesh = df.Mesh(region=df.Region(p1=(0.0, -1.5e-9, 2e-9), p2=(4e-9, 3e-9, 7e-9)), n=shape)
    vd = None if nv == 1 else ["a", "b", "c"][:nv]
    # sevenths: not representable in float32 either, so a field that silently keeps 4-byte precision after a bin4 file
    # is visible in a later text / 8-byte write
    f0 = df.Field(mesh, nvdim=nv, value=C.tracer(shape, nv, ctx.seed) / 7.0, vdims=vd, unit="A/m")
    if producer == "ctor":
        return f0
    ctx.step(1, f"producer {producer}")
    if producer in ("h5", "ovf", "vtk"):
        p = os.path.join(d, "src." + {"h5": "h5", "ovf": "ovf", "vtk": "vtk"}[producer])
        f0.to_file(p)
        return df.Field.from_file(p)
    if producer.startswith("ovf-") or producer.startswith("foreign-ovf1-"):
        # a field with a past in ANOTHER representation: 4-byte binary (float32 data in the file), a foreign OVF 1.0 file
        # (big-endian data in the file)
        rep = producer.rsplit("-", 1)[1]
        p = os.path.join(d, "src_" + producer + (".ovf" if producer.startswith("ovf-") else ".omf"))
        if producer.startswith("ovf-"):
            f0.to_file(p, representation=rep)
        else:
            if nv != 3:
                raise engine.Skip()
            R.write(p, version=1, representation=rep, pmin=tuple(float(x) for x in mesh.region.pmin),
                    pmax=tuple(float(x) for x in mesh.region.pmax), n=shape, data=np.asarray(f0.array, dtype=float),
                    meshunit="m", labels=None, units=["A/m"] * 3, style="oommf")
        return df.Field.from_file(p)
    if producer == "xarray":
        return df.Field.from_xarray(f0.to_xarray())
    if producer == "rotate90":
        return f0.rotate90("x", "y")
    if producer == "sel":
        return f0.sel(x=(0.0, 4e-9))
    if producer == "neg":
        return -f0
    raise RuntimeError(producer)


def unit_provenance(ctx):
    producer = ctx.choose("producer", ["ctor", "h5", "ovf", "vtk", "xarray", "rotate90", "sel", "neg", "ovf-bin4", "ovf-txt",
                                        "foreign-ovf1-bin8", "foreign-ovf1-bin4"])
    nv = ctx.choose("nvdim", [3, 1, 2])
    rep = ctx.choose("representation", ["bin8", "bin4", "txt"])
    with _Tmp() as d:
        try:
            f = _produce(ctx, producer, nv, d)
        except Exception as e:  # the producer itself is another property's business
            ctx.note(f"producer-failed:{producer}:{type(e).__name__}")
            raise engine.Skip()
        _roundtrip(ctx, f, rep, False, d, ("producer", "nvdim", "representation"), tag="p")


def unit_histories(ctx):
    """all write/read/mutate sequences on a two-path file store (mc/filehist.py): state leaking between calls"""
    from mc import filehist

    filehist.unit_store_histories(ctx, "ovf", "ovf")


def units(tier):
    return [
        {"name": "roundtrip", "fn": unit_roundtrip, "bound": None},
        {"name": "chunks", "fn": unit_chunks, "bound": None},
        {"name": "foreign", "fn": unit_foreign, "bound": None},
        {"name": "read_sequence", "fn": unit_read_sequence, "bound": None},
        {"name": "faults", "fn": unit_faults, "bound": None},
        {"name": "shortblock", "fn": unit_shortblock, "bound": None},
        {"name": "provenance", "fn": unit_provenance, "bound": None},
        {"name": "histories", "fn": unit_histories, "bound": None},
    ]
