"""C14 - subregions always stay inside, aligned with and measured in cells of their mesh.

Stateless exploration (units attach1d, attachnd, aligned1d, aligned2d, selrange1d,
reload): every cell-aligned index box of every lattice of the alphabets is
attached as a subregion (must be held, with the mesh's names/units, as that
index box; ``mesh[name]`` must be that box in parent cells), every misaligned /
oversized / fractional variant of it must be refused with the previous
subregions kept, ``is_aligned`` is compared with its truth table, and every
range selection (all index pairs, bounds at centres and at faces) must keep
exactly the overlapping boxes clipped to the selected cells.

Explicit-state search (unit hist): engine.bfs over histories of translate /
scale / rotate90 (copy and in place), plane selections at every cell, range
selections for all index pairs, JSON side-car and HDF5 reloads; the index-box
reference model is advanced with every event and compared with the real mesh
after EVERY transition.
"""
import itertools
import os
import shutil
import tempfile
from fractions import Fraction as Fr

import numpy as np

import discretisedfield as df
from mc import common as C
from mc import engine

PROPERTY = "C14"
RULE = ("units attach1d/attachnd: full product lattice x ALL aligned index boxes (each with all rejected variants); "
        "aligned1d/aligned2d: full product lattice x shift x fraction x cell ratio; selrange1d: full product lattice x "
        "all boxes x all index pairs x bound form; reload: mesh x layout x format x corner typing; hist: full product "
        "mesh x scale x layout x first event, then breadth-first search over all event histories up to the depth "
        "bound with the oracle on every transition. Non-trivial = at least one oracle comparison ran.")
ASSUMPTIONS = [
    "scope: 1-D axis alphabet offsets {0,0.1,-0.3,1/3,7.7,-123.456,1e4+0.1} x widths {1,0.1,0.3,1/3,0.7,2.5} x counts "
    "{1,2,3,5} (quick) / {1,2,3,5,7,10} (thorough) x scales 1e-12..1e6; 2-/3-D products of 2 (quick) / 4 (thorough) "
    "axes; histories: three meshes (1-, 2-, 3-D, 4..12 cells) x 6 subregion layouts x scales {1,1e-9(,1e3)}, "
    "depth <= 2 (quick) / 3 (thorough)",
    "an 'aligned box' has corners equal to the correctly rounded exact lattice faces (form 'exact') or to the mesh's "
    "own mesh.vertices (form 'vertices'); both are cell-aligned boxes in the sense of the statement",
    "a held subregion corner counts as on the lattice when it is within tau + 16 ulp(M) of an exact face, tau = "
    "tolerance_factor*(min(edges)+|x|) (the region's own comparison tolerance), M = largest corner magnitude met "
    "in the history",
    "candidates that must be refused are off the lattice / over the edge / fractional by >= 1 % of a cell and by at "
    "least 100 tau; anything closer is not probed",
    "is_aligned truth table: whole-cell origin shifts m in {0,1,-2,3,n} with identical cell -> True; shift fractions "
    "{0.5,0.25,0.1,0.01} or cells differing by 1 % / 10 % -> False; nothing in between is probed",
    "range bounds at cell centres select exactly those cells; a bound lying on a face may resolve to either adjacent "
    "cell (containment tolerance) - the selected cells are then read from the result and the subregions must be the "
    "overlap with THOSE cells",
    "rotation: subregions must be the rigidly rotated boxes (index model with the library's counter-clockwise "
    "convention read from the mesh region itself: only the position relative to the rotated region is compared)",
    "tolerance_factor of held subregions and exception types are recorded, not judged",
]

C_ULP = 16

OFFSETS = [0.0, 0.1, -0.3, 1.0 / 3.0, 7.7, -123.456, 1e4 + 0.1]
WIDTHS = [1.0, 0.1, 0.3, 1.0 / 3.0, 0.7, 2.5]
COUNTS = {"quick": [1, 2, 3, 5], "thorough": [1, 2, 3, 5, 7, 10]}
SCALES = [1.0, 1e-9, 1e-12, 1e-6, 1e-3, 1e3, 1e6]

# axis specs for small n-D meshes: (offset, width, count)
NAXES = [(0.1, 0.1, 3), (-0.3, 0.3, 2), (1.0 / 3.0, 1.0 / 3.0, 2), (7.7, 0.7, 3)]
ND_SCALES = {"quick": [1.0, 1e-9], "thorough": [1.0, 1e-9, 1e3]}


def _axis(offset, width, count, scale):
    lo = offset * scale
    return lo, lo + count * width * scale


def _boxes1(n):
    return [(i, j) for i in range(n) for j in range(i + 1, n + 1)]


# ---------------------------------------------------------------------------------------------
# reference: index boxes on the exact lattice


class Ref:
    def __init__(self, mesh, mhist=0.0):
        self.lat = C.Lattice.of(mesh)
        self.n = self.lat.n
        self.ndim = self.lat.ndim
        self.tol = Fr(float(mesh.region.tolerance_factor))
        self.minedge = min(b - a for a, b in zip(self.lat.pmin, self.lat.pmax))
        self.M = max([mhist] + [self.lat.magnitude(ax) for ax in range(self.ndim)])
        self.ulp = Fr(C.ulp(self.M))

    def band(self, x):
        return self.tol * (self.minedge + abs(x)) + C_ULP * self.ulp

    def index_of(self, ax, x):
        xf = Fr(float(x))
        k = round((xf - self.lat.pmin[ax]) / self.lat.cell[ax])
        return k, abs(xf - self.lat.face(ax, k)) <= self.band(xf)

    def box_of(self, region):
        """index box of a Region on this lattice -> (box, None) or (None, reason)"""
        box = []
        for ax in range(self.ndim):
            i, oki = self.index_of(ax, region.pmin[ax])
            j, okj = self.index_of(ax, region.pmax[ax])
            if not (oki and okj):
                return None, "off-lattice"
            if not (0 <= i and j <= self.n[ax]):
                return None, "outside-mesh"
            if not i < j:
                return None, "no-whole-cell"
            box.append((i, j))
        return tuple(box), None

    def face_f(self, ax, t):
        """correctly rounded float of the exact position pmin + t*cell (t rational)"""
        return float(self.lat.pmin[ax] + Fr(t) * self.lat.cell[ax])

    def far_enough(self, ax, frac):
        """is a deviation of frac cells large against every tolerance (so that refusal can be demanded)?"""
        far = abs(self.lat.pmin[ax]) + abs(self.lat.pmax[ax]) + 2 * self.lat.cell[ax]
        return Fr(frac) * self.lat.cell[ax] >= 100 * (self.tol * (self.minedge + far) + C_ULP * self.ulp)


def _coord_class(ref):
    """input class for refusals of valid inputs: are the coordinates so large that one ulp is no longer small
    against 1e-12 (the fixed absolute tolerance of Mesh.is_aligned)?"""
    return "large-coordinates" if ref.M >= 500.0 else "other"


def _mhist(mesh, prev=0.0):
    return max(prev, float(np.max(np.abs(mesh.region.pmin))), float(np.max(np.abs(mesh.region.pmax))))


def _region_of(ref, box, mesh=None, form="exact"):
    """Region (default names/units: the mesh has to impose its own) for an index box"""
    p1, p2 = [], []
    for ax, (i, j) in enumerate(box):
        if form == "vertices":
            v = np.asarray(mesh.vertices[ax], dtype=float)
            p1.append(float(v[i]))
            p2.append(float(v[j]))
        else:
            p1.append(ref.face_f(ax, i))
            p2.append(ref.face_f(ax, j))
    return df.Region(p1=p1, p2=p2)


def check_state(ctx, mesh, expected, site, inst, mhist=0.0, extract=True):
    """Invariant of C14 on a real mesh.  expected: dict name -> index box, or None.
    Returns dict name -> box for the subregions that are valid."""
    ref = Ref(mesh, mhist)
    subs = mesh.subregions
    ctx.check()
    actual = {}
    if not isinstance(subs, dict):
        ctx.fail(site + "/subregions-not-a-dict", f"{type(subs).__name__}", instance=inst)
        return actual
    for name, sr in subs.items():
        ctx.check(2)
        if not isinstance(sr, df.Region) or sr.ndim != ref.ndim:
            ctx.fail(site + "/subregion-not-a-region-of-the-mesh", f"{name}: {sr!r}", instance=inst)
            continue
        if tuple(sr.dims) != tuple(mesh.region.dims) or tuple(sr.units) != tuple(mesh.region.units):
            ctx.fail(site + "/subregion-without-mesh-names-or-units",
                     f"{name}: dims={sr.dims} units={sr.units}; mesh dims={mesh.region.dims} units={mesh.region.units}",
                     instance=inst)
        box, why = ref.box_of(sr)
        if box is None:
            ctx.fail(site + "/holds-subregion-" + why,
                     f"{name}: pmin={np.asarray(sr.pmin).tolist()} pmax={np.asarray(sr.pmax).tolist()} on mesh "
                     f"pmin={np.asarray(mesh.region.pmin).tolist()} pmax={np.asarray(mesh.region.pmax).tolist()} "
                     f"n={list(ref.n)}", instance=inst)
            continue
        actual[name] = box
        if ctx is not None and sr.tolerance_factor != mesh.region.tolerance_factor:
            ctx.note("subregion-tolerance-differs-from-mesh")
    if expected is not None:
        ctx.check()
        if actual != expected and len(actual) == len(subs):
            ctx.fail(site + "/wrong-subregions", f"holds {actual}, index-box reference {expected} (n={list(ref.n)})",
                     instance=inst)
    if extract:
        for name, box in actual.items():
            sr = subs[name]
            ctx.step(1)
            raised, sub = C.raises(mesh.__getitem__, name)
            ctx.check()
            if raised:
                ctx.fail("Mesh[name]/raises-for-held-subregion", f"{name} {box}: {type(sub).__name__}: {str(sub)[:120]}",
                         instance=inst)
                continue
            ok = (np.array_equal(np.asarray(sub.region.pmin, dtype=float), np.asarray(sr.pmin, dtype=float))
                  and np.array_equal(np.asarray(sub.region.pmax, dtype=float), np.asarray(sr.pmax, dtype=float))
                  and tuple(sub.region.dims) == tuple(sr.dims) and tuple(sub.region.units) == tuple(sr.units))
            if not ok:
                ctx.fail("Mesh[name]/region-is-not-the-subregion", f"{name}: {sub.region!r} vs {sr!r}", instance=inst)
            elif [int(v) for v in sub.n] != [j - i for i, j in box]:
                ctx.fail("Mesh[name]/not-in-parent-cells", f"{name} {box}: n={sub.n} cell={sub.cell} parent cell={mesh.cell}",
                         instance=inst)
    ctx.observe(sorted(actual.items()))
    return actual


# ---------------------------------------------------------------------------------------------
# attaching: every aligned box accepted, every bad variant refused


def _variants(ref, box, ax, tier="thorough"):
    """refused candidates derived from an aligned box by changing axis ax: (label, lo_t, hi_t, frac)
    in cell units (exact rationals); frac = size of the deviation in cells"""
    i, j = box[ax]
    n = ref.n[ax]
    out = []
    for lab, d in (("shift0.5", Fr(1, 2)), ("shift0.25", Fr(1, 4)), ("shift0.1", Fr(1, 10)), ("shift0.01", Fr(1, 100))):
        out.append((lab, i + d, j + d, d))
        out.append((lab, i - d, j - d, d))
    # one face only, by a small fraction of a cell (far outside the region's comparison tolerance, far inside any loose
    # "about a whole number of cells" test)
    for lab, d in (("one-face-off-1e-6", Fr(1, 1000000)),) + ((("one-face-off-1e-4", Fr(1, 10000)),) if tier == "thorough" else ()):
        out.append((lab, i, j + d, d))
        out.append((lab, i, j - d, d))
        out.append((lab, i + d, j, d))
        out.append((lab, i - d, j, d))
    out.append(("beyond-upper-end", i, n + 1, Fr(1)))
    out.append(("beyond-lower-end", -1, j, Fr(1)))
    out.append(("fractional-width", i, i + Fr(3, 2), Fr(1, 2)))
    out.append(("fractional-width", j - Fr(1, 2), j, Fr(1, 2)))
    out.append(("fractional-width", i + Fr(1, 4), j, Fr(1, 4)))
    return out


def _attach(ctx, mesh, box, inst):
    ref = Ref(mesh)
    ndim = ref.ndim
    seen = set()
    accepted_any = False
    for form in ("exact", "vertices"):
        reg = _region_of(ref, box, mesh, form)
        key = (tuple(np.asarray(reg.pmin).tolist()), tuple(np.asarray(reg.pmax).tolist()))
        if key in seen:
            continue
        seen.add(key)
        before = C.mesh_snap(mesh)
        ctx.step(1, f"mesh.subregions = {{'s': {form} box {box}}}")
        raised, e = C.raises(setattr, mesh, "subregions", {"s": reg})
        ctx.check()
        ctx.observe(form, raised)
        if raised:
            ctx.note("aligned-box-refused")
            ctx.fail("Mesh.subregions/refuses-aligned-box/" + form,
                     f"box {box} = [{np.asarray(reg.pmin).tolist()}, {np.asarray(reg.pmax).tolist()}] on mesh pmin="
                     f"{np.asarray(mesh.region.pmin).tolist()} pmax={np.asarray(mesh.region.pmax).tolist()} n={list(ref.n)}: "
                     f"{type(e).__name__}: {str(e)[:100]}", instance=inst)
            ctx.check()
            if C.mesh_snap(mesh) != before:
                ctx.fail("Mesh.subregions/refusal-changes-mesh", "state differs after a refused assignment", instance=inst)
            continue
        accepted_any = True
        check_state(ctx, mesh, {"s": box}, "Mesh.subregions", inst)
        # the same through the constructor
        ctx.step(1)
        raised, m2 = C.raises(lambda: df.Mesh(region=mesh.region, n=mesh.n, subregions={"s": reg}))
        ctx.check()
        if raised:
            ctx.fail("Mesh(subregions=)/refuses-aligned-box/" + form, f"box {box}: {type(m2).__name__}", instance=inst)
        else:
            check_state(ctx, m2, {"s": box}, "Mesh(subregions=)", inst, extract=False)
    # refused candidates; the previously attached box must survive
    if not accepted_any:
        mesh.subregions = {}
        keep = {}
    else:
        keep = {"s": box}
    for ax in range(ndim):
        for lab, lo_t, hi_t, frac in _variants(ref, box, ax, ctx.tier):
            if not ref.far_enough(ax, frac):
                ctx.note("variant-inside-tolerance-not-probed")
                continue
            p1 = [ref.face_f(a, box[a][0]) for a in range(ndim)]
            p2 = [ref.face_f(a, box[a][1]) for a in range(ndim)]
            p1[ax] = ref.face_f(ax, lo_t)
            p2[ax] = ref.face_f(ax, hi_t)
            cand = df.Region(p1=p1, p2=p2)
            before = C.mesh_snap(mesh)
            ctx.step(1)
            raised, e = C.raises(setattr, mesh, "subregions", {"ok": _region_of(ref, box), "bad": cand})
            ctx.check(2)
            ctx.observe(lab, raised)
            if not raised:
                ctx.fail("Mesh.subregions/accepts-bad-box/" + lab,
                         f"axis {ax}: candidate [{p1[ax]!r}, {p2[ax]!r}] = cells [{float(lo_t)}, {float(hi_t)}] of "
                         f"pmin={float(ref.lat.pmin[ax])!r} cell={float(ref.lat.cell[ax])!r} n={ref.n[ax]} was attached",
                         instance=inst)
                mesh.subregions = {"s": _region_of(ref, box)} if keep else {}
                continue
            ctx.note("bad-box-refused")
            if C.mesh_snap(mesh) != before:
                ctx.fail("Mesh.subregions/refusal-changes-mesh",
                         f"subregions after refused assignment: {mesh.subregions}", instance=inst)
                mesh.subregions = {"s": _region_of(ref, box)} if keep else {}


def unit_attach1d(ctx):
    offset = ctx.choose("offset", OFFSETS)
    width = ctx.choose("width", WIDTHS)
    count = ctx.choose("count", COUNTS[ctx.tier])
    scale = ctx.choose("scale", SCALES)
    box = ctx.choose("box", _boxes1(count))
    lo, hi = _axis(offset, width, count, scale)
    mesh = df.Mesh(region=df.Region(p1=(lo,), p2=(hi,), dims=("a",), units=("nm",)), n=(count,))
    _attach(ctx, mesh, (box,), ctx.key())


def unit_attachnd(ctx):
    nax = 2 if ctx.tier == "quick" else 4
    ndim = ctx.choose("ndim", [2, 3])
    axes = [ctx.choose(f"axis{k}", NAXES[:nax]) for k in range(ndim)]
    scale = ctx.choose("scale", ND_SCALES[ctx.tier])
    box = tuple(ctx.choose(f"box{k}", _boxes1(axes[k][2])) for k in range(ndim))
    lo, hi, n = [], [], []
    for (o, w, c) in axes:
        a, b = _axis(o, w, c, scale)
        lo.append(a)
        hi.append(b)
        n.append(c)
    dims = C.DIMSETS[ndim][2]
    mesh = df.Mesh(region=df.Region(p1=lo, p2=hi, dims=dims, units=C.UNITS_DISTINCT[:ndim]), n=n)
    _attach(ctx, mesh, box, ctx.key())


# ---------------------------------------------------------------------------------------------
# is_aligned truth table

SHIFTS = {"quick": [0, 1, -2], "thorough": [0, 1, -2, 3, "n"]}
FRACS = [Fr(0), Fr(1, 2), Fr(1, 4), Fr(1, 10), Fr(1, 100)]
RATIOS = [Fr(1), Fr(101, 100), Fr(11, 10)]


def _aligned_verdict(ctx, a, b, expect, why, inst):
    for x, y, d in ((a, b, "a.is_aligned(b)"), (b, a, "b.is_aligned(a)")):
        ctx.step(1)
        r = x.is_aligned(y)
        ctx.check()
        ctx.observe(bool(r))
        if bool(r) != expect:
            kind = {"whole": "false-for-whole-cell-shift", "frac": "true-for-fractional-shift",
                    "cell": "true-for-different-cell-size"}[why]
            ctx.fail("Mesh.is_aligned/" + kind,
                     f"{d} = {bool(r)}: a pmin={np.asarray(a.region.pmin).tolist()} cell={np.asarray(a.cell).tolist()} "
                     f"n={list(a.n)}; b pmin={np.asarray(b.region.pmin).tolist()} cell={np.asarray(b.cell).tolist()} "
                     f"n={list(b.n)}", instance=inst)
            return
    # the same question with the tolerance passed explicitly (the value the default stands for): same verdict
    big = max(float(np.abs(np.asarray(c, dtype=float)).max()) for c in (a.region.pmin, a.region.pmax, b.region.pmin, b.region.pmax))
    tol = 1e-12 * (float(np.min(a.cell)) + big)
    ctx.step(1)
    raised, r = C.raises(a.is_aligned, b, tol)
    ctx.check()
    if raised or bool(r) != expect:
        ctx.fail("Mesh.is_aligned/explicit-tolerance-changes-the-verdict",
                 f"a.is_aligned(b, {tol!r}) = {type(r).__name__ + ': ' + str(r)[:80] if raised else bool(r)}, expected {expect} ({why})",
                 instance=inst)


def unit_aligned1d(ctx):
    offset = ctx.choose("offset", OFFSETS)
    width = ctx.choose("width", WIDTHS)
    count = ctx.choose("count", COUNTS[ctx.tier])
    scale = ctx.choose("scale", SCALES)
    m = ctx.choose("shift", SHIFTS[ctx.tier])
    frac = ctx.choose("fraction", FRACS)
    ratio = ctx.choose("cellratio", RATIOS)
    lo, hi = _axis(offset, width, count, scale)
    a = df.Mesh(p1=(lo,), p2=(hi,), n=(count,))
    ref = Ref(a)
    mm = count if m == "n" else m
    k = 2
    lo_b = ref.face_f(0, mm + frac)
    hi_b = ref.face_f(0, mm + frac + k * ratio)
    b = df.Mesh(p1=(lo_b,), p2=(hi_b,), n=(k,))
    inst = ctx.key()
    if frac and not ref.far_enough(0, frac):
        ctx.note("fraction-inside-tolerance-not-probed")
        raise engine.Skip()
    if ratio != 1:
        _aligned_verdict(ctx, a, b, False, "cell", inst)
    elif frac:
        _aligned_verdict(ctx, a, b, False, "frac", inst)
    else:
        _aligned_verdict(ctx, a, b, True, "whole", inst)


def unit_aligned2d(ctx):
    nax = 2 if ctx.tier == "quick" else 4
    a0 = ctx.choose("axis0", NAXES[:nax])
    a1 = ctx.choose("axis1", NAXES[:nax])
    scale = ctx.choose("scale", SCALES)
    which = ctx.choose("varied_axis", [0, 1])
    m = ctx.choose("shift", [0, 1, -2])
    frac = ctx.choose("fraction", FRACS)
    ratio = ctx.choose("cellratio", RATIOS)
    lo, hi, n = [], [], []
    for (o, w, c) in (a0, a1):
        x, y = _axis(o, w, c, scale)
        lo.append(x)
        hi.append(y)
        n.append(c)
    a = df.Mesh(p1=lo, p2=hi, n=n)
    ref = Ref(a)
    if frac and not ref.far_enough(which, frac):
        ctx.note("fraction-inside-tolerance-not-probed")
        raise engine.Skip()
    # the other axis is shifted by a whole number of cells with the same cell
    sh = [Fr(1), Fr(1)]
    sh[which] = m + frac
    rat = [Fr(1), Fr(1)]
    rat[which] = ratio
    k = [2, 1]
    p1 = [ref.face_f(ax, sh[ax]) for ax in range(2)]
    p2 = [ref.face_f(ax, sh[ax] + k[ax] * rat[ax]) for ax in range(2)]
    b = df.Mesh(p1=p1, p2=p2, n=k)
    inst = ctx.key()
    if ratio != 1:
        _aligned_verdict(ctx, a, b, False, "cell", inst)
    elif frac:
        _aligned_verdict(ctx, a, b, False, "frac", inst)
    else:
        _aligned_verdict(ctx, a, b, True, "whole", inst)


# ---------------------------------------------------------------------------------------------
# range selection model (shared by selrange1d and hist)


def _clip(box_ax, lo, hi):
    """overlap of the index interval [i,j) with the selected cells lo..hi (inclusive), re-based to lo"""
    i, j = box_ax
    a, b = max(i, lo), min(j, hi + 1)
    return (a - lo, b - lo) if a < b else None


def _range_bounds(ref, ax, a, b, form, mesh):
    if form == "centres":
        c = np.asarray(mesh.cells[ax], dtype=float)
        return float(c[a]), float(c[b])
    return ref.face_f(ax, a), ref.face_f(ax, b + 1)


def _check_range_sel(ctx, mesh, boxes, ax, a, b, form, inst, mhist=0.0):
    """apply mesh.sel(dim=(lo,hi)) and compare with the index-box reference.
    Returns (result mesh, its boxes) or (None, None)."""
    ref = Ref(mesh, mhist)
    n = ref.n
    dim = mesh.region.dims[ax]
    lo_v, hi_v = _range_bounds(ref, ax, a, b, form, mesh)
    before = C.mesh_snap(mesh)
    raised, res = C.raises(lambda: mesh.sel(**{dim: (lo_v, hi_v)}))
    ctx.check()
    if raised:
        touching = any(bx[ax][1] in (a, a - 1) or bx[ax][0] in (b + 1, b + 2) for bx in boxes.values()) \
            if form == "faces" else any(bx[ax][1] == a or bx[ax][0] == b + 1 for bx in boxes.values())
        ctx.note("sel-range-raised")
        ctx.fail("Mesh.sel-range/raises/" + ("selection-face-on-subregion-face" if touching else _coord_class(ref)),
                 f"sel({dim}=({lo_v!r}, {hi_v!r})) [cells {a}..{b}, bounds at {form}] with subregions {boxes} on "
                 f"pmin={float(ref.lat.pmin[ax])!r} cell={float(ref.lat.cell[ax])!r} n={n[ax]}: {type(res).__name__}: "
                 f"{str(res)[:120]}", instance=inst)
        return None, None
    ctx.check()
    if C.mesh_snap(mesh) != before:
        ctx.fail("Mesh.sel-range/modifies-operand", "mesh changed by sel", instance=inst)
    # which cells were selected?  read from the result region on the parent lattice
    if res.region.ndim != ref.ndim or tuple(res.region.dims) != tuple(mesh.region.dims) \
            or tuple(res.region.units) != tuple(mesh.region.units):
        ctx.fail("Mesh.sel-range/result-names-or-units", f"{res.region!r}", instance=inst)
        return None, None
    rbox, why = ref.box_of(res.region)
    if rbox is None:
        ctx.fail("Mesh.sel-range/result-region-" + why, f"{res.region!r} from {mesh.region!r} n={n}", instance=inst)
        return None, None
    lo, hi = rbox[ax][0], rbox[ax][1] - 1
    allowed_lo = {a} if form == "centres" else {a, a - 1} & set(range(n[ax]))
    allowed_hi = {b} if form == "centres" else {b, b + 1} & set(range(n[ax]))
    ok = lo in allowed_lo and hi in allowed_hi and all(rbox[k] == (0, n[k]) for k in range(ref.ndim) if k != ax) \
        and [int(v) for v in res.n] == [rbox[k][1] - rbox[k][0] for k in range(ref.ndim)]
    ctx.check()
    if not ok:
        ctx.fail("Mesh.sel-range/wrong-cells-selected", f"cells {a}..{b} ({form}) requested on axis {ax}; result covers "
                 f"index box {rbox} with n={list(res.n)}", instance=inst)
        return None, None
    expected = {}
    for name, bx in boxes.items():
        c = _clip(bx[ax], lo, hi)
        if c is not None:
            expected[name] = tuple(c if k == ax else bx[k] for k in range(ref.ndim))
    got = check_state(ctx, res, expected, "Mesh.sel-range", inst, _mhist(res, mhist))
    return res, got


def unit_selrange1d(ctx):
    offset = ctx.choose("offset", OFFSETS)
    width = ctx.choose("width", WIDTHS)
    count = ctx.choose("count", [2, 3, 5] if ctx.tier == "quick" else [2, 3, 5, 7])
    scale = ctx.choose("scale", [1.0, 1e-9, 1e3] if ctx.tier == "quick" else SCALES)
    box = ctx.choose("box", _boxes1(count))
    form = ctx.choose("bounds", ["centres", "faces"])
    lo, hi = _axis(offset, width, count, scale)
    mesh0 = df.Mesh(region=df.Region(p1=(lo,), p2=(hi,), dims=("a",), units=("nm",)), n=(count,))
    ref = Ref(mesh0)
    raised, mesh = C.raises(lambda: df.Mesh(region=mesh0.region, n=(count,), subregions={"s": _region_of(ref, (box,))}))
    if raised:
        ctx.note("initial-mesh-refused(attach1d reports it)")
        raise engine.Skip()
    base = ctx.key()
    for a in range(count):
        for b in range(a, count):
            ctx.step(1, f"sel(a=cells {a}..{b} at {form})")
            _check_range_sel(ctx, mesh, {"s": (box,)}, 0, a, b, form, f"{base};range=({a}, {b})")


def unit_selrange_int(ctx):
    """integer-typed corners everywhere (region AND subregion given as Python ints) with fractional cells: every range
    selection (all index pairs, bounds at centres and at faces) must keep the overlapping subregion clipped to the
    selected cells - a clip face at a non-integer coordinate must not be rounded to an integer"""
    nd = ctx.choose("ndim", [1, 2])
    N = ctx.choose("edge", [3, 4])
    per = ctx.choose("cells-per-unit-length", [2] if ctx.tier == "quick" else [2, 4])
    lo0 = ctx.choose("lower-corner", [0, -2])
    i0 = ctx.choose("subregion-from", list(range(0, N)))
    i1 = ctx.choose("subregion-to", list(range(i0 + 1, N + 1)))
    form = ctx.choose("bounds", ["centres", "faces"])
    count = N * per
    if nd == 1:
        region = df.Region(p1=(lo0,), p2=(lo0 + N,), dims=("a",), units=("nm",))
        sub = df.Region(p1=(lo0 + i0,), p2=(lo0 + i1,))
        n = (count,)
        box = ((i0 * per, i1 * per),)
    else:
        region = df.Region(p1=(lo0, 1), p2=(lo0 + N, 3), dims=("a", "b"), units=("nm", "um"))
        sub = df.Region(p1=(lo0 + i0, 1), p2=(lo0 + i1, 2))
        n = (count, 4)
        box = ((i0 * per, i1 * per), (0, 2))
    raised, mesh = C.raises(lambda: df.Mesh(region=region, n=n, subregions={"s": sub}))
    if raised:
        ctx.fail("Mesh(subregions=)/refuses-aligned-box/integer-typed-corners", f"{type(mesh).__name__}: {str(mesh)[:140]}")
        return
    base = ctx.key()
    for a in range(count):
        for b in range(a, count):
            ctx.step(1, f"sel(a=cells {a}..{b} at {form})")
            _check_range_sel(ctx, mesh, {"s": box}, 0, a, b, form, f"{base};range=({a}, {b})")


# ---------------------------------------------------------------------------------------------
# persistence


def _layouts(n):
    """the six subregion layouts as index boxes; axis 0 has >= 3 cells"""
    full = [(0, k) for k in n]
    n0 = n[0]

    def bx(i, j):
        return tuple([(i, j)] + full[1:])

    interior = tuple((1, k - 1) if k >= 3 else (0, 1) for k in n)
    return {
        "none": {},
        "interior": {"a": interior},
        # listed in NON-alphabetical order: whatever sorts the names must keep each name with its own box
        "disjoint": {"b": bx(0, 1), "a": bx(n0 - 1, n0)},
        "touching": {"b": bx(0, 1), "a": bx(1, 2)},
        "overlapping": {"b": bx(0, 2), "a": bx(1, 3)},
        "all": {"a": tuple(full)},
    }


HMESHES = {
    # name: (offsets, widths, counts, dims, units)
    "1d": ((0.1,), (0.1,), (4,), ("x",), ("m",)),
    "2d": ((0.1, -0.3), (0.1, 0.3), (3, 2), ("a", "b"), ("nm", "um")),
    "3d": ((0.0, 1.0 / 3.0, 7.7), (1.0, 1.0 / 3.0, 0.7), (3, 2, 2), ("z", "x", "y"), ("m", "m", "m")),
    "4d": ((0.1, 0.0, -0.3, 7.7), (0.1, 1.0, 0.3, 0.7), (3, 1, 2, 1), ("t", "z", "x", "y"), ("nm", "um", "s", "K")),
}
HNAMES = {"quick": ["1d", "2d", "3d"], "thorough": ["1d", "2d", "3d", "4d"]}


def _hmesh(name, scale, layout, int_corners=False):
    offs, wids, n, dims, units = HMESHES[name]
    if int_corners:
        # integer typed region corners, half-integer subregion faces
        p1 = [int(k) for k in range(len(n))]
        p2 = [int(a + c) for a, c in zip(p1, n)]
        n = tuple(2 * c for c in n)
    else:
        p1, p2 = [], []
        for o, w, c in zip(offs, wids, n):
            a, b = _axis(o, w, c, scale)
            p1.append(a)
            p2.append(b)
    bare = df.Mesh(region=df.Region(p1=p1, p2=p2, dims=dims, units=units), n=n)
    ref = Ref(bare)
    boxes = _layouts(n)[layout]
    subs = {k: _region_of(ref, b) for k, b in boxes.items()}
    return bare, boxes, subs


def _reload(mesh, fmt, tmp):
    if fmt == "json":
        fn = os.path.join(tmp, "f.ovf")
        mesh.save_subregions(fn)
        m2 = df.Mesh(region=df.Region(p1=mesh.region.pmin, p2=mesh.region.pmax, dims=mesh.region.dims,
                                      units=mesh.region.units, tolerance_factor=mesh.region.tolerance_factor),
                     n=mesh.n, bc=mesh.bc)
        m2.load_subregions(fn)
        return m2
    fn = os.path.join(tmp, "f.h5")
    df.Field(mesh, nvdim=1, value=1.0).to_file(fn)
    return df.Field.from_file(fn).mesh


def unit_reload(ctx):
    name = ctx.choose("mesh", HNAMES[ctx.tier])
    corners = ctx.choose("corners", ["float", "int"])
    scale = ctx.choose("scale", [1.0] if corners == "int" else ND_SCALES[ctx.tier])
    layout = ctx.choose("layout", ["interior", "none", "disjoint", "touching", "overlapping", "all"])
    fmt = ctx.choose("format", ["json", "hdf5"])
    bare, boxes, subs = _hmesh(name, scale, layout, corners == "int")
    inst = ctx.key()
    raised, mesh = C.raises(lambda: df.Mesh(region=bare.region, n=bare.n, subregions=subs))
    if raised:
        ctx.note("initial-mesh-refused(attach reports it)")
        raise engine.Skip()
    tmp = tempfile.mkdtemp(dir="/dev/shm", prefix="c14_")
    try:
        ctx.step(1, f"save + load ({fmt})")
        raised, m2 = C.raises(_reload, mesh, fmt, tmp)
        ctx.check()
        if raised:
            ctx.fail(f"reload-{fmt}/raises/{corners}-corners", f"{layout}: {type(m2).__name__}: {str(m2)[:160]}", instance=inst)
            return
        ctx.check()
        if not (m2 == mesh):
            ctx.fail(f"reload-{fmt}/mesh-differs", f"{m2!r} vs {mesh!r}", instance=inst)
            return
        check_state(ctx, m2, boxes, f"reload-{fmt}", inst)
        ctx.check()
        if list(m2.subregions) != list(mesh.subregions):
            ctx.note("reload-changes-subregion-order")
    finally:
        shutil.rmtree(tmp, ignore_errors=True)


def unit_reload_other_mesh(ctx):
    """The JSON side-car is loaded into ANOTHER mesh object than the one that wrote it (this is what every OVF / VTK read
    does: the file stores neither dimension names nor units, the mesh is rebuilt with the defaults):
      * same lattice, other names / units -> the held subregions carry the LOADING mesh's names and units;
      * a lattice on which the stored boxes are not whole cells (double cell size, shifted by half a cell) -> the load is
        refused and the subregions the mesh held before are kept."""
    name = ctx.choose("mesh", ["2d", "3d"])
    layout = ctx.choose("layout", ["interior", "disjoint", "touching"])
    target = ctx.choose("loaded-into", ["same-lattice-default-names-and-units", "same-lattice-other-names-and-units",
                                        "lattice-with-double-cells", "lattice-shifted-by-half-a-cell"])
    bare, boxes, subs = _hmesh(name, 1.0, layout)
    src = df.Mesh(region=bare.region, n=bare.n, subregions=subs)
    nd = src.region.ndim
    pmin, pmax = np.asarray(src.region.pmin, dtype=float), np.asarray(src.region.pmax, dtype=float)
    n = [int(k) for k in src.n]
    inst = ctx.key()
    tmp = tempfile.mkdtemp(dir="/dev/shm", prefix="c14_")
    try:
        fn = os.path.join(tmp, "f.ovf")
        src.save_subregions(fn)
        if target.startswith("same-lattice"):
            dims = None if "default" in target else ["p", "q", "r"][:nd]
            units = None if "default" in target else ["mm", "km", "h"][:nd]
            m2 = df.Mesh(region=df.Region(p1=pmin, p2=pmax, dims=dims, units=units), n=n)
            ctx.step(1, f"load_subregions into a mesh with dims {m2.region.dims} units {m2.region.units}")
            raised, e = C.raises(m2.load_subregions, fn)
            ctx.check()
            if raised:
                ctx.fail("load_subregions/raises-on-the-same-lattice", f"{type(e).__name__}: {str(e)[:140]}", instance=inst)
                return
            check_state(ctx, m2, boxes, "load_subregions-other-mesh", inst)
            return
        # a lattice the boxes do not fit: previous subregions survive a refused load
        if target == "lattice-with-double-cells":
            if any(k % 2 for k in n):
                n2 = [max(1, k // 2) if k % 2 == 0 else k for k in n]
                if n2 == n:
                    raise engine.Skip()
            else:
                n2 = [k // 2 for k in n]
            p1, p2 = pmin, pmax
        else:
            cell = (pmax - pmin) / np.array(n)
            p1, p2, n2 = pmin + cell / 2, pmax + cell / 2, n
        m2 = df.Mesh(region=df.Region(p1=p1, p2=p2), n=n2)
        keep = {"kept": df.Region(p1=m2.region.pmin, p2=m2.region.pmax)}
        m2.subregions = keep
        before = C.mesh_snap(m2)
        ref = Ref(m2)
        fits = all(ref.box_of(df.Region(p1=v.pmin, p2=v.pmax))[0] is not None for v in subs.values())
        if fits:
            raise engine.Skip()  # by coincidence whole cells of the other lattice as well
        ctx.step(1, f"load_subregions into {target}")
        raised, e = C.raises(m2.load_subregions, fn)
        ctx.check(2)
        if not raised:
            ctx.fail("load_subregions/accepts-boxes-that-are-not-whole-cells-of-the-mesh", f"{target}: mesh now holds "
                     f"{ {k: (np.asarray(v.pmin).tolist(), np.asarray(v.pmax).tolist()) for k, v in m2.subregions.items()} }", instance=inst)
        elif C.mesh_snap(m2) != before:
            ctx.fail("load_subregions/refused-but-previous-subregions-lost", f"{target}: {list(m2.subregions)}", instance=inst)
    finally:
        shutil.rmtree(tmp, ignore_errors=True)


# ---------------------------------------------------------------------------------------------
# explicit-state search over histories


class St:
    __slots__ = ("mesh", "boxes", "mhist")

    def __init__(self, mesh, boxes, mhist):
        self.mesh, self.boxes, self.mhist = mesh, boxes, mhist


def _events(st, tier):
    mesh = st.mesh
    n = [int(v) for v in mesh.n]
    ndim = len(n)
    ev = []
    for inplace in (False, True):
        ev.append(("translate", "odd", inplace))
        ev.append(("scale", "2", "centre", inplace))
        ev.append(("scale", "aniso", "pmin", inplace))
    if tier != "quick":
        for inplace in (False, True):
            ev.append(("translate", "cell", inplace))
            ev.append(("scale", "third", "centre", inplace))
    if ndim >= 2:
        pairs = [(0, 1)] if ndim == 2 else [(0, 1), (2, 0)]
        if tier != "quick" and ndim >= 3:
            pairs.append((1, 2))
        if ndim == 4:
            pairs.append((3, 1))
        for (p, q) in pairs:
            for k in (1, 2, 3):
                for inplace in (False, True):
                    ev.append(("rotate90", p, q, k, "centre", inplace))
            ev.append(("rotate90", p, q, 1, "pmin", False))
        for ax in range(ndim):
            for c in range(n[ax]):
                ev.append(("plane", ax, c))
    for ax in range(ndim):
        for a in range(n[ax]):
            for b in range(a, n[ax]):
                if (a, b) == (0, n[ax] - 1):
                    continue  # the whole axis: identity
                ev.append(("range", ax, a, b, "centres"))
                ev.append(("range", ax, a, b, "faces"))
    ev.append(("json",))
    ev.append(("hdf5",))
    return ev


def _reflect(iv, n):
    return (n - iv[1], n - iv[0])


def _model(boxes, n, ev):
    """index-box reference model: boxes after the event (None = decided inside the range oracle)"""
    kind = ev[0]
    if kind in ("translate", "scale", "json", "hdf5"):
        return dict(boxes)
    if kind == "rotate90":
        _, p, q, k, _, _ = ev
        out = {}
        for name, bx in boxes.items():
            nb = list(bx)
            if k % 4 == 1:
                nb[p], nb[q] = _reflect(bx[q], n[q]), bx[p]
            elif k % 4 == 2:
                nb[p], nb[q] = _reflect(bx[p], n[p]), _reflect(bx[q], n[q])
            elif k % 4 == 3:
                nb[p], nb[q] = bx[q], _reflect(bx[p], n[p])
            out[name] = tuple(nb)
        return out
    if kind == "plane":
        _, ax, c = ev
        return {name: tuple(iv for k, iv in enumerate(bx) if k != ax) for name, bx in boxes.items()
                if bx[ax][0] <= c < bx[ax][1]}
    return None


def _apply(st, ev, tmp):
    """apply the event on the REAL mesh (may raise); returns the resulting mesh"""
    mesh = st.mesh
    kind = ev[0]
    ndim = mesh.region.ndim
    if kind == "translate":
        _, code, inplace = ev
        cell = np.asarray(mesh.cell, dtype=float)
        v = [float(cell[0])] + [0.0] * (ndim - 1) if code == "cell" else [0.37 * (k + 1) * float(cell[k]) for k in range(ndim)]
        return mesh.translate(tuple(v), inplace=inplace)
    if kind == "scale":
        _, f, refp, inplace = ev
        factor = {"2": 2.0, "third": 1.0 / 3.0, "aniso": tuple([2.0, 0.5, 3.0, 0.25][:ndim]) if ndim > 1 else 0.5}[f]
        rp = None if refp == "centre" else tuple(float(x) for x in mesh.region.pmin)
        return mesh.scale(factor, reference_point=rp, inplace=inplace)
    if kind == "rotate90":
        _, p, q, k, refp, inplace = ev
        d = mesh.region.dims
        rp = None if refp == "centre" else tuple(float(x) for x in mesh.region.pmin)
        return mesh.rotate90(d[p], d[q], k=k, reference_point=rp, inplace=inplace)
    if kind == "plane":
        _, ax, c = ev
        return mesh.sel(**{mesh.region.dims[ax]: float(np.asarray(mesh.cells[ax], dtype=float)[c])})
    if kind == "json":
        return _reload(mesh, "json", tmp)
    if kind == "hdf5":
        return _reload(mesh, "hdf5", tmp)
    raise RuntimeError(f"unknown event {ev}")


def _ev_label(ev):
    return ev[0] if ev[0] != "range" else "sel-range"


def _transition(ctx, st, ev, tmp, inst):
    """oracle for ONE transition on fresh real objects; returns the successor state or None"""
    kind = ev[0]
    mesh = st.mesh
    n = [int(v) for v in mesh.n]
    if kind == "range":
        _, ax, a, b, form = ev
        res, got = _check_range_sel(ctx, mesh, st.boxes, ax, a, b, form, inst, st.mhist)
        if res is None or got is None or len(got) != len(res.subregions):
            return None
        return St(res, got, _mhist(res, st.mhist))
    inplace = kind in ("translate", "scale", "rotate90") and ev[-1] is True
    site = {"translate": "Mesh.translate", "scale": "Mesh.scale", "rotate90": "Mesh.rotate90", "plane": "Mesh.sel-plane",
            "json": "reload-json", "hdf5": "reload-hdf5"}[kind] + ("-inplace" if inplace else "")
    before = C.mesh_snap(mesh)
    raised, res = C.raises(_apply, st, ev, tmp)
    ctx.check()
    if raised:
        ctx.note("transition-raised:" + kind)
        ctx.fail(site + "/raises-on-valid-mesh/" + _coord_class(Ref(mesh, st.mhist)), f"{ev} on pmin={np.asarray(mesh.region.pmin).tolist()} "
                 f"pmax={np.asarray(mesh.region.pmax).tolist()} n={n} subregions {st.boxes}: {type(res).__name__}: "
                 f"{str(res)[:140]}", instance=inst)
        return None
    if not inplace:
        ctx.check()
        if C.mesh_snap(mesh) != before:
            ctx.fail(site + "/modifies-operand", f"{ev}", instance=inst)
    if not isinstance(res, df.Mesh):
        ctx.fail(site + "/result-not-a-mesh", f"{type(res).__name__}", instance=inst)
        return None
    mh = _mhist(res, st.mhist)
    expected = _model(st.boxes, n, ev)
    got = check_state(ctx, res, expected, site, inst, mh)
    if got != expected:
        return None
    return St(res, got, mh)


def _canon(st):
    m = st.mesh
    s = float(np.max(np.abs(np.concatenate([np.asarray(m.region.pmin, float), np.asarray(m.region.pmax, float)])))) or 1.0
    rc = tuple(round(float(x) / s, 7) for x in np.concatenate([np.asarray(m.region.pmin, float),
                                                                np.asarray(m.region.pmax, float)]))
    return (tuple(int(v) for v in m.n), tuple(m.region.dims), tuple(m.region.units), rc,
            "%.3e" % s, tuple(sorted(st.boxes.items())))


def unit_hist(ctx):
    name = ctx.choose("mesh", HNAMES[ctx.tier])
    scale = ctx.choose("scale", [1.0] if (ctx.tier == "quick" and name == "3d") else ND_SCALES[ctx.tier])
    # depth 3 where the event alphabet allows it (1-D and 2-D meshes), depth 2 elsewhere
    depth = 3 if (ctx.tier != "quick" and name in ("1d", "2d") and scale != 1e3) else 2
    layout = ctx.choose("layout", ["interior", "none", "disjoint", "touching", "overlapping", "all"])
    bare, boxes, subs = _hmesh(name, scale, layout)

    def initial():
        m = df.Mesh(region=df.Region(p1=bare.region.pmin, p2=bare.region.pmax, dims=bare.region.dims,
                                     units=bare.region.units), n=bare.n, subregions=subs)
        return St(m, dict(boxes), _mhist(m))

    raised, st0 = C.raises(initial)
    if raised:
        ctx.note("initial-mesh-refused(attach reports it)")
        raise engine.Skip()
    first = ctx.choose("first", [None] + _events(st0, ctx.tier))
    base = ctx.key()
    tmp = tempfile.mkdtemp(dir="/dev/shm", prefix="c14_")
    try:
        if first is None:
            # the initial state itself: held as the layout's index boxes; a set with one bad box is refused as a whole
            check_state(ctx, st0.mesh, boxes, "Mesh(subregions=)", base)
            ref = Ref(st0.mesh)
            bad = dict(subs)
            p1 = [ref.face_f(ax, Fr(1, 2)) for ax in range(ref.ndim)]
            p2 = [ref.face_f(ax, Fr(3, 2)) for ax in range(ref.ndim)]
            bad["zz"] = df.Region(p1=p1, p2=p2)
            before = C.mesh_snap(st0.mesh)
            ctx.step(1)
            raised, e = C.raises(setattr, st0.mesh, "subregions", bad)
            ctx.check(2)
            if not raised:
                ctx.fail("Mesh.subregions/accepts-bad-box/shift0.5", f"set {list(bad)} with a half-cell shifted box attached",
                         instance=base)
            elif C.mesh_snap(st0.mesh) != before:
                ctx.fail("Mesh.subregions/refusal-changes-mesh", f"{st0.mesh.subregions}", instance=base)
            return

        def build(hist):
            st = initial()
            for ev in hist:
                if ev[0] == "range":
                    _, ax, a, b, form = ev
                    ref = Ref(st.mesh, st.mhist)
                    lo_v, hi_v = _range_bounds(ref, ax, a, b, form, st.mesh)
                    res = st.mesh.sel(**{st.mesh.region.dims[ax]: (lo_v, hi_v)})
                    rbox, _ = ref.box_of(res.region)
                    lo, hi = rbox[ax][0], rbox[ax][1] - 1
                    nb = {}
                    for nm, bx in st.boxes.items():
                        c = _clip(bx[ax], lo, hi)
                        if c is not None:
                            nb[nm] = tuple(c if k == ax else bx[k] for k in range(ref.ndim))
                    st = St(res, nb, _mhist(res, st.mhist))
                else:
                    n = [int(v) for v in st.mesh.n]
                    res = _apply(st, ev, tmp)
                    st = St(res, _model(st.boxes, n, ev), _mhist(res, st.mhist))
            return st

        def on_transition(hist, ev):
            st = build(hist)
            inst = base + ";then=" + "|".join(repr(e) for e in hist[1:] + (ev,))
            return _transition(ctx, st, ev, tmp, inst)

        # the first event is a choice point (parallelism); its transition is checked here
        nxt = _transition(ctx, initial(), first, tmp, base)
        ctx.step(1, repr(first))
        if nxt is None:
            return
        ctx.state("bfs", _canon(st0))
        ns, nt, capped = engine.bfs(ctx, [(first,)], lambda st, h: _events(st, ctx.tier), build, _canon, on_transition,
                                    depth)
        ctx.note("bfs-states", ns)
    finally:
        shutil.rmtree(tmp, ignore_errors=True)


def _sub_state_ok(mesh):
    """the part of the property that needs no reference lattice: every subregion has pmin < pmax and lies in the region"""
    r = mesh.region
    lo, hi = np.asarray(r.pmin, float), np.asarray(r.pmax, float)
    if not np.all(lo < hi):
        return "region has an empty direction"
    slack = 4 * np.spacing(np.maximum(np.abs(lo), np.abs(hi)))
    for k, v in mesh.subregions.items():
        a, b = np.asarray(v.pmin, float), np.asarray(v.pmax, float)
        if not np.all(a < b):
            return f"subregion {k!r} has an empty direction"
        if np.any(a < lo - slack) or np.any(b > hi + slack):
            return f"subregion {k!r} [{a.tolist()}, {b.tolist()}] reaches outside the region [{lo.tolist()}, {hi.tolist()}]"
    return None


def unit_absorbing_steps(ctx):
    """Steps so large that floating point absorbs a thin subregion before it absorbs the region: translation by 2^k cells,
    scaling about a reference point 2^k cells away.  Refusing is fine, carrying the step out is fine - but a refusal leaves
    the mesh (region AND every subregion) exactly as it was, an accepted step leaves every subregion non-empty and inside
    the region, and the in-place form does what the copying form does."""
    ndim = ctx.choose("ndim", [1, 2, 3])
    op = ctx.choose("step", ["translate", "scale-about-far-point"])
    k = ctx.choose("log2(distance in cells)", [49, 50, 51, 52, 53, 54, 55, 56, 60])
    sign = ctx.choose("sign", [1.0, -1.0])
    order = ctx.choose("subregion-order", ["wide-first", "thin-first", "thin-in-the-middle"])
    form = ctx.choose("form", ["in", "copy"])
    n = [10, 4, 2][:ndim]
    cell = [1.0, 0.5, 2.0][:ndim]
    pmin = [0.0, -1.0, 4.0][:ndim]
    pmax = [a + c * m for a, c, m in zip(pmin, cell, n)]

    def box(i, j):
        return df.Region(p1=[pmin[0] + i * cell[0]] + pmin[1:], p2=[pmin[0] + j * cell[0]] + pmax[1:])

    subs = {"wide-first": [("left", (0, 3)), ("thin", (3, 4)), ("right", (6, 10))],
            "thin-first": [("thin", (3, 4)), ("left", (0, 3)), ("right", (6, 10))],
            "thin-in-the-middle": [("left", (0, 3)), ("right", (6, 10)), ("thin", (4, 5)), ("last", (9, 10))]}[order]

    def build():
        return df.Mesh(region=df.Region(p1=pmin, p2=pmax), n=n, subregions={nm: box(*ij) for nm, ij in subs})

    dist = sign * float(2 ** k) * cell[0]
    mesh, other = build(), build()
    before = C.mesh_snap(mesh)

    def call(m, inplace):
        if op == "translate":
            return m.translate([dist] + [0.0] * (ndim - 1), inplace=inplace)
        return m.scale(0.5, reference_point=[dist] + [0.5 * (a + b) for a, b in zip(pmin[1:], pmax[1:])], inplace=inplace)

    ctx.step(2, f"{op} by 2^{k} cells ({form}) and the other form")
    with np.errstate(all="ignore"):
        raised, res = C.raises(call, mesh, form == "in")
        raised_o, res_o = C.raises(call, other, form != "in")
    ctx.check(2)
    ctx.observe(raised, raised_o)
    inst = ctx.key()
    site = "Mesh.translate" if op == "translate" else "Mesh.scale"
    if raised != raised_o:
        ctx.fail(f"{site}/absorbing-step/forms-disagree", f"{form} form {'refused' if raised else 'accepted'}, the other form "
                 f"{'refused' if raised_o else 'accepted'} ({type(res).__name__ if raised else ''}{type(res_o).__name__ if raised_o else ''})",
                 instance=inst)
    if raised:
        if C.mesh_snap(mesh) != before:
            now = {kk: (np.asarray(v.pmin).tolist(), np.asarray(v.pmax).tolist()) for kk, v in mesh.subregions.items()}
            ctx.fail(f"{site}/absorbing-step/refusal-left-the-mesh-changed/{form}",
                     f"{type(res).__name__}: {str(res)[:100]}; region now {np.asarray(mesh.region.pmin).tolist()}.."
                     f"{np.asarray(mesh.region.pmax).tolist()}, subregions {now}", instance=inst)
        return
    got = mesh if form == "in" else res
    ctx.check()
    if form == "in" and res is not mesh:
        ctx.fail(f"{site}/absorbing-step/in-place-form-returns-another-object", "", instance=inst)
    if form == "copy" and C.mesh_snap(mesh) != before:
        ctx.fail(f"{site}/absorbing-step/copying-form-modified-the-original", "", instance=inst)
    why = _sub_state_ok(got)
    if why:
        ctx.fail(f"{site}/absorbing-step/accepted-step-leaves-a-broken-mesh", why, instance=inst)
    elif list(got.subregions) != [nm for nm, _ in subs]:
        ctx.fail(f"{site}/absorbing-step/subregions-lost", f"{list(got.subregions)}", instance=inst)


def units(tier):
    return [
        {"name": "attach1d", "fn": unit_attach1d, "bound": None},
        {"name": "attachnd", "fn": unit_attachnd, "bound": None},
        {"name": "aligned1d", "fn": unit_aligned1d, "bound": None},
        {"name": "aligned2d", "fn": unit_aligned2d, "bound": None},
        {"name": "selrange1d", "fn": unit_selrange1d, "bound": None},
        {"name": "selrange_int", "fn": unit_selrange_int, "bound": None},
        {"name": "reload", "fn": unit_reload, "bound": None},
        {"name": "reload_other_mesh", "fn": unit_reload_other_mesh, "bound": None},
        {"name": "hist", "fn": unit_hist, "bound": None},
        {"name": "absorbing_steps", "fn": unit_absorbing_steps, "bound": None},
    ]
