"""C01 - mesh cells tile the region; index <-> coordinate maps are mutually inverse.

Stateless exploration.  Every lattice of the 1-D axis alphabet (offset x cell
width x count x scale x corner order) and every n-D product of a reduced axis
list is built on the real ``Mesh``; for each mesh EVERY cell index and a fixed
per-axis probe list (centres, faces computed three ways, faces +- 1 ulp, faces
+- 1e-6 cell, quarter points, corners, outside points) is sent through
``index2point`` / ``point2index`` and compared with the exact rational lattice
built from the mesh's actual float corners.  A second family of units requests
meshes by cell size for every divisor count and for non-commensurate /
oversize cells.
"""
import itertools
import math
from fractions import Fraction as Fr

import numpy as np

import discretisedfield as df
from mc import common as C
from mc import engine

PROPERTY = "C01"
RULE = ("units lattice1d / lattice2d / lattice3d / lattice4d: full product of the axis alphabets (offset x width x "
        "count x scale x corner order [x names]); inside one execution ALL cell indices and the complete per-axis "
        "probe list are evaluated. units bycell1d / bycell2d: full product lattice x requested count k x variant. "
        "unit aliasing: ndim x container type of the constructor arguments x which of the caller's / the returned arrays is "
        "modified in place afterwards; unit history: full product ndim x geometry x described-before x step1 x form1 x step2 (or none) x form2 over "
        "translate / scale / quarter-turn steps, the whole description re-checked after every step. "
        "An execution is non-trivial when at least one oracle comparison ran.")
ASSUMPTIONS = [
    "scope: 1-D axis alphabet offsets {0,0.1,-0.3,1/3,7.7,-123.456,1e4+0.1} x widths {1,0.1,0.3,1/3,0.7,2.5} x counts "
    "{1,2,3,5,7,10(,13)} x scales 1e-12..1e6 x both corner orders; n-D: products of a reduced list of 4 (quick) / 8 "
    "(thorough) axes, anisotropy up to 1e3, overall scales {1,1e-9(,1e6)}, 3 naming schemes, 2 corner orders "
    "(4-D: naming and corner order derived from the axis choice; quick: scale 1 only)",
    "reference = exact rational lattice from the mesh's float corners; a float coordinate is accepted within "
    "8 ulp(M), M = largest corner magnitude of that axis",
    "a probe within tau(p)+8ulp(M) of a face (tau = tolerance_factor*(min(edges)+|p|), the region's own containment "
    "tolerance) may map to either adjacent cell; a probe outside the region by less than max(1e-6 cell, 100 tau) may "
    "be rejected or mapped to the end cell; only probes farther out must be rejected",
    "requested cell sizes: fl(edges/k) must give n=k; edges/(k+d), d in {0.5,0.1,0.01}, and cells 1.01x, 1.5x, 3x the "
    "region must be refused; sizes closer than 1 % of a cell to commensurate are not probed",
    "wrong-length and float indices/points are recorded (notes) but not judged: the statement only speaks about "
    "indices/points outside the region",
]

OFFSETS = [0.0, 0.1, -0.3, 1.0 / 3.0, 7.7, -123.456, 1e4 + 0.1]
WIDTHS = [1.0, 0.1, 0.3, 1.0 / 3.0, 0.7, 2.5]
COUNTS = {"quick": [1, 2, 3, 5, 7, 10], "thorough": [1, 2, 3, 5, 7, 10, 13]}
SCALES = [1.0, 1e-9, 1e-12, 1e-6, 1e-3, 1e3, 1e6]

# reduced axis list for n-D products: (offset, width, count, relative scale)
RAXES = [
    (0.0, 1.0, 1, 1.0),          # single cell, representable
    (0.1, 0.1, 3, 1.0),          # non-representable faces
    (-0.3, 0.3, 2, 1.0),         # straddles zero
    (1.0 / 3.0, 1.0 / 3.0, 5, 1.0),
    (7.7, 0.7, 3, 1e-2),         # thin axis
    (-123.456, 2.5, 2, 1.0),     # offset >> cell
    (1e4 + 0.1, 0.1, 4, 1.0),    # offset >> edge: relative tolerance dominates
    (0.1, 0.7, 2, 10.0),         # thick axis (anisotropy 1e3 against the thin one)
]
ND_SCALES = {"quick": [1.0, 1e-9], "thorough": [1.0, 1e-9, 1e6]}

C_ULP = 8       # rounding allowance for linspace based quantities and for the floor decision
C_ULP_I2P = 8   # index2point: cell carries <= 1.5 ulp, times (i+1/2) <= 2 ulp(edges) <= 4 ulp(M), plus one sum


def _axis(offset, width, count, scale):
    lo = offset * scale
    hi = lo + count * width * scale
    return lo, hi


class Ref:
    """exact lattice plus the tolerances of this mesh"""

    def __init__(self, mesh):
        self.lat = C.Lattice.of(mesh)
        self.n = self.lat.n
        self.ndim = self.lat.ndim
        self.tol = Fr(float(mesh.region.tolerance_factor))
        self.minedge = min(b - a for a, b in zip(self.lat.pmin, self.lat.pmax))
        self.M = [self.lat.magnitude(ax) for ax in range(self.ndim)]
        self.ulpM = [Fr(C.ulp(m)) if m else Fr(C.ulp(float(self.lat.pmax[ax] - self.lat.pmin[ax])))
                     for ax, m in enumerate(self.M)]

    def tau(self, x):
        return self.tol * (self.minedge + abs(x))

    def band(self, ax, x):
        return self.tau(x) + C_ULP * self.ulpM[ax]

    def reject_dist(self, ax):
        """distance outside the region from which a point MUST be rejected"""
        far = abs(self.lat.pmin[ax]) + abs(self.lat.pmax[ax]) + 4 * self.lat.cell[ax]
        return max(self.lat.cell[ax] / 10 ** 6, 100 * self.tol * (self.minedge + far) + 100 * self.ulpM[ax])

    def classify(self, ax, x):
        """x float -> ('in', None) | ('grey', end) | ('out', None) along axis ax"""
        xf = Fr(float(x))
        lo, hi = self.lat.pmin[ax], self.lat.pmax[ax]
        if lo <= xf <= hi:
            return "in"
        d = lo - xf if xf < lo else xf - hi
        return "out" if d >= self.reject_dist(ax) else "grey"

    def cell_ok(self, ax, x, j):
        """does cell j (exact) contain x within the band?"""
        if not (0 <= j < self.n[ax]):
            return False
        xf = Fr(float(x))
        b = self.band(ax, xf)
        return self.lat.face(ax, j) - b <= xf <= self.lat.face(ax, j + 1) + b


def _by_name(nt, d, ax):
    """per-axis list by dimension name (by position if the container has no names)"""
    return getattr(nt, d) if hasattr(nt, d) else nt[ax]


def _axis_probes(mesh, ref, ax):
    """deterministic list of (label, float) probes along axis ax"""
    lat = ref.lat
    n = ref.n[ax]
    pmin = float(mesh.region.pmin[ax])
    pmax = float(mesh.region.pmax[ax])
    cell = float(mesh.cell[ax])
    dim = mesh.region.dims[ax]
    vert = np.asarray(_by_name(mesh.vertices, dim, ax), dtype=float)
    cen = np.asarray(_by_name(mesh.cells, dim, ax), dtype=float)
    out = [("pmin", pmin), ("pmax", pmax)]
    for i in range(n):
        out.append(("centre", float(cen[i])))
        out.append(("centre-exact", float(lat.centre(ax, i))))
        f = float(lat.face(ax, i))
        out.append(("quarter", f + 0.25 * cell))
        out.append(("quarter", f + 0.75 * cell))
    for i in range(n + 1):
        f1 = pmin + i * cell
        f2 = float(vert[i]) if i < len(vert) else f1
        f3 = pmax - (n - i) * cell
        fe = float(lat.face(ax, i))
        for lab, f in (("face:pmin+i*cell", f1), ("face:vertices", f2), ("face:pmax-(n-i)*cell", f3),
                       ("face:exact", fe)):
            out.append((lab, f))
        out.append(("face-1ulp", float(np.nextafter(fe, -np.inf))))
        out.append(("face+1ulp", float(np.nextafter(fe, np.inf))))
        out.append(("face-1e-6cell", fe - 1e-6 * cell))
        out.append(("face+1e-6cell", fe + 1e-6 * cell))
    return out


def _outside_probes(ref, ax):
    lat = ref.lat
    d = ref.reject_dist(ax)
    cell = lat.cell[ax]
    res = []
    for lab, dist in (("just-outside", d), ("half-cell-outside", max(cell / 2, d)), ("3-cells-outside", max(3 * cell, d))):
        res.append((lab, float(lat.pmin[ax] - dist)))
        res.append((lab, float(lat.pmax[ax] + dist)))
    return res


def check_mesh(ctx, mesh, corners, n, dims, inst):
    """all oracles of C01 on one real mesh"""
    ref = Ref(mesh)
    lat = ref.lat
    ndim = ref.ndim
    p1, p2 = corners
    # ---- the region is the sorted box, n is kept -------------------------------------------------
    ctx.check()
    if not (np.array_equal(np.asarray(mesh.region.pmin, dtype=float), np.minimum(p1, p2))
            and np.array_equal(np.asarray(mesh.region.pmax, dtype=float), np.maximum(p1, p2))
            and [int(i) for i in mesh.n] == list(n) and tuple(mesh.region.dims) == tuple(dims)):
        ctx.fail("Mesh/region-or-n-not-kept", f"pmin={mesh.region.pmin} pmax={mesh.region.pmax} n={mesh.n} "
                 f"dims={mesh.region.dims}", instance=inst)
        return
    # ---- cell size --------------------------------------------------------------------------------
    ctx.step(1, "cell")
    cell = np.asarray(mesh.cell, dtype=float)
    ctx.observe(cell)
    for ax in range(ndim):
        ctx.check()
        if abs(Fr(float(cell[ax])) - lat.cell[ax]) > 4 * Fr(C.ulp(float(lat.cell[ax]))):
            ctx.fail("Mesh.cell/not-edges-over-n", f"axis {ax}: cell={cell[ax]!r} exact={float(lat.cell[ax])!r}",
                     instance=inst)
    # ---- count and iteration order ----------------------------------------------------------------
    ctx.step(2, "len / indices")
    total = int(np.prod(n))
    ctx.check()
    if len(mesh) != total:
        ctx.fail("Mesh.__len__/not-product-of-n", f"len={len(mesh)} n={list(n)}", instance=inst)
    idx_list = [tuple(int(v) for v in i) for i in mesh.indices]
    expected_order = [tuple(reversed(t)) for t in itertools.product(*[range(k) for k in reversed(n)])]
    ctx.check()
    if idx_list != expected_order:
        ctx.fail("Mesh.indices/order-not-first-dimension-fastest",
                 f"first entries {idx_list[:4]} expected {expected_order[:4]} (count {len(idx_list)} / {total})",
                 instance=inst)
    ctx.observe(len(idx_list))
    # ---- per axis centres and vertices ------------------------------------------------------------
    ctx.step(2, "cells / vertices")
    cells = mesh.cells
    verts = mesh.vertices
    cen_ax, ver_ax = [], []
    for ax, d in enumerate(dims):
        ca = np.asarray(_by_name(cells, d, ax), dtype=float)
        va = np.asarray(_by_name(verts, d, ax), dtype=float)
        cen_ax.append(ca)
        ver_ax.append(va)
        ctx.observe(ca, va)
        tolc = C_ULP * ref.ulpM[ax]
        ctx.check(2)
        if ca.shape != (n[ax],):
            ctx.fail("Mesh.cells/wrong-length", f"axis {d}: {ca.shape} for n={n[ax]}", instance=inst)
        else:
            for i in range(n[ax]):
                if abs(Fr(float(ca[i])) - lat.centre(ax, i)) > tolc:
                    ctx.fail("Mesh.cells/not-lattice-centre", f"axis {d} i={i}: {ca[i]!r} exact "
                             f"{float(lat.centre(ax, i))!r}", instance=inst)
                    break
        if va.shape != (n[ax] + 1,):
            ctx.fail("Mesh.vertices/wrong-length", f"axis {d}: {va.shape} for n={n[ax]}", instance=inst)
        else:
            for i in range(n[ax] + 1):
                if abs(Fr(float(va[i])) - lat.face(ax, i)) > tolc:
                    ctx.fail("Mesh.vertices/not-lattice-face", f"axis {d} i={i}: {va[i]!r} exact "
                             f"{float(lat.face(ax, i))!r}", instance=inst)
                    break
    # ---- every cell: index2point, round trip, __iter__, coordinate field -------------------------
    ctx.step(1, "coordinate_field")
    cf = mesh.coordinate_field()
    cfa = np.asarray(cf.array)
    ctx.check()
    if cfa.shape != tuple(n) + (ndim,):
        ctx.fail("Mesh.coordinate_field/wrong-shape", f"{cfa.shape}", instance=inst)
        cfa = None
    it_points = list(mesh)
    ctx.step(1, "__iter__")
    ctx.check()
    if len(it_points) != total:
        ctx.fail("Mesh.__iter__/wrong-count", f"{len(it_points)} points for {total} cells", instance=inst)
        it_points = None
    exact_c = [[lat.centre(ax, i) for i in range(n[ax])] for ax in range(ndim)]
    tol_i2p = [C_ULP_I2P * ref.ulpM[ax] for ax in range(ndim)]
    tol_cf = [C_ULP * ref.ulpM[ax] for ax in range(ndim)]
    bad = set()
    for pos, idx in enumerate(expected_order):
        ctx.step(2)
        pt = np.asarray(mesh.index2point(idx), dtype=float).reshape(-1)
        ctx.check(3)
        if pt.shape != (ndim,):
            ctx.fail("Mesh.index2point/wrong-length", f"{idx} -> {pt}", instance=inst)
            return
        for ax in range(ndim):
            if abs(Fr(float(pt[ax])) - exact_c[ax][idx[ax]]) > tol_i2p[ax] and "i2p" not in bad:
                bad.add("i2p")
                ctx.fail("Mesh.index2point/not-pmin-plus-(i+half)-cell", f"index {idx} axis {ax}: {pt[ax]!r} exact "
                         f"{float(exact_c[ax][idx[ax]])!r}", instance=inst)
        back = mesh.point2index(pt)
        back = (int(back),) if isinstance(back, (int, np.integer)) else tuple(int(v) for v in back)
        if back != idx and "rt" not in bad:
            bad.add("rt")
            ctx.fail("Mesh.point2index/centre-round-trip", f"index {idx} -> {pt.tolist()} -> {back}", instance=inst)
        if it_points is not None and idx_list == expected_order:
            ip = np.asarray(it_points[pos], dtype=float).reshape(-1)
            if "iter" not in bad and (ip.shape != (ndim,) or any(
                    abs(Fr(float(ip[ax])) - exact_c[ax][idx[ax]]) > tol_i2p[ax] for ax in range(ndim))):
                bad.add("iter")
                ctx.fail("Mesh.__iter__/not-centres-in-index-order", f"position {pos}: {ip.tolist()} for index {idx}",
                         instance=inst)
        if cfa is not None and "cf" not in bad:
            v = cfa[idx]
            for ax in range(ndim):
                if abs(Fr(float(v[ax])) - exact_c[ax][idx[ax]]) > tol_cf[ax]:
                    bad.add("cf")
                    ctx.fail("Mesh.coordinate_field/not-cell-centre", f"cell {idx} component {ax}: {v[ax]!r} exact "
                             f"{float(exact_c[ax][idx[ax]])!r}", instance=inst)
                    break
    ctx.check()
    if not (tuple(cf.vdims) == tuple(dims) and cf.mesh == mesh):
        ctx.fail("Mesh.coordinate_field/labels-or-mesh", f"vdims={cf.vdims}", instance=inst)
    # ---- probes along every axis, other axes at the centre of the middle cell --------------------
    mid = tuple(k // 2 for k in n)
    base = np.array([float(cen_ax[ax][mid[ax]]) if len(cen_ax[ax]) == n[ax] else float(lat.centre(ax, mid[ax]))
                     for ax in range(ndim)], dtype=float)
    for ax in range(ndim):
        for lab, x in _axis_probes(mesh, ref, ax):
            kind = ref.classify(ax, x)
            p = base.copy()
            p[ax] = x
            ctx.step(1)
            raised, r = C.raises(mesh.point2index, tuple(p.tolist()) if ndim > 1 else float(x))
            ctx.check()
            if raised:
                ctx.note("point2index:refused:" + kind)
                if kind == "in":
                    ctx.fail("Mesh.point2index/refuses-point-of-region/" + lab.split(":")[0],
                             f"axis {ax} probe {lab}={x!r} in [{float(lat.pmin[ax])!r}, {float(lat.pmax[ax])!r}]: "
                             f"{type(r).__name__}: {str(r)[:100]}", instance=inst)
                continue
            j = (int(r),) if isinstance(r, (int, np.integer)) else tuple(int(v) for v in r)
            ctx.observe(j)
            if len(j) != ndim:
                ctx.fail("Mesh.point2index/wrong-length", f"{p.tolist()} -> {j}", instance=inst)
                continue
            if kind == "out":
                ctx.fail("Mesh.point2index/accepts-outside-point", f"axis {ax} probe {lab}={x!r} outside "
                         f"[{float(lat.pmin[ax])!r}, {float(lat.pmax[ax])!r}] -> {j}", instance=inst)
                continue
            ok_other = all(j[b] == mid[b] for b in range(ndim) if b != ax)
            if kind == "in":
                ok = ref.cell_ok(ax, x, j[ax])
            else:  # tolerated just outside: must be the end cell
                ok = j[ax] == (0 if Fr(float(x)) < lat.pmin[ax] else n[ax] - 1)
            if not ok:
                ctx.fail("Mesh.point2index/cell-does-not-contain-point/" + lab.split(":")[0],
                         f"axis {ax} probe {lab}={x!r} -> index {j[ax]} of {n[ax]}; exact floor "
                         f"{lat.floor_index(ax, x)}, cell {float(lat.cell[ax])!r}, pmin {float(lat.pmin[ax])!r}",
                         instance=inst)
            if not ok_other:
                ctx.fail("Mesh.point2index/other-axis-disturbed", f"probe on axis {ax}: {p.tolist()} -> {j}, "
                         f"other axes should stay at {mid}", instance=inst)
        for lab, x in _outside_probes(ref, ax):
            p = base.copy()
            p[ax] = x
            ctx.step(1)
            raised, r = C.raises(mesh.point2index, tuple(p.tolist()) if ndim > 1 else float(x))
            ctx.check()
            if not raised:
                ctx.fail("Mesh.point2index/accepts-outside-point", f"axis {ax} {lab}={x!r} outside "
                         f"[{float(lat.pmin[ax])!r}, {float(lat.pmax[ax])!r}] -> {r}", instance=inst)
            else:
                ctx.note("point2index:refused:out")
            # the region's own containment must agree for far points
            ctx.step(1)
            raised2, r2 = C.raises(lambda q: q in mesh.region, tuple(p.tolist()))
            ctx.check()
            if not raised2 and bool(r2):
                ctx.fail("Region.__contains__/accepts-outside-point", f"axis {ax} {lab}={x!r}", instance=inst)
    # ---- all corner combinations (n-D) -------------------------------------------------------------
    if ndim > 1:
        for combo in itertools.product((0, 1), repeat=ndim):
            p = tuple(float(mesh.region.pmax[ax]) if c else float(mesh.region.pmin[ax]) for ax, c in enumerate(combo))
            ctx.step(2)
            raised, r = C.raises(mesh.point2index, p)
            ctx.check(2)
            exp = tuple(n[ax] - 1 if c else 0 for ax, c in enumerate(combo))
            if raised:
                ctx.fail("Mesh.point2index/refuses-point-of-region/corner", f"corner {p}: {type(r).__name__}",
                         instance=inst)
            elif tuple(int(v) for v in r) != exp:
                ctx.fail("Mesh.point2index/cell-does-not-contain-point/corner", f"corner {p} -> {r} expected {exp}",
                         instance=inst)
            if not (p in mesh.region):
                ctx.fail("Region.__contains__/refuses-own-corner", f"corner {p}", instance=inst)
    # ---- indices outside the mesh ------------------------------------------------------------------
    for ax in range(ndim):
        for bad_i in (-1, n[ax], n[ax] + 3):
            idx = list(mid)
            idx[ax] = bad_i
            arg = tuple(idx) if ndim > 1 else bad_i
            ctx.step(1)
            raised, r = C.raises(mesh.index2point, arg)
            ctx.check()
            if not raised:
                ctx.fail("Mesh.index2point/accepts-index-outside", f"index {arg} on n={list(n)} -> {r}", instance=inst)
            else:
                ctx.note("index2point:refused")
    # recorded only (not demanded by the statement)
    r1, _ = C.raises(mesh.index2point, tuple(mid) + (0,))
    r2, _ = C.raises(mesh.index2point, tuple(float(i) for i in mid) if ndim > 1 else float(mid[0]))
    ctx.note("index2point:wrong-length:" + ("refused" if r1 else "accepted"))
    ctx.note("index2point:float-index:" + ("refused" if r2 else "accepted"))


# -----------------------------------------------------------------------------------------------
# units


def check_not_a_point(ctx, mesh, inst):
    """a coordinate that is NaN or infinite is not a point of the region: point2index must refuse it"""
    nd = mesh.region.ndim
    c = [float(x) for x in mesh.region.center]
    for ax in range(nd):
        for bad in (float("nan"), float("inf"), float("-inf")):
            p = list(c)
            p[ax] = bad
            ctx.step(1)
            raised, r = C.raises(mesh.point2index, tuple(p) if nd > 1 else p[0])
            ctx.check()
            if not raised:
                ctx.fail("Mesh.point2index/accepts-not-a-point", f"coordinate {bad!r} on axis {ax} mapped to index {r}", instance=inst)
                return


def unit_lattice1d(ctx):
    offset = ctx.choose("offset", OFFSETS)
    width = ctx.choose("width", WIDTHS)
    count = ctx.choose("count", COUNTS[ctx.tier])
    scale = ctx.choose("scale", SCALES)
    swapped = ctx.choose("swapped", [False, True])
    lo, hi = _axis(offset, width, count, scale)
    dims = ("a",) if swapped else ("x",)
    p1, p2 = ((hi,), (lo,)) if swapped else ((lo,), (hi,))
    ctx.step(1, f"Mesh(p1={p1}, p2={p2}, n={count})")
    mesh = df.Mesh(region=df.Region(p1=p1, p2=p2, dims=dims), n=(count,))
    check_mesh(ctx, mesh, (np.array(p1), np.array(p2)), (count,), dims, ctx.key())


def _nd(ctx, ndim):
    nax = 4 if ctx.tier == "quick" else 8
    axes = [ctx.choose(f"axis{k}", RAXES[:nax]) for k in range(ndim)]
    if ndim < 4:
        scale = ctx.choose("scale", ND_SCALES[ctx.tier])
        dims = ctx.choose("dims", list(C.DIMSETS[ndim]))
        swap = ctx.choose("swap", ["none", "alternate"])
    else:
        code = sum(RAXES.index(a) * (k + 1) for k, a in enumerate(axes))
        scale = ctx.choose("scale", [1.0] if ctx.tier == "quick" else ND_SCALES[ctx.tier])
        dims = C.DIMSETS[ndim][code % 3]
        swap = "alternate" if (code // 3) % 2 else "none"
    lo, hi, n = [], [], []
    for (o, w, c, rs) in axes:
        a, b = _axis(o, w, c, rs * scale)
        lo.append(a)
        hi.append(b)
        n.append(c)
    p1, p2 = list(lo), list(hi)
    if swap == "alternate":
        for k in range(0, ndim, 2):
            p1[k], p2[k] = p2[k], p1[k]
    ctx.step(1, f"Mesh(p1={p1}, p2={p2}, n={n}, dims={dims})")
    mesh = df.Mesh(region=df.Region(p1=p1, p2=p2, dims=dims), n=n)
    check_mesh(ctx, mesh, (np.array(p1), np.array(p2)), tuple(n), dims, ctx.key())


def unit_lattice2d(ctx):
    _nd(ctx, 2)


def unit_lattice3d(ctx):
    _nd(ctx, 3)


def unit_lattice4d(ctx):
    _nd(ctx, 4)


VARIANTS = ["commensurate", "mesh.cell", "k+0.5", "k+0.1", "k+0.01", "oversize1.01", "oversize1.5", "oversize3"]


def _cell_for(variant, edge, k):
    """requested cell size (float) and the verdict the statement demands"""
    if variant == "commensurate":
        return edge / k, True
    if variant.startswith("k+"):
        return edge / (k + float(variant[2:])), False
    return edge * float(variant[len("oversize"):]), False


def unit_bycell1d(ctx):
    offset = ctx.choose("offset", OFFSETS)
    width = ctx.choose("width", WIDTHS)
    count = ctx.choose("count", COUNTS[ctx.tier])
    scale = ctx.choose("scale", SCALES)
    k = ctx.choose("k", list(range(1, count + 3)))
    # oversize cells are multiples of the whole edge: offered once per lattice (k = 1)
    # "nominal": the cell size the lattice was built FROM (width*scale), offered for the true count only: the edge is
    # that many cells up to the rounding of the corner arithmetic, which scales with the coordinates, not the edge
    variant = ctx.choose("variant", [v for v in VARIANTS if v != "mesh.cell" and (k == 1 or not v.startswith("oversize"))]
                         + (["nominal"] if k == count else []))
    form = ctx.choose("form", ["scalar", "tuple"])
    lo, hi = _axis(offset, width, count, scale)
    region = df.Region(p1=(lo,), p2=(hi,))
    edge = float(region.edges[0])
    cell, must_exist = (width * scale, True) if variant == "nominal" else _cell_for(variant, edge, k)
    arg = cell if form == "scalar" else (cell,)
    ctx.step(1, f"Mesh(region, cell={arg!r})")
    raised, r = C.raises(lambda: df.Mesh(region=region, cell=arg))
    ctx.check()
    ctx.observe(raised, None if raised else [int(i) for i in r.n])
    inst = ctx.key(drop=("form",))
    if must_exist:
        if raised:
            ctx.fail("Mesh(cell=)/refuses-commensurate-cell", f"edge {edge!r} / {k} = {cell!r}: {type(r).__name__}: "
                     f"{str(r)[:120]}", instance=inst)
            return
        if [int(i) for i in r.n] != [k]:
            ctx.fail("Mesh(cell=)/wrong-count", f"edge {edge!r} cell {cell!r}: n={r.n} expected {k}", instance=inst)
            return
        ctx.check()
        if abs(Fr(float(r.cell[0])) - Fr(edge) / k) > 4 * Fr(C.ulp(cell)) + (8 * Fr(C.ulp(max(abs(lo), abs(hi)))) if variant == "nominal" else 0):
            ctx.fail("Mesh(cell=)/cell-not-edges-over-n", f"cell={r.cell[0]!r}", instance=inst)
        # the mesh obtained by cell size is the same lattice as the one obtained by count
        ctx.step(1)
        ctx.check()
        if not (r == df.Mesh(region=region, n=(k,))):
            ctx.fail("Mesh(cell=)/differs-from-mesh-by-count", f"k={k}", instance=inst)
    else:
        if not raised:
            ctx.fail("Mesh(cell=)/accepts-non-commensurate-cell/" + ("oversize" if variant.startswith("o") else variant),
                     f"edge {edge!r}, cell {cell!r} (= {edge / cell!r} cells) gave n={r.n}", instance=inst)
        else:
            ctx.note("Mesh(cell=):refused")


def unit_bycell2d(ctx):
    nax = 4 if ctx.tier == "quick" else 8
    a0 = ctx.choose("axis0", RAXES[:nax])
    a1 = ctx.choose("axis1", RAXES[:nax])
    scale = ctx.choose("scale", ND_SCALES[ctx.tier])
    which = ctx.choose("varied_axis", [0, 1])
    variant = ctx.choose("variant", VARIANTS)
    container = ctx.choose("container", ["tuple", "ndarray"])
    axes = [a0, a1]
    lo, hi, n = [], [], []
    for (o, w, c, rs) in axes:
        a, b = _axis(o, w, c, rs * scale)
        lo.append(a)
        hi.append(b)
        n.append(c)
    region = df.Region(p1=lo, p2=hi)
    edges = [float(e) for e in region.edges]
    by_n = df.Mesh(region=region, n=n)
    ctx.step(1)
    cell = [float(c) for c in by_n.cell]
    k = n[which]
    if variant == "mesh.cell":
        must_exist = True
    else:
        if variant.startswith("oversize"):
            k = 1
        cell[which], must_exist = _cell_for(variant, edges[which], k)
    exp_n = list(n)
    exp_n[which] = k
    arg = tuple(cell) if container == "tuple" else np.array(cell)
    ctx.step(1, f"Mesh(region, cell={cell})")
    raised, r = C.raises(lambda: df.Mesh(region=region, cell=arg))
    ctx.check()
    ctx.observe(raised, None if raised else [int(i) for i in r.n])
    inst = ctx.key(drop=("container",))
    if must_exist:
        if raised:
            ctx.fail("Mesh(cell=)/refuses-commensurate-cell", f"edges {edges} cell {cell}: {type(r).__name__}: "
                     f"{str(r)[:120]}", instance=inst)
        elif [int(i) for i in r.n] != exp_n:
            ctx.fail("Mesh(cell=)/wrong-count", f"edges {edges} cell {cell}: n={r.n} expected {exp_n}", instance=inst)
    elif not raised:
        ctx.fail("Mesh(cell=)/accepts-non-commensurate-cell/" + ("oversize" if variant.startswith("o") else variant),
                 f"edges {edges}, cell {cell} gave n={r.n}", instance=inst)
    else:
        ctx.note("Mesh(cell=):refused")

def unit_bycell_many(ctx):
    """meshes requested by cell size on LONG axes (1000 / 40000 cells): a leftover of 2 %, 40 % or 50 % of a cell is still
    not a whole number of cells, however small it is relative to the edge; the exact multiple is accepted with that count"""
    k = ctx.choose("cells", [1000, 40000])
    cell = ctx.choose("cell", [1.0, 0.5, 1e-9])
    left = ctx.choose("leftover-in-cells", [0.0, 0.02, 0.4, 0.5])
    nd = ctx.choose("ndim", [1, 3])
    lo = 0.0
    hi = (k + left) * cell
    if nd == 1:
        region, arg, want = df.Region(p1=(lo,), p2=(hi,)), (cell,), [k]
    else:
        region, arg, want = df.Region(p1=(lo, 0.0, 0.0), p2=(hi, 10 * cell, 4 * cell)), (cell, cell, cell), [k, 10, 4]
    ctx.step(1, f"Mesh(cell={cell}) on an edge of {k}+{left} cells")
    raised, r = C.raises(lambda: df.Mesh(region=region, cell=arg))
    ctx.check()
    ctx.observe(raised, None if raised else [int(i) for i in r.n])
    if left == 0.0:
        if raised:
            ctx.fail("Mesh(cell=)/refuses-commensurate-cell/many-cells", f"{type(r).__name__}: {str(r)[:120]}")
        elif [int(i) for i in r.n] != want:
            ctx.fail("Mesh(cell=)/wrong-count/many-cells", f"n={r.n} expected {want}")
    elif not raised:
        ctx.fail("Mesh(cell=)/accepts-non-commensurate-cell/many-cells", f"edge of {k}+{left} cells of {cell}: n={r.n}, cell={r.cell}")



def unit_tolerance(ctx):
    """regions built with a non-default comparison tolerance (tolerance_factor 1e-9, 1e-6, 1e-3): the same lattice
    oracles; the ambiguity bands and the must-reject distance are taken from the region's own tolerance"""
    tf = ctx.choose("tolerance_factor", [1e-6, 1e-9, 1e-3, 1e-12])
    bc = ctx.choose("bc", ["", "first-axis-periodic", "all-axes-periodic", "neumann"])  # boundary conditions do not change the lattice
    ndim = ctx.choose("ndim", [1, 2])
    a0 = ctx.choose("axis0", [RAXES[1], RAXES[2], RAXES[5], RAXES[6]])
    a1 = ctx.choose("axis1", [RAXES[0], RAXES[3], RAXES[4]]) if ndim == 2 else None
    scale = ctx.choose("scale", [1.0, 1e-9])
    axes = [a0] + ([a1] if a1 else [])
    lo, hi, n = [], [], []
    for (o, w, c, rs) in axes:
        a, b = _axis(o, w, c, rs * scale)
        lo.append(a)
        hi.append(b)
        n.append(c)
    dims = C.DIMSETS[ndim][0]
    ctx.step(1, f"Mesh(tolerance_factor={tf})")
    bcs = {"": "", "first-axis-periodic": dims[0], "all-axes-periodic": "".join(dims), "neumann": "neumann"}[bc]
    mesh = df.Mesh(region=df.Region(p1=lo, p2=hi, dims=dims, tolerance_factor=tf), n=n, bc=bcs)
    ctx.check()
    if mesh.region.tolerance_factor != tf:
        ctx.fail("Region/tolerance-factor-not-kept", f"{mesh.region.tolerance_factor!r} for {tf!r}")
        return
    check_mesh(ctx, mesh, (np.array(lo), np.array(hi)), tuple(n), dims, ctx.key())
    check_not_a_point(ctx, mesh, ctx.key())


# --------------------------------------------------------------------------------------------------------------------
def unit_aliasing(ctx):
    """What the caller does with ITS OWN arrays afterwards must not reach the mesh: the corner / count arrays handed to
    the constructors are modified in place after construction, and every array the mesh hands out as a DERIVED
    description (cell, edges, centre, per-axis centres and vertices, coordinate field, index2point) is modified in
    place by the caller; the mesh - and a second mesh built afterwards on the same extent - must still describe the
    lattice it was asked for."""
    ndim = ctx.choose("ndim", [1, 2, 3])
    axes = [RAXES[1], RAXES[2], RAXES[4]][:ndim]
    container = ctx.choose("given-as", ["float64-ndarray+int64-ndarray", "list", "tuple", "int32-ndarray-n"])
    lo, hi, n = [], [], []
    for (o, w, c, rs) in axes:
        a, b = _axis(o, w, c, rs)
        lo.append(a)
        hi.append(b)
        n.append(c)
    dims = C.DIMSETS[ndim][0]
    if container.startswith("float64"):
        a1, a2, an = np.array(lo), np.array(hi), np.array(n, dtype=np.int64)
    elif container == "list":
        a1, a2, an = list(lo), list(hi), list(n)
    elif container == "tuple":
        a1, a2, an = tuple(lo), tuple(hi), tuple(n)
    else:
        a1, a2, an = np.array(lo), np.array(hi), np.array(n, dtype=np.int32)
    # (mesh.cell / region.edges / region.center are not scribbled on: an implementation may legitimately STORE them and
    # hand out the stored array; the per-axis centre / vertex lists, the coordinate field and index2point are computed
    # descriptions)
    what = ctx.choose("caller-modifies", ["its-input-arrays", "returned-cells", "returned-vertices", "returned-coordinate-field",
                                          "returned-index2point"])
    ctx.step(1, "Mesh(...)")
    mesh = df.Mesh(region=df.Region(p1=a1, p2=a2, dims=dims), n=an)
    inst = ctx.key()
    corners = (np.array(lo), np.array(hi))

    def describe(m, tag):
        before = len(ctx.violations)
        check_mesh(ctx, m, corners, tuple(n), dims, inst + f";at={tag}")
        return len(ctx.violations) == before

    def scribble(arr):
        try:
            arr = np.asarray(arr)
            if arr.flags.writeable:
                arr[...] = arr * 3 + 7
        except (ValueError, TypeError):
            pass  # read-only results are fine

    if what == "its-input-arrays":
        if isinstance(an, np.ndarray):
            an *= 2
            a1 += 1.0
            a2 -= 0.5
        elif isinstance(an, list):
            an[0] += 3
            a1[0] += 1.0
        else:
            raise engine.Skip()
    elif what == "returned-cells":
        for d in dims:
            scribble(getattr(mesh.cells, d))
    elif what == "returned-vertices":
        for d in dims:
            scribble(getattr(mesh.vertices, d))
    elif what == "returned-coordinate-field":
        scribble(mesh.coordinate_field().array)
    else:
        p = mesh.index2point(tuple(0 for _ in n))
        scribble(p)
    if not describe(mesh, "after-the-caller-modified-" + what):
        return
    ctx.step(1, "second mesh on the same extent")
    describe(df.Mesh(region=df.Region(p1=lo, p2=hi, dims=dims), n=n), "second-mesh-after-" + what)


# --------------------------------------------------------------------------------------------------------------------
def unit_history(ctx):
    """Non-initial states: a mesh that has been described once (cell, len, indices, cells, vertices, coordinate field,
    index<->point maps - everything check_mesh reads) is transformed (translate / scale / quarter turn, in place or
    copying, up to two steps) and described again.  Every description must be the one of the lattice the mesh has at
    that moment (exact lattice of its current float corners; whether the corners are the right affine image is C13's
    business), and a copying step must leave the original's description untouched."""
    quick = ctx.tier == "quick"
    ndim = ctx.choose("ndim", [1, 2] if quick else [1, 2, 3])
    axes = [RAXES[1], RAXES[2], RAXES[4]][:ndim] if ctx.choose("geometry", ["plain"] if quick else ["plain", "far"]) == "plain" else \
        [RAXES[5], RAXES[3], RAXES[6]][:ndim]
    lo, hi, n = [], [], []
    for (o, w, c, rs) in axes:
        a, b = _axis(o, w, c, rs)
        lo.append(a)
        hi.append(b)
        n.append(c)
    dims = C.DIMSETS[ndim][0]
    warm = ctx.choose("described-before", [True, False])
    L = max(b - a for a, b in zip(lo, hi))
    steps = [None, ("translate", tuple(([0.75 * L, -2.0 * L, 0.1 * L])[:ndim])), ("scale", 2.0, None),
             ("scale", tuple(([0.5, 3.0, 2.0])[:ndim]), None), ("scale", 1.5, tuple([0.0] * ndim))]
    if ndim >= 2:
        steps += [("rotate90", dims[0], dims[1], 1), ("rotate90", dims[-1], dims[0], -1), ("rotate90", dims[0], dims[1], 2)]
    s1 = ctx.choose("step1", steps[1:])
    f1 = ctx.choose("form1", ["in-place", "copy"])
    s2 = ctx.choose("step2", steps if not quick else [None, steps[1], steps[-1]])
    f2 = ctx.choose("form2", ["in-place", "copy"]) if s2 is not None else None
    mesh = df.Mesh(region=df.Region(p1=lo, p2=hi, dims=dims), n=n)
    inst = ctx.key()
    cur_n = list(n)

    def describe(m, nn, tag):
        corners = (np.array(m.region.pmin, dtype=float), np.array(m.region.pmax, dtype=float))
        before = len(ctx.violations)
        check_mesh(ctx, m, corners, tuple(nn), dims, inst + f";at={tag}")
        return len(ctx.violations) == before

    def apply(m, st, form):
        inplace = form == "in-place"
        ctx.step(1, f"{st} {form}")
        if st[0] == "translate":
            return m.translate(st[1], inplace=inplace)
        if st[0] == "scale":
            return m.scale(st[1], reference_point=st[2], inplace=inplace)
        return m.rotate90(st[1], st[2], k=st[3], inplace=inplace)

    def n_after(nn, st):
        nn = list(nn)
        if st[0] == "rotate90" and st[3] % 2:
            i, j = dims.index(st[1]), dims.index(st[2])
            nn[i], nn[j] = nn[j], nn[i]
        return nn

    if warm and not describe(mesh, cur_n, "start"):
        return
    earlier = []  # objects that a copying step left behind: they must stay the lattices they were, whatever happens later
    for k, (st, form) in enumerate([(s1, f1), (s2, f2)]):
        if st is None:
            continue
        res = apply(mesh, st, form)
        new_n = n_after(cur_n, st)
        if form == "copy":
            # the original is still the lattice it was
            if not describe(mesh, cur_n, f"original-after-copying-step{k + 1}"):
                return
            earlier.append((mesh, list(cur_n), f"object-left-behind-by-copying-step{k + 1}"))
        mesh, cur_n = res, new_n
        if warm or k == 1 or s2 is None:
            if not describe(mesh, cur_n, f"after-step{k + 1}"):
                return
    for m, nn, tag in earlier:
        if not describe(m, nn, tag + "-at-the-end"):
            return


def unit_degenerate(ctx):
    """Counts and cell sizes that cannot describe a lattice - a zero, negative or fractional count, a zero or negative cell
    size, in one direction while the other directions are fine - must be refused: a mesh has n >= 1 whole cells per
    direction and exists by cell size only when the edges are a whole (positive) number of cells."""
    ndim = ctx.choose("ndim", [2, 3, 1])
    bad_axis = ctx.choose("bad_axis", list(range(ndim)))
    how = ctx.choose("by", ["n", "cell"])
    kind = ctx.choose("kind", ["zero", "negative", "fractional", "negative-commensurate", "nan"] if how == "n"
                      else ["zero", "negative-commensurate", "negative", "nan", "inf"])
    container = ctx.choose("container", ["tuple", "list", "ndarray"])
    others = ctx.choose("others", ["1", "3"])
    lo = [0.5, -2.0, 10.0][:ndim]
    edge = [6.0, 3.0, 1.5][:ndim]
    region = df.Region(p1=tuple(lo), p2=tuple(a + e for a, e in zip(lo, edge)))
    k = int(others)
    if how == "n":
        vals = [k] * ndim
        vals[bad_axis] = {"zero": 0, "negative": -1, "negative-commensurate": -3, "fractional": 1.5, "nan": float("nan")}[kind]
    else:
        vals = [e / k for e in edge]
        vals[bad_axis] = {"zero": 0.0, "negative": -0.7, "negative-commensurate": -edge[bad_axis] / 3,
                          "nan": float("nan"), "inf": float("inf")}[kind]
    arg = {"tuple": tuple, "list": list, "ndarray": np.array}[container](vals)
    if how == "n" and container == "ndarray" and kind in ("fractional", "nan"):
        raise engine.Skip()  # a float array of counts: every entry is a float, also the whole ones
    ctx.step(1, f"Mesh(region, {how}={arg!r})")
    with np.errstate(all="ignore"):
        raised, r = C.raises(lambda: df.Mesh(region=region, **{how: arg}))
    ctx.check()
    ctx.observe(raised, type(r).__name__)
    if not raised:
        ctx.fail(f"Mesh({how}=)/accepts-{kind}-entry", f"{how}={arg!r} on edges {edge}: mesh with n={r.n.tolist()} cell={r.cell.tolist()}",
                 instance=ctx.key(drop=("container",)))


INDEX_TYPES = ["python-int-tuple", "python-int-list", "int64-array", "int32-array", "int16-array", "uint16-array",
               "int8-array", "uint8-array", "tuple-of-int16", "tuple-of-uint8", "tuple-of-int8", "tuple-of-int64",
               "tuple-of-uint64", "bool-free-mixed-tuple"]
_NP = {"int64": np.int64, "int32": np.int32, "int16": np.int16, "uint16": np.uint16, "int8": np.int8, "uint8": np.uint8,
       "uint64": np.uint64}


def unit_index_types(ctx):
    """An index is an index in whatever integer representation it arrives: Python ints, lists, numpy integer arrays and
    scalars of every width, signed or not - also where 2*i + 1, i + 1 or i * n would leave the range of a narrow type.
    index -> centre must be pmin + (i + 1/2) cell for all of them, and centre -> index must give the index back."""
    nshape = ctx.choose("n", [(300,), (130, 3), (40000,), (2, 260, 2)])
    long_ax = int(np.argmax(nshape))
    i_long = ctx.choose("index", [0, 1, 63, 64, 100, 127, 128, 129, 200, 255, 256, 259, 299, 16383, 16384, 32767, 32768,
                                  39999])
    if i_long >= nshape[long_ax]:
        raise engine.Skip()
    rep = ctx.choose("representation", INDEX_TYPES)
    geom = ctx.choose("geometry", ["unit", "nm-offset"])
    ndim = len(nshape)
    if geom == "unit":
        pmin = [0.0, -1.0, 2.0][:ndim]
        cell = [1.0, 0.5, 2.0][:ndim]
    else:
        pmin = [-3e-9, 1.1e-9, 0.0][:ndim]
        cell = [0.1e-9, 2.5e-9, 0.3e-9][:ndim]
    pmax = [a + c * k for a, c, k in zip(pmin, cell, nshape)]
    mesh = df.Mesh(region=df.Region(p1=tuple(pmin), p2=tuple(pmax)), n=nshape)
    idx = [min(1, k - 1) for k in nshape]
    idx[long_ax] = i_long
    base, _, kind = rep.partition("-")
    if rep.startswith("python-int"):
        arg = tuple(idx) if rep.endswith("tuple") else list(idx)
    elif rep == "bool-free-mixed-tuple":
        arg = tuple(np.int16(v) if j % 2 else int(v) for j, v in enumerate(idx)) if i_long <= 32767 or long_ax % 2 == 0 else None
    elif rep.startswith("tuple-of-"):
        t = _NP[rep[len("tuple-of-"):]]
        arg = tuple(t(v) for v in idx) if max(idx) <= np.iinfo(t).max else None
    else:
        t = _NP[base]
        arg = np.array(idx, dtype=t) if max(idx) <= np.iinfo(t).max else None
    if arg is None:
        raise engine.Skip()  # the index itself is not representable in this type
    want = [Fr(float(mesh.region.pmin[a])) + (Fr(idx[a]) + Fr(1, 2)) * (Fr(float(mesh.region.pmax[a])) - Fr(float(mesh.region.pmin[a]))) / nshape[a]
            for a in range(ndim)]
    ctx.step(1, f"index2point({arg!r})")
    raised, p = C.raises(mesh.index2point, arg)
    ctx.check()
    inst = ctx.key(drop=("geometry",))
    if raised:
        ctx.fail("Mesh.index2point/refuses-in-range-index/" + rep.split("-")[-1], f"{arg!r} on n={nshape}: {type(p).__name__}: {str(p)[:120]}",
                 instance=inst)
        return
    p = np.asarray(p, dtype=float).reshape(-1)
    ctx.observe(rep, [float(x) for x in p])
    for a in range(ndim):
        tol = 4 * Fr(C.ulp(max(abs(float(mesh.region.pmin[a])), abs(float(mesh.region.pmax[a])))))
        if abs(Fr(float(p[a])) - want[a]) > tol:
            ctx.fail("Mesh.index2point/not-the-cell-centre/index-representation", f"index {arg!r} ({rep}) on n={nshape}: axis {a} "
                     f"gives {float(p[a])!r}, the centre of cell {idx[a]} is {float(want[a])!r}", instance=inst)
            return
    ctx.step(1, "point2index(centre)")
    raised, back = C.raises(mesh.point2index, tuple(float(x) for x in p))
    ctx.check()
    if raised or [int(v) for v in back] != idx:
        ctx.fail("Mesh.point2index/centre-does-not-map-back/index-representation", f"index {idx} -> {p.tolist()} -> "
                 f"{back if not raised else type(back).__name__}", instance=inst)


def unit_fine_far_mesh(ctx):
    """Cells far finer than the region's comparison tolerance (10^7 cells on an edge of 1 at offset 10^6: the tolerance
    1e-12 (edge + |p|) is ten cells wide).  Points a few cells beyond a face are inside the tolerance band: the region may
    accept or refuse them - but "any point of the region maps to an in-range index": an ACCEPTED point must get an
    index between 0 and n-1 (the boundary cell).  Points well inside behave as everywhere."""
    side = ctx.choose("side", ["upper", "lower"])
    j = ctx.choose("cells-beyond-the-face", [0, 1, 2, 3, 5, 8])
    nd = ctx.choose("ndim", [2, 1])
    nfine = 10_000_000
    lo = 1.0e6
    n = (nfine, 2)[:nd]
    mesh = df.Mesh(region=df.Region(p1=(lo, 0.0)[:nd], p2=(lo + 1.0, 1.0)[:nd]), n=n)
    cell = 1.0 / nfine
    x = lo + 1.0 + j * cell if side == "upper" else lo - j * cell
    pt = (x, 0.5)[:nd] if nd > 1 else x
    ctx.step(1, f"point2index({pt!r})")
    raised, r = C.raises(mesh.point2index, pt)
    ctx.check()
    ctx.observe(side, j, raised)
    if raised:
        ctx.note("band-point-refused" if j else "face-point-refused")
        if j == 0:
            ctx.fail("Mesh.point2index/refuses-point-of-region/face-of-a-fine-far-mesh", f"{pt!r}: {type(r).__name__}: {str(r)[:100]}")
        return
    idx = [int(v) for v in r]
    want0 = nfine - 1 if side == "upper" else 0
    if not (0 <= idx[0] <= nfine - 1) or (nd > 1 and idx[1] != 1):
        ctx.fail("Mesh.point2index/index-out-of-range/accepted-point-in-the-tolerance-band",
                 f"{pt!r} ({j} cells beyond the {side} face, accepted): index {idx}, n={n}", instance=ctx.key())
    elif abs(idx[0] - want0) > 16:   # rounding of (x - pmin) / cell at 1e6: a few cells; the boundary cell is meant
        ctx.fail("Mesh.point2index/accepted-band-point-not-in-the-boundary-cell", f"{pt!r}: index {idx}, boundary cell {want0}",
                 instance=ctx.key())


def units(tier):
    return [
        {"name": "lattice1d", "fn": unit_lattice1d, "bound": None},
        {"name": "lattice2d", "fn": unit_lattice2d, "bound": None},
        {"name": "lattice3d", "fn": unit_lattice3d, "bound": None},
        {"name": "lattice4d", "fn": unit_lattice4d, "bound": None},
        {"name": "bycell1d", "fn": unit_bycell1d, "bound": None},
        {"name": "bycell2d", "fn": unit_bycell2d, "bound": None},
        {"name": "bycell_many", "fn": unit_bycell_many, "bound": None},
        {"name": "tolerance", "fn": unit_tolerance, "bound": None},
        {"name": "degenerate", "fn": unit_degenerate, "bound": None},
        {"name": "index_types", "fn": unit_index_types, "bound": None},
        {"name": "fine_far_mesh", "fn": unit_fine_far_mesh, "bound": None},
        {"name": "history", "fn": unit_history, "bound": None},
        {"name": "aliasing", "fn": unit_aliasing, "bound": None},
    ]
