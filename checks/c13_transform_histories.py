"""C13 - geometric invariants and in-place == copy after any transformation sequence.

Explicit-state breadth-first search over histories of public transformation
calls (translate / scale / rotate90, copying or in place) on live Region, Mesh
(with subregions) and Field objects.  Every transition is executed on the real
objects (rebuilt by replaying the history) and checked against an exact
rational model of the documented affine map.
"""
import numpy as np

import discretisedfield as df
from mc import common as C
from mc import engine
from mc.ref import affine as A

PROPERTY = "C13"
RULE = ("one execution = one start object (kind x ndim x variant) explored by BFS over all event histories up to the depth "
        "bound; events = translate/scale/rotate90 argument alphabet x {copy, in place} + malformed calls; states are "
        "deduplicated on a canonical form (rounded corners, n, dims, units, subregions, array/validity hashes); the oracle "
        "runs on every transition before deduplication")
ASSUMPTIONS = [
    "depth <= 2/3 (quick) and 3/4 (thorough) depending on object kind; argument alphabet as listed in the module",
    "float results are compared with the exact rational image within 64 ulp of the largest magnitude entering the step; "
    "accumulated error bound is propagated through scalings",
    "NaN/inf arguments are outside the alphabet",
    "coherence: before every step all derived public quantities of the object are read once; after the step they are "
    "compared with those of a fresh object constructed from the reached primary attributes (same float corners, n, "
    "values): integers and index tuples exactly, floating-point quantities within 1e-12 of their largest magnitude (both "
    "are the same functions of the same floats; a stale quantity is off by a finite fraction, not by rounding); states from which no "
    "fresh object can be constructed are left to the invariant / conformance oracles",
    "in-place rotation of a mesh that is shared with a live Field (field.mesh.rotate90(inplace=True)) is outside the "
    "alphabet: a Field is rotated through Field.rotate90; translate/scale of a field go through field.mesh in place",
]

ULPS = 64


def _start(kind, ndim, variant):
    """fresh start object"""
    base = {1: ([0.1], [1.3], [4]), 2: ([-1.0, 0.25], [1.0, 1.0], [4, 3]), 3: ([0.0, -0.5, 2.0], [2.0, 0.5, 2.75], [4, 2, 3])}
    nm = {1: ([5e-9], [45e-9], [4]), 2: ([-20e-9, 0.0], [20e-9, 30e-9], [4, 3]), 3: ([0, 0, 0], [40e-9, 20e-9, 30e-9], [4, 2, 3])}
    p1, p2, n = (base if variant == 0 else nm)[ndim]
    dims = C.DIMSETS[ndim][0] if variant == 0 else C.DIMSETS[ndim][1]
    units = C.UNITS_DISTINCT[:ndim]
    if variant == 0:
        # corner order swapped on purpose: the constructor must normalise
        region = df.Region(p1=p2, p2=p1, dims=dims, units=units)
    else:
        region = df.Region(p1=p1, p2=p2, dims=dims, units=units)
    if kind == "region":
        return region
    subs = None
    if kind in ("mesh+sub", "field"):
        lat = np.array(p1, dtype=float), (np.array(p2, dtype=float) - np.array(p1, dtype=float)) / np.array(n)
        o, c = lat
        lo1, hi1 = np.zeros(ndim, int), np.maximum(1, np.array(n) // 2)
        lo2, hi2 = np.array(n) - 1, np.array(n)
        subs = {"s1": df.Region(p1=o + lo1 * c, p2=o + hi1 * c), "s2": df.Region(p1=o + lo2 * c, p2=o + hi2 * c)}
    mesh = df.Mesh(region=region, n=n, subregions=subs)
    if kind.startswith("mesh"):
        return mesh
    nvdim = ndim if variant == 0 else 1
    arr = C.tracer(n, nvdim, 0)
    return df.Field(mesh, nvdim=nvdim, value=arr, valid=C.coded_mask(n, 1), unit="A/m")


class _ARR(tuple):
    """a reference point that is handed to the library as a numpy array (hashable / printable like a tuple here)"""


def _scale_len(ndim, variant):
    return 1.0 if variant == 0 else 1e-8


def _events(kind, ndim, variant, tier, dims):
    L = _scale_len(ndim, variant)
    th = tier == "thorough"
    ev = []
    tv = [tuple([L] + [0.0] * (ndim - 1)), tuple(([-0.5 * L, 2 * L, 0.25 * L])[:ndim])]
    if th:
        tv.append(tuple([1e3 * L] * ndim))
    for v in tv:
        ev.append(("translate", (v,)))
    far = tuple([1e3 * L] * ndim)
    origin = tuple([0.0] * ndim)
    factors = [2, -1, tuple(([2.0, -0.5, 3.0])[:ndim])] + ([0.5, -2] if th else [])
    refs = [None, far] + ([origin] if th else [])
    for s in factors:
        for r in refs:
            ev.append(("scale", (s, r)))
    # the reference point given as a numpy array (also the all-zero one, which is falsy for ndim == 1)
    ev.append(("scale", (2, _ARR(far))))
    ev.append(("scale", (0.5, _ARR(origin))))
    if ndim >= 2:
        pairs = [(dims[i], dims[(i + 1) % ndim]) for i in range(ndim if ndim > 2 else 1)]
        if th:
            pairs += [(b, a) for a, b in pairs]
        for a, b in pairs:
            for k in ([1, -1, 2, 4] if not th else [1, -1, 2, 4, 0, 3, 5, -4]):
                for r in ([None, far] if th or (a, b) == pairs[0] else [None]):
                    ev.append(("rotate90", (a, b, k, r)))
    forms = []
    for e in ev:
        if kind == "field" and e[0] in ("translate", "scale"):
            forms.append(e + ("mesh-in",))
        else:
            forms.append(e + ("copy",))
            forms.append(e + ("in",))
    return forms


def _first_only(kind, ndim):
    """very small but non-zero factors (a unit conversion pm -> m is 1e-12): NOT a degenerate step from the start state.
    Offered as first event only, and the search is not continued behind them: a second step on a region whose edge is
    1e-12 of its coordinates can be absorbed by rounding, and refusing that would be legitimate."""
    o = tuple([0.0] * ndim)  # about the origin, as a unit conversion does: all coordinates shrink, precision is kept
    # (uniform factors only: a per-axis factor of 1e-13 creates aspect ratios of 1e13, beyond what the whole-cell tests
    # of a mesh with subregions can resolve with tolerance_factor 1e-12 - refusing that is not judged)
    ev = [("scale", (1e-12, o)), ("scale", (-1e-12, o)), ("scale", (tuple([1e-12] * ndim), o))]
    out = []
    for e in ev:
        if kind == "field":
            out.append(e + ("mesh-in",))
        else:
            out += [e + ("copy",), e + ("in",)]
    return out


def _malformed(kind, ndim, dims, L=1.0):
    m = [("scale", (0, None)), ("scale", (tuple([1.0] * (ndim + 1)), None)), ("scale", ("2", None)),
         ("scale", (tuple([0.0] + [2.0] * (ndim - 1)), None)) if ndim > 1 else ("scale", (0.0, None)),
         ("scale", (2, tuple([0.0] * (ndim + 1)))),

         ("translate", (tuple([1.0] * (ndim + 1)),)), ("translate", ("a",)), ("translate", (tuple(["a"] * ndim),)),
         # complex numbers are numbers, but not coordinates / factors of a real-space region
         ("translate", (tuple([1 + 2j] + [0.0] * (ndim - 1)),)), ("translate", (_ARR(tuple([1j] * ndim)),)),
         ("scale", (2 + 1j, None)), ("scale", (tuple([1.0] * (ndim - 1) + [1j]), None)),
         ("scale", (2, tuple([0.5j] * ndim)))]
    if ndim >= 2:
        m += [("rotate90", (dims[0], dims[0], 1, None)), ("rotate90", (dims[0], dims[1], 1.5, None)),
              ("rotate90", (dims[0], "nonaxis", 1, None)), ("rotate90", (dims[0], dims[1], 1, tuple([0.0] * (ndim + 1))))]
    return m


def _borderline(kind, ndim, L, dims):
    """Steps whose exact image is a proper region but whose float image may collapse (the reference point is so far
    away that an edge is absorbed).  Refusing is fine, accepting a non-degenerate result is fine - but the copying and
    the in-place form must AGREE, a refusal must not modify the object, and an accepted result must keep pmin < pmax."""
    ev = [("scale", (0.5, tuple([1e17 * L] * ndim))), ("scale", (1e-3, tuple([0.0] * (ndim - 1) + [1e14 * L]))),
          ("scale", (-0.5, tuple([1e17 * L] * ndim)))]
    if ndim >= 2:
        ev.append(("rotate90", (dims[0], dims[1], 1, tuple([1e17 * L] * ndim))))
        ev.append(("rotate90", (dims[1], dims[0], 2, tuple([0.0] * (ndim - 1) + [1e17 * L]))))
    ev.append(("translate", (tuple([1e17 * L] * ndim),)))
    # graded distances along the first axis: floating point absorbs a one-cell subregion before it absorbs the region
    for k in (52, 53, 54, 55):
        ev.append(("translate", (tuple([float(2 ** k) * L] + [0.0] * (ndim - 1)),)))
    return ev


# the in-place flag in the representations a truth value arrives in (numpy.bool_ is what a comparison of arrays gives)
FLAG_FORMS = {"in:numpy.True_": np.bool_(True), "in:1": 1, "copy:numpy.False_": np.bool_(False), "copy:0": 0}


def _representations(kind, ndim, dims, L):
    """(event, form) pairs that spell a LEGAL step differently: the in-place flag as numpy bool / integer, the turn count
    as an integral float or numpy integer.  Each must act exactly like the plain spelling - or be refused and leave the
    object untouched."""
    base = [("translate", (tuple([0.25 * L] * ndim),)), ("scale", (2.0, None))]
    out = [(e, f) for e in base for f in FLAG_FORMS]
    if ndim >= 2:
        rot = ("rotate90", (dims[0], dims[1], 1, None))
        out += [(rot, f) for f in FLAG_FORMS]
        for kk in (1.0, np.int64(3), np.float64(2.0), np.int8(-1)):
            out += [(("rotate90", (dims[0], dims[1], kk, None)), f) for f in ("in", "copy")]
    return out


def _call(obj, kind, ev, form):
    op, args = ev[0], ev[1]
    inplace = FLAG_FORMS[form] if form in FLAG_FORMS else form in ("in", "mesh-in")
    target = obj.mesh if (kind == "field" and op in ("translate", "scale")) else obj
    if op == "translate":
        r = target.translate(np.array(args[0]) if isinstance(args[0], _ARR) else args[0], inplace=inplace)
    elif op == "scale":
        rp = np.array(args[1], dtype=float) if isinstance(args[1], _ARR) else args[1]
        r = target.scale(args[0], reference_point=rp, inplace=inplace)
    else:
        r = target.rotate90(args[0], args[1], k=args[2], reference_point=args[3], inplace=inplace)
    if target is not obj:
        return obj if r is target else ("MESH-NOT-SELF", r)
    return r


def _region_of(obj):
    if isinstance(obj, df.Field):
        return obj.mesh.region
    if isinstance(obj, df.Mesh):
        return obj.region
    return obj


def _mesh_of(obj):
    if isinstance(obj, df.Field):
        return obj.mesh
    return obj if isinstance(obj, df.Mesh) else None


class Model:
    """exact model: region box, subregion boxes, n, error bound"""

    def __init__(self, obj):
        r = _region_of(obj)
        self.box = A.Box.of(r)
        self.dims = tuple(r.dims)
        m = _mesh_of(obj)
        self.n = [int(i) for i in m.n] if m is not None else None
        self.subs = {k: A.Box.of(v) for k, v in m.subregions.items()} if m is not None else {}
        self.err = 0.0  # accumulated absolute error bound (float)

    def step(self, ev):
        op, args = ev[0], ev[1]
        nd = len(self.box.lo)
        mags = [self.box.mag()] + [b.mag() for b in self.subs.values()]
        if op == "translate":
            f = lambda b: b.translate(args[0])  # noqa
            mags.append(max(abs(x) for x in args[0]))
            amp = 1.0
        elif op == "scale":
            ref = self.box.centre if args[1] is None else [A.F(x) for x in args[1]]
            f = lambda b: b.scale(args[0], ref)  # noqa
            s = args[0] if isinstance(args[0], (tuple, list)) else [args[0]]
            amp = max(abs(float(x)) for x in s)
            mags.append(max(abs(float(x)) for x in ref))
            mags.append(amp * (self.box.mag() + max(abs(float(x)) for x in ref)))
        else:
            i, j = self.dims.index(args[0]), self.dims.index(args[1])
            ref = self.box.centre if args[3] is None else [A.F(x) for x in args[3]]
            f = lambda b: b.rotate90(i, j, args[2], ref)  # noqa
            mags.append(2 * max(abs(float(x)) for x in ref) + self.box.mag())
            amp = 1.0
            if self.n is not None and args[2] % 2 == 1:
                self.n[i], self.n[j] = self.n[j], self.n[i]
        self.box = f(self.box)
        self.subs = {k: f(b) for k, b in self.subs.items()}
        mags.append(self.box.mag())
        M = max(mags)
        self.err = self.err * max(1.0, amp) + ULPS * C.ulp(M) * max(1.0, abs(args[2]) if op == "rotate90" else 1.0)
        return self


def _cmp_box(region, box, tol):
    lo = np.asarray(region.pmin, dtype=float)
    hi = np.asarray(region.pmax, dtype=float)
    for got, exact in list(zip(lo, box.lo)) + list(zip(hi, box.hi)):
        if abs(A.F(got) - exact) > tol:
            return f"corner {got!r} vs exact {float(exact)!r} (tol {tol:.3g})"
    return None


def _conform(ctx, sig, obj, model, inst, what):
    """implementation state vs exact model within model.err"""
    ctx.check()
    r = _region_of(obj)
    bad = _cmp_box(r, model.box, model.err)
    if bad:
        ctx.fail(f"{sig}/region-not-affine-image", f"{what}: {bad}", instance=inst)
        return
    if model.box.units is not None and tuple(r.units) != tuple(model.box.units):
        ctx.fail(f"{sig}/units", f"{what}: units {r.units} expected {tuple(model.box.units)}", instance=inst)
    if tuple(r.dims) != model.dims:
        ctx.fail(f"{sig}/dims", f"{what}: dims {r.dims} expected {model.dims}", instance=inst)
    m = _mesh_of(obj)
    if m is not None:
        if [int(i) for i in m.n] != model.n:
            ctx.fail(f"{sig}/n", f"{what}: n {m.n} expected {model.n}", instance=inst)
        if list(m.subregions) != list(model.subs):
            ctx.fail(f"{sig}/subregion-names", f"{what}: {list(m.subregions)}", instance=inst)
        else:
            for k, b in model.subs.items():
                bad = _cmp_box(m.subregions[k], b, model.err)
                if bad:
                    ctx.fail(f"{sig}/subregion-not-affine-image", f"{what}: subregion {k}: {bad}", instance=inst)
                    break


def _invariants(ctx, sig, obj, inst, what):
    ctx.check()
    r = _region_of(obj)
    pmin, pmax = np.asarray(r.pmin), np.asarray(r.pmax)
    nd = len(pmin)
    if not (len(pmax) == nd and np.all(pmin < pmax)):
        ctx.fail(f"{sig}/pmin-not-below-pmax", f"{what}: pmin={pmin.tolist()} pmax={pmax.tolist()}", instance=inst)
        return False
    if not (len(r.dims) == nd and len(r.units) == nd and len(set(r.dims)) == nd):
        ctx.fail(f"{sig}/dims-units-shape", f"{what}: dims={r.dims} units={r.units}", instance=inst)
    m = _mesh_of(obj)
    ok = True
    if m is not None:
        n = np.asarray(m.n)
        if not (n.shape == (nd,) and n.dtype.kind in "iu" and np.all(n > 0)):
            ctx.fail(f"{sig}/n-not-positive-int", f"{what}: n={m.n!r}", instance=inst)
            ok = False
        else:
            edges = pmax - pmin
            if C.gt(np.abs(np.asarray(m.cell) * n - edges), 8 * np.spacing(np.abs(edges))):
                ctx.fail(f"{sig}/cell-times-n", f"{what}: cell*n={np.asarray(m.cell) * n} edges={edges}", instance=inst)
    if isinstance(obj, df.Field):
        if obj.array.shape != (*[int(i) for i in obj.mesh.n], obj.nvdim):
            ctx.fail(f"{sig}/array-shape", f"{what}: array {obj.array.shape} n={obj.mesh.n} nvdim={obj.nvdim}", instance=inst)
            ok = False
        if obj.valid.shape != tuple(int(i) for i in obj.mesh.n) or obj.valid.dtype != np.bool_:
            ctx.fail(f"{sig}/valid-shape-dtype", f"{what}: valid {obj.valid.shape} {obj.valid.dtype} n={obj.mesh.n}", instance=inst)
            ok = False
    return ok


def _coherent(ctx, sig, obj, inst, what):
    """Every derived public quantity of the reached object (edges, centre, volume, cell, dV, len, cells, vertices,
    indices, index<->point, coordinate field, sub-meshes, integrals, norm, sampling) must be what a FRESH object with the
    same primary attributes answers: a step must not leave anything behind that still describes the previous geometry."""
    ctx.check()
    try:
        fresh = C.fresh_copy(obj)
    except Exception as e:  # the invariants / conformance oracles judge such states
        ctx.note(f"coherence:fresh-object-not-constructible:{type(e).__name__}")
        return True
    try:
        a = C.observables(obj)
    except Exception as e:
        ctx.fail(f"{sig}/derived-quantity-raises", f"{what}: {type(e).__name__}: {str(e)[:160]}", instance=inst)
        return False
    d = C.observables_differ(a, C.observables(fresh))
    if d:
        ctx.fail(f"{sig}/derived-quantity-stale-or-inconsistent", f"{what}: {d}", instance=inst)
        return False
    return True


def _warm(obj):
    """read every derived quantity once BEFORE the step (whatever the library memoises is then populated)"""
    try:
        C.observables(obj)
    except Exception:
        pass


def _canon(obj):
    r = _region_of(obj)

    M = max(float(np.max(np.abs(r.pmin))), float(np.max(np.abs(r.pmax))))
    q = M * 1e-9 if M > 0 else 1.0

    def rnd(a):
        return tuple(int(round(float(x) / q)) for x in a)

    key = [type(obj).__name__, rnd(r.pmin), rnd(r.pmax), tuple(r.dims), tuple(r.units)]
    m = _mesh_of(obj)
    if m is not None:
        key.append(tuple(int(i) for i in m.n))
        key.append(tuple((k, rnd(v.pmin), rnd(v.pmax), tuple(v.units)) for k, v in m.subregions.items()))
    if isinstance(obj, df.Field):
        key.append(engine.h64(obj.array.shape, obj.array.tobytes(), obj.valid.shape, obj.valid.tobytes(),
                              obj.vdims, sorted(obj.vdim_mapping.items())))
    return tuple(key)


def unit_histories(ctx):
    kind = ctx.choose("kind", ["region", "mesh", "mesh+sub", "field"])
    ndim = ctx.choose("ndim", [2, 1, 3] if kind != "field" else [2, 3, 1])
    variant = ctx.choose("variant", [0, 1])
    th = ctx.tier == "thorough"
    depth = {"region": 3 if th else 2, "mesh": 3 if th else 2, "mesh+sub": 3 if th else 2, "field": 3 if th else 2}[kind]
    if ndim == 1 and not th:
        depth = 3
    if th and ndim == 3 and kind != "region":
        depth = 2
    start = _start(kind, ndim, variant)
    dims = tuple(_region_of(start).dims)
    events = _events(kind, ndim, variant, ctx.tier, dims)
    malformed = _malformed(kind, ndim, dims, _scale_len(ndim, variant))
    ctx.note(f"events:{len(events)}")

    def build(hist):
        o = _start(kind, ndim, variant)
        for e in hist:
            r = _call(o, kind, e, e[2])
            o = r
        return o

    def model_of(hist):
        m = Model(_start(kind, ndim, variant))
        for e in hist:
            m.step(e)
        return m

    checked_malformed = set()

    def on_transition(hist, ev):
        form = ev[2]
        inst = f"{kind};nd={ndim};var={variant};hist={[(e[0], e[1], e[2]) for e in hist]};ev={ev}"
        cls = f"{'Field' if kind == 'field' else 'Mesh' if kind.startswith('mesh') else 'Region'}.{ev[0]}"
        pre = build(hist)
        snap0 = C.snap(pre)
        coh = len(hist) <= (1 if th else 0)  # coherence of derived quantities on the first step (thorough: first two steps) of every history
        step_model = Model(pre).step(ev)  # exact image of the ACTUAL pre-state
        acc_model = model_of(hist + (ev,))  # exact image of the initial state through the whole history
        if form == "copy":
            if coh:
                _warm(pre)
            res = _call(pre, kind, ev, "copy")
            ctx.check()
            if coh and not _coherent(ctx, cls + "/copy", res, inst, "result of the copying form") or \
                    coh and not _coherent(ctx, cls + "/copy-original", pre, inst, "original after the copying form"):
                return None
            if C.snap(pre) != snap0:
                ctx.fail(f"{cls}/copy-modified-original", "copying form changed the object it was called on", instance=inst)
            if res is pre:
                ctx.fail(f"{cls}/copy-returned-self", "copying form returned the object itself", instance=inst)
            _conform(ctx, cls + "/copy", res, step_model, inst, "copy vs exact image of the pre-state")
            _conform(ctx, cls + "/copy-history", res, acc_model, inst, "copy vs exact image of the initial state")
            if not _invariants(ctx, cls + "/copy", res, inst, "after copy"):
                return None
            # aliasing: NO in-place step on the result may reach the original.  One fresh copy per kind of
            # in-place step (translate, scale, every odd quarter turn, direct array/validity writes).
            L = _scale_len(ndim, variant)
            muts = [("translate", (tuple([3 * L] * ndim),)), ("scale", (tuple(([2.0, -0.5, 3.0])[:ndim]), None))]
            if ndim >= 2:
                muts += [("rotate90", (dims[a], dims[b], 1, None)) for a in range(ndim) for b in range(ndim) if a < b]
            for mop in muts:
                res2 = _call(pre, kind, ev, "copy")
                try:
                    form2 = "mesh-in" if (kind == "field" and mop[0] in ("translate", "scale")) else "in"
                    _call(res2, kind, mop + (form2,), form2)
                    if isinstance(res2, df.Field):
                        res2.array[...] += 1
                        res2.valid[...] = ~res2.valid
                except Exception:
                    pass
                ctx.step()
                ctx.check()
                if C.snap(pre) != snap0:
                    ctx.fail(f"{cls}/copy-aliases-original", f"in-place {mop[0]} of the copy reached the original",
                             instance=inst)
                    return None
            nxt = _call(pre, kind, ev, "copy")
            ctx.observe(_canon(nxt))
            return nxt
        # in place (form 'in' or 'mesh-in')
        pre2 = build(hist)
        if coh:
            _warm(pre2)
        res_i = _call(pre2, kind, ev, form)
        ctx.check()
        if res_i is not pre2:
            ctx.fail(f"{cls}/inplace-not-self", f"in-place form returned {type(res_i).__name__}, not the object itself", instance=inst)
            return None
        if coh and not _coherent(ctx, cls + "/inplace", res_i, inst, "object after the in-place form"):
            return None
        _conform(ctx, cls + "/inplace", res_i, step_model, inst, "in place vs exact image of the pre-state")
        _conform(ctx, cls + "/inplace-history", res_i, acc_model, inst, "in place vs exact image of the initial state")
        ok = _invariants(ctx, cls + "/inplace", res_i, inst, "after in-place")
        if form == "in":
            res_c = _call(pre, kind, ev, "copy")
            ctx.step()
            ctx.check()
            d = C.approx_equal_geom(res_i, res_c, 2 * step_model.err)
            if d:
                ctx.fail(f"{cls}/inplace-differs-from-copy", d, instance=inst)
        ctx.observe(_canon(res_i))
        return res_i if ok else None

    def enabled(obj, hist):
        # malformed calls are checked in every state (once per canonical state), they never change the state
        k = _canon(obj)
        if k not in checked_malformed:
            checked_malformed.add(k)
            for mev in malformed:
                forms = ["mesh-in"] if (kind == "field" and mev[0] in ("translate", "scale")) else ["copy", "in"]
                for form in forms:
                    o = build(hist)
                    s0 = C.snap(o)
                    ctx.step()
                    ctx.check()
                    raised, val = C.raises(_call, o, kind, mev, form)
                    inst = f"{kind};nd={ndim};var={variant};hist={[(e[0], e[1], e[2]) for e in hist]};ev={mev + (form,)}"
                    cls = f"{'Field' if kind == 'field' else 'Mesh' if kind.startswith('mesh') else 'Region'}.{mev[0]}"
                    if not raised:
                        ctx.fail(f"{cls}/malformed-accepted/{form}", f"{mev} accepted", instance=inst)
                    if C.snap(o) != s0:
                        ctx.fail(f"{cls}/malformed-modified-object/{form}", f"{mev} changed the object although it "
                                 f"{'raised' if raised else 'returned'}", instance=inst)
            # (probed at the start state and after every single step: the spelling of an argument does not interact
            # with longer histories, the object's past only has to be non-trivial)
            for rev, rform in (_representations(kind, ndim, dims, _scale_len(ndim, variant)) if len(hist) <= 1 else []):
                plain_form = "in" if rform.startswith("in") else "copy"
                if kind == "field" and rev[0] in ("translate", "scale"):
                    if plain_form == "copy":
                        continue
                    plain_form = "mesh-in"
                plain_ev = rev if rev[0] != "rotate90" else ("rotate90", rev[1][:2] + (int(rev[1][2]),) + rev[1][3:])
                o1, o2 = build(hist), build(hist)
                s0 = C.snap(o2)
                ctx.step(2)
                ctx.check()
                r1x, r1 = C.raises(_call, o1, kind, plain_ev, plain_form)
                if r1x:
                    continue  # the plain spelling is judged as a transition
                r2x, r2 = C.raises(_call, o2, kind, rev, rform)
                inst = f"{kind};nd={ndim};var={variant};hist={[(e[0], e[1], e[2]) for e in hist]};ev={rev!r};form={rform}"
                cls = f"{'Field' if kind == 'field' else 'Mesh' if kind.startswith('mesh') else 'Region'}.{rev[0]}"
                what = "flag" if rform in FLAG_FORMS else "turn-count"
                if r2x:
                    if C.snap(o2) != s0:
                        ctx.fail(f"{cls}/{what}-representation/refused-but-object-modified", f"{rev} {rform}: {type(r2).__name__}: "
                                 f"{str(r2)[:120]}", instance=inst)
                    continue
                inpl = plain_form in ("in", "mesh-in")
                if inpl and (r2 is not o2 or C.snap(o2) != C.snap(o1)):
                    ctx.fail(f"{cls}/{what}-representation/in-place-form-differs-from-plain-spelling",
                             f"{rev} with {rform}: returned {'the object' if r2 is o2 else 'another object'}; object equal to the "
                             f"plain in-place result: {C.snap(o2) == C.snap(o1)}", instance=inst)
                elif not inpl and (r2 is o2 or C.snap(o2) != s0 or isinstance(r2, tuple) or C.snap(r2) != C.snap(r1)):
                    ctx.fail(f"{cls}/{what}-representation/copying-form-differs-from-plain-spelling",
                             f"{rev} with {rform}: original untouched: {C.snap(o2) == s0}; returned the object itself: {r2 is o2}",
                             instance=inst)
            if kind != "field":
                for bev in _borderline(kind, ndim, _scale_len(ndim, variant), dims):
                    oc, oi = build(hist), build(hist)
                    sc, si = C.snap(oc), C.snap(oi)
                    ctx.step(2)
                    ctx.check()
                    rc, vc = C.raises(_call, oc, kind, bev, "copy")
                    ri, vi = C.raises(_call, oi, kind, bev, "in")
                    inst = f"{kind};nd={ndim};var={variant};hist={[(e[0], e[1], e[2]) for e in hist]};ev={bev}"
                    cls = f"{'Mesh' if kind.startswith('mesh') else 'Region'}.{bev[0]}"
                    ctx.note(f"borderline:{'refused' if rc else 'accepted'}")
                    if rc != ri:
                        ctx.fail(f"{cls}/refusal-differs-between-copy-and-inplace", f"{bev}: copying form "
                                 f"{'raised' if rc else 'returned'}, in-place form {'raised' if ri else 'returned'}", instance=inst)
                    if C.snap(oc) != sc:
                        ctx.fail(f"{cls}/copy-modified-original", f"{bev}", instance=inst)
                    if ri and C.snap(oi) != si:
                        ctx.fail(f"{cls}/refused-but-modified", f"{bev}", instance=inst)
                    if not ri:
                        _invariants(ctx, cls + "/inplace", oi, inst, f"after borderline {bev}")
                    if not rc:
                        _invariants(ctx, cls + "/copy", vc, inst, f"after borderline {bev}")
        return events

    # the first event is a top-level choice (sharding): None = only the start state and its
    # malformed calls; otherwise the transition start --first--> s1 is checked here and the BFS
    # continues from the one-event history.
    first_only = _first_only(kind, ndim)
    first = ctx.choose("first", [None] + events + first_only)
    if first is None:
        enabled(build(()), ())
        ctx.state("bfs", _canon(build(())))
        return
    ctx.step()
    s1 = on_transition((), first)
    if s1 is None or first in first_only:
        return
    ns, nt, capped = engine.bfs(ctx, [(first,)], enabled, build, _canon, on_transition, depth,
                                max_states=(40000 if th else 6000))
    ctx.observe(ns, nt)
    ctx.note("bfs-states", ns)
    ctx.note("bfs-transitions", nt)


def units(tier):
    return [{"name": "histories", "fn": unit_histories, "bound": None}]
