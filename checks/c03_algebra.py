"""C03 - field algebra is cell-wise NumPy algebra on one mesh; operands stay untouched.

Exploration over *expression programs*.  A program is a straight-line sequence
of operator applications over a register file that starts with the leaves
(vector fields A and B, scalar field S, numbers, constant vectors, a per-cell
array); every later instruction may use every earlier result, so programs of
length L cover all expression trees/DAGs with L operator nodes.  Every node of
every program is executed on the real library and compared with the same NumPy
function applied to the *same operands* (the library's own child results), so
the reference never re-derives anything the statement does not fix.

units
  pairs     all one-operator expressions: mesh x component count x dtypes x labels
            x operator x operand kinds (both operand orders, reflected forms)
  programs  all two-operator programs (5 leaves quick, all 10 leaves thorough)
  programs3 (thorough) all three-operator programs over 4 leaves
  refuse    operands on different meshes / with incompatible component counts
"""
import functools

import numpy as np

import discretisedfield as df
from mc import common as C
from mc import engine

PROPERTY = "C03"
RULE = ("unit pairs: full product mesh x nvdim x dtype(A) x dtype(B) x labels x operator x left operand kind x right "
        "operand kind; unit programs: full product config x all well-formed straight-line programs of 2 operator "
        "applications over 5 (quick) / 10 (thorough) leaves, in which the second instruction uses the first result; "
        "unit programs3 (thorough): all programs of 3 operator applications over 4 leaves, the first two from a reduced "
        "operator alphabet (5 unary, 8 binary), each instruction using the previous result; unit "
        "refuse: full product mesh x nvdim x kind of mesh difference / component-count mismatch x operator x operand "
        "order. Ill-typed operator/operand combinations (the statement fixes neither acceptance nor refusal) are "
        "counted as skipped. An execution is non-trivial when at least one library call was compared with NumPy.")
ASSUMPTIONS = [
    "scope: meshes with 1-4 dimensions and 1 or 2 cells per axis (the operators are cell-wise), 1-4 components, "
    "int/float/complex data, coded validity masks, default / custom / custom+permuted-mapping labels",
    "reference = the same NumPy function applied to the operands the library itself received (arrays of the "
    "library's own intermediate results), values compared with NaN == NaN and inf == inf, finite values up to "
    "1e-13 relative per element (reflected operators evaluate b*a for a*b and complex multiplication is not bitwise "
    "commutative); for dot/cross/angle additionally a fallback tolerance of 1e-12 of the largest magnitude (angle: "
    "on the cosine) tolerates a different but equivalent summation order",
    "storage dtype of a result is not fixed by the statement (integer results are widened to float64 by the Field "
    "constructor): values are compared, not dtypes",
    "commutativity of labels/mapping is demanded only when the operands that carry labels for the result agree on "
    "them (v_abc + w_xyz has no order-independent answer); otherwise the case is counted in the notes",
    "number ** field, tuple/list ** field (no reflected power exists), np.<ufunc>(field, tuple/list), array @ field, "
    "array & field, array << field and dot/cross/angle between a scalar and a vector field are treated as "
    "unspecified: not demanded either way, counted in the notes",
    "re-stacking components: array, component count, mesh and validity must be reproduced; labels/mapping of the "
    "re-stacked field are only counted (a scalar component carries no label, so the statement cannot demand them)",
    "refusal = any exception; different meshes are translated by >= half a cell, have another n or another cell size "
    "(far outside the closeness tolerance of Mesh.allclose)",
]

# --------------------------------------------------------------------------
# alphabets

#            name      pmin                    cell                    n              dims
MESHES_Q = [
    ("1d-2", (0.3,), (1.0,), (2,), None),
    ("2d-21", (0.3, -1.0), (1.0, 0.5), (2, 1), None),
    ("3d-122", (0.3, -1.0, 5.0), (1.0, 0.5, 2.0), (1, 2, 2), None),
    ("4d-2112", (0.3, -1.0, 5.0, 0.0), (1.0, 0.5, 2.0, 0.25), (2, 1, 1, 2), None),
]
MESHES_T = MESHES_Q + [
    ("1d-1", (-2.0,), (0.25,), (1,), None),
    ("2d-22", (0.0, 1.0), (2e-9, 1e-9), (2, 2), None),
    ("2d-12yx", (0.3, -1.0), (1.0, 0.5), (1, 2), ("y", "x")),
    ("3d-211", (0.0, 0.0, 0.0), (5e-9, 5e-9, 3e-9), (2, 1, 1), None),
    ("3d-221zxy", (0.3, -1.0, 5.0), (1.0, 0.5, 2.0), (2, 2, 1), ("z", "x", "y")),
    ("3d-122abc", (0.3, -1.0, 5.0), (1.0, 0.5, 2.0), (1, 2, 2), ("a", "b", "c")),
    ("4d-1211", (0.3, -1.0, 5.0, 0.0), (1.0, 0.5, 2.0, 0.25), (1, 2, 1, 1), None),
]
MESHDEF = {m[0]: m for m in MESHES_T}

DT = {"f": float, "i": int, "c": complex}
CUSTOM = ["ca", "cb", "cc", "cd"]

UNARY = ["neg", "pos", "abs", "real", "imag", "conj", "phase", "cabs", "sin", "exp", "npneg", "comp0", "compL",
         "restack"]
BINARY = ["add", "sub", "mul", "div", "pow", "matmul", "and", "lshift", "dot", "cross", "angle", "npadd", "npmul",
          "nppow"]
ARITH = {"add": np.add, "sub": np.subtract, "mul": np.multiply, "div": np.divide, "pow": np.power,
         "npadd": np.add, "npmul": np.multiply, "nppow": np.power}
COMMUTE = ("add", "mul", "npadd", "npmul")
UFUNC_FORM = ("npadd", "npmul", "nppow")
TOL_OPS = ("matmul", "dot", "and", "cross", "angle")


def make_mesh(name, shift=None, n=None, scale=None):
    _, pmin, cell, n0, dims = MESHDEF[name]
    n = tuple(n0 if n is None else n)
    pmin = np.array(pmin, dtype=float)
    ext = np.array(cell, dtype=float) * np.array(n0)
    if shift is not None:
        pmin = pmin + np.array(shift, dtype=float) * np.array(cell)
    if scale is not None:
        ext = ext * scale
    return df.Mesh(region=df.Region(p1=tuple(pmin), p2=tuple(pmin + ext), dims=dims), n=n)


def labels_for(variant, k, mesh):
    """(vdims, vdim_mapping) handed to the constructor"""
    ndim = mesh.region.ndim
    if k == 1 or variant == "default":
        return None, None
    vd = CUSTOM[:k]
    if variant == "custom":
        return vd, None
    # custom + cyclically permuted mapping (only offered when k == ndim)
    dims = list(mesh.region.dims)
    return vd, dict(zip(vd, dims[1:] + dims[:1]))


def label_variants(k, ndim):
    if k == 1:
        return ["default"]
    if k == ndim:
        return ["default", "custom", "custom-perm"]
    return ["default", "custom"]


@functools.lru_cache(maxsize=None)
def _tracer_cached(n, k, seed, cplx):
    a = C.tracer(n, k, seed, cplx=cplx)
    a.setflags(write=False)
    return a


def tracer(n, k, seed, cplx=False):
    """mc.common.tracer, memoised (pure function); a fresh writable copy is handed out"""
    return _tracer_cached(tuple(n), k, seed, cplx).copy()


@functools.lru_cache(maxsize=None)
def _mask_cached(n, i):
    m = C.coded_mask(n, i)
    m.setflags(write=False)
    return m


def coded_mask(n, i):
    return _mask_cached(tuple(n), i).copy()


class Val:
    """an operand: kind F (field), N (number), V (constant vector), P (per-cell array)"""
    __slots__ = ("name", "kind", "v")

    def __init__(self, name, kind, v):
        self.name, self.kind, self.v = name, kind, v

    @property
    def raw(self):
        return self.v.array if self.kind == "F" else self.v

    @property
    def ncomp(self):
        if self.kind == "F":
            return int(self.v.nvdim)
        if self.kind == "N":
            return None
        if self.kind == "V":
            return len(self.v)
        return int(self.v.shape[-1])

    def snap(self):
        if self.kind == "F":
            return C.field_snap(self.v)
        if isinstance(self.v, np.ndarray):
            return (self.v.dtype.str, self.v.shape, self.v.tobytes())
        return repr(self.v)


def build_leaves(ctx, meshname, k, da, db, labels, which, scalar="plain"):
    mesh = make_mesh(meshname)
    n = tuple(int(i) for i in mesh.n)
    vd, vm = labels_for(labels, k, mesh)
    out = {}

    def data(kk, dt, off):
        if dt == "c":
            return tracer(n, kk, ctx.seed + off, cplx=True)
        a = tracer(n, kk, ctx.seed + off)
        if dt == "i":
            return a.astype(np.int64) - 3  # contains negative numbers and (for >= 3 values) a zero
        return a - 2.5

    if "A" in which:
        out["A"] = Val("A", "F", df.Field(mesh, nvdim=k, value=data(k, da, 0), dtype=DT[da], vdims=vd, vdim_mapping=vm,
                                          valid=coded_mask(n, 0), unit="A/m"))
    if "B" in which:
        out["B"] = Val("B", "F", df.Field(mesh, nvdim=k, value=data(k, db, 1), dtype=DT[db], vdims=vd, vdim_mapping=vm,
                                          valid=coded_mask(n, 1), unit="A/m"))
    if "S" in which:
        if scalar == "named":
            out["S"] = Val("S", "F", df.Field(mesh, nvdim=1, value=data(1, "f", 2), valid=coded_mask(n, 2),
                                              vdims=["q"], vdim_mapping={"q": mesh.region.dims[0]}))
        else:
            out["S"] = Val("S", "F", df.Field(mesh, nvdim=1, value=data(1, "f", 2), valid=coded_mask(n, 2)))
    consts = {"i": 3, "x": -2.5, "z": 1.5 - 2j}
    for nm, v in consts.items():
        if nm in which:
            out[nm] = Val(nm, "N", v)
    if "t" in which:
        out["t"] = Val("t", "V", (2.0, -3.0, 0.5, 4.0)[:k])
    if "l" in which:
        out["l"] = Val("l", "V", [-1.5, 2, 3, -0.25][:k])
    if "nd" in which:
        out["nd"] = Val("nd", "V", np.array([0.5, 4.0, -2.0, 3.0][:k]))
    if "P" in which:
        out["P"] = Val("P", "P", tracer(n, k, ctx.seed + 17) * 0.5 - 3.0)
    return mesh, [out[w] for w in which]


# --------------------------------------------------------------------------
# classification: which combinations does the statement speak about?

def classify(op, x, y=None):
    """'valid' (must return the NumPy result), 'refuse' (must raise), or a string starting with 'skip:'"""
    if op in UNARY:
        if x.kind != "F":
            return "skip:unary-on-non-field"
        f = x.v
        if op in ("comp0", "compL", "restack") and f.vdims is None:
            return "skip:no-component-labels"
        return "valid"
    kx, ky = x.kind, y.kind
    if kx != "F" and ky != "F":
        return "skip:no-field-operand"
    cx, cy = x.ncomp, y.ncomp
    lt = type(x.v).__name__ if kx != "F" else "Field"
    rt = type(y.v).__name__ if ky != "F" else "Field"
    if op in ARITH:
        if op in UFUNC_FORM and (lt in ("tuple", "list") or rt in ("tuple", "list")):
            return "skip:ufunc-with-tuple-or-list"
        if op == "pow" and kx != "F" and lt != "ndarray":
            return "skip:reflected-power-of-number-or-sequence"
        if kx == "F" and ky == "F":
            if cx == cy or cx == 1 or cy == 1:
                return "valid"
            return "refuse"
        if "N" in (kx, ky):
            return "valid"
        fc, oc = (cx, cy) if kx == "F" else (cy, cx)
        if fc == oc or fc == 1:
            return "valid"
        return "skip:constant-or-array-with-other-length"
    if op == "lshift":
        if kx == "F" and ky == "F":
            return "valid"
        o = y if kx == "F" else x
        if o.kind == "P":
            return "skip:stack-with-per-cell-array"
        if kx != "F" and lt == "ndarray":
            return "skip:ndarray-on-the-left"
        return "valid"
    # dot-like
    if op in ("dot", "cross", "angle") and kx != "F":
        return "skip:method-of-non-field"
    if op in ("matmul", "and") and kx != "F" and lt == "ndarray":
        return "skip:ndarray-on-the-left"
    want3 = op in ("and", "cross")
    if kx == "F" and ky == "F":
        if cx != cy:
            # (a scalar field broadcasts in arithmetic; for dot / cross / angle one and several components do not fit)
            return "refuse"
        if want3 and cx != 3:
            return "skip:cross-needs-3-components"
        return "valid"
    o = y if kx == "F" else x
    f = x if kx == "F" else y
    if o.kind == "N":
        if op == "angle" and f.ncomp == 1:
            return "valid"
        return "skip:dot-like-with-number"
    if o.ncomp != f.ncomp:
        return "skip:constant-or-array-with-other-length"
    if want3 and f.ncomp != 3:
        return "skip:cross-needs-3-components"
    return "valid"


# --------------------------------------------------------------------------
# the library call and its NumPy reference

def _full(v, n):
    """number / constant vector / field array as a (*n, k) array"""
    if v.kind == "F":
        return v.v.array
    if v.kind == "N":
        return np.full((*n, 1), v.v)
    a = np.asarray(v.v)
    return np.broadcast_to(a, (*n, a.shape[-1]))


def _norm(a):
    return np.linalg.norm(a, axis=-1, keepdims=True)


def reference(op, x, y, n):
    a = x.raw
    if op in UNARY:
        if op == "neg":
            return -a
        if op == "pos":
            return +a
        if op in ("abs", "cabs"):
            return np.abs(a)
        if op == "real":
            return a.real
        if op == "imag":
            return a.imag
        if op == "conj":
            return np.conjugate(a)
        if op == "phase":
            return np.angle(a)
        if op == "sin":
            return np.sin(a)
        if op == "exp":
            return np.exp(a)
        if op == "npneg":
            return np.negative(a)
        if op == "comp0":
            return a[..., :1]
        if op == "compL":
            return a[..., -1:]
        if op == "restack":
            return a
    b = y.raw
    if op in ARITH:
        return ARITH[op](a, b)
    if op == "lshift":
        return np.concatenate([_full(x, n), _full(y, n)], axis=-1)
    a2 = _full(x, n)
    b2 = _full(y, n)
    if op in ("matmul", "dot"):
        return np.einsum("...l,...l->...", a2, b2)[..., np.newaxis]
    if op in ("and", "cross"):
        return np.cross(a2, b2)
    if op == "angle":
        if y.kind == "N":
            b2 = np.full(a2.shape, y.v)
        d = np.einsum("...l,...l->...", a2, b2)[..., np.newaxis]
        return np.arccos(d / (_norm(a2) * _norm(b2)))
    raise RuntimeError(op)


def call(op, x, y):
    a = x.v
    if op in UNARY:
        if op == "neg":
            return -a
        if op == "pos":
            return +a
        if op == "abs":
            return abs(a)
        if op == "real":
            return a.real
        if op == "imag":
            return a.imag
        if op == "conj":
            return a.conjugate
        if op == "phase":
            return a.phase
        if op == "cabs":
            return a.abs
        if op == "sin":
            return np.sin(a)
        if op == "exp":
            return np.exp(a)
        if op == "npneg":
            return np.negative(a)
        if op == "comp0":
            return getattr(a, a.vdims[0])
        if op == "compL":
            return getattr(a, a.vdims[-1])
        if op == "restack":
            r = getattr(a, a.vdims[0])
            for lab in a.vdims[1:]:
                r = r << getattr(a, lab)
            return r
    b = y.v
    if op == "add":
        return a + b
    if op == "sub":
        return a - b
    if op == "mul":
        return a * b
    if op == "div":
        return a / b
    if op == "pow":
        return a ** b
    if op == "matmul":
        return a @ b
    if op == "and":
        return a & b
    if op == "lshift":
        return a << b
    if op == "dot":
        return a.dot(b)
    if op == "cross":
        return a.cross(b)
    if op == "angle":
        return a.angle(b)
    if op == "npadd":
        return np.add(a, b)
    if op == "npmul":
        return np.multiply(a, b)
    if op == "nppow":
        return np.power(a, b)
    raise RuntimeError(op)


def _values_match(op, got, ref):
    got = np.asarray(got)
    ref = np.asarray(ref)
    if got.shape != ref.shape:
        return False
    if C.eq_nan(got, ref):
        return True
    if _close(got, ref):
        # a few ulp: reflected operators evaluate b*a for a*b, and complex multiplication is not bitwise commutative
        return True
    if op not in TOL_OPS:
        return False
    g = got.astype(complex)
    r = ref.astype(complex)
    fin = np.isfinite(r)
    if not np.array_equal(fin, np.isfinite(g)):
        return False
    if not C.eq_nan(np.where(fin, 0, g), np.where(fin, 0, r)):
        return False
    if op == "angle":
        g, r = np.cos(g), np.cos(r)
        fin = fin & np.isfinite(g) & np.isfinite(r)
    scale = np.max(np.abs(r[fin])) if fin.any() else 0.0
    return bool(np.all(np.abs(g[fin] - r[fin]) <= 1e-12 * (scale + 1.0)))


def _close(a, b):
    """equal up to a few ulp (complex multiplication is not bitwise commutative when fused multiply-add is used)"""
    if C.eq_nan(a, b):
        return True
    a = np.asarray(a).astype(complex)
    b = np.asarray(b).astype(complex)
    fin = np.isfinite(a) & np.isfinite(b)
    if not C.eq_nan(np.where(fin, 0, a), np.where(fin, 0, b)):
        # non-finite entries: compare real and imaginary parts separately with the same rule
        ar, br = np.stack([a.real, a.imag]), np.stack([b.real, b.imag])
        f2 = np.isfinite(ar) & np.isfinite(br)
        if not C.eq_nan(np.where(f2, 0, ar), np.where(f2, 0, br)):
            return False
        return bool(np.all(np.abs(ar[f2] - br[f2]) <= 1e-13 * (np.abs(ar[f2]) + np.abs(br[f2])) + 1e-300)) if f2.any() else True
    return bool(np.all(np.abs(a[fin] - b[fin]) <= 1e-13 * (np.abs(a[fin]) + np.abs(b[fin]))))


def _pair_class(x, y):
    def c(v):
        if v.kind == "F":
            return "scalar-field" if v.ncomp == 1 else "vector-field"
        if v.kind == "N":
            return "number"
        return "ndarray" if isinstance(v.v, np.ndarray) else "sequence"
    return ",".join(sorted([c(x), c(y)]))


def _group(op):
    """call-site group used in signatures that fire per code path, not per operator"""
    if op in ("add", "sub", "mul", "div", "pow"):
        return "arithmetic-operator"
    if op in UFUNC_FORM:
        return "arithmetic-ufunc"
    return op


def _operand_class(x, y):
    def c(v):
        if v is None:
            return ""
        if v.kind == "F":
            return "scalar-field" if v.ncomp == 1 else "vector-field"
        return {"N": "number", "V": "constant-" + type(v.v).__name__, "P": "per-cell-array"}[v.kind]
    return c(x) + ("," + c(y) if y is not None else "")


def _label_sources(res_nvdim, *vals):
    return [(v.v.vdims, dict(v.v.vdim_mapping)) for v in vals if v is not None and v.kind == "F" and v.ncomp == res_nvdim]


def apply(ctx, mesh, live, op, x, y, name, top=True):
    """one operator node on the real library + all C03 oracles.  Returns the
    result as Val, or raises engine.Skip when the node is not a legal/defined
    expression (or the library failed on it, which is reported)."""
    cl = classify(op, x, y)
    if cl.startswith("skip:"):
        ctx.note(cl)
        raise engine.Skip()
    n = tuple(int(i) for i in mesh.n)
    mesh_before = C.mesh_snap(mesh)
    before = [(v.name, v.snap()) for v in live]
    label = f"{name} = {op}({x.name}{', ' + y.name if y is not None else ''})"
    oc = _operand_class(x, y)
    with np.errstate(all="ignore"):
        if cl != "refuse":
            try:
                ref = reference(op, x, y, n)
            except Exception as e:  # NumPy itself refuses: nothing to demand
                ctx.note(f"reference-raises:{op}:{type(e).__name__}")
                raise engine.Skip()
        ctx.step(1, label)
        raised, res = C.raises(call, op, x, y)
    ctx.check()
    after = [(v.name, v.snap()) for v in live]
    if after != before:
        who = [a[0] for a, b in zip(after, before) if a != b]
        ctx.fail(f"{op}/operand-modified", f"{label}: operands {who} changed during evaluation ({oc})")
    if C.mesh_snap(mesh) != mesh_before:
        ctx.fail(f"{op}/mesh-modified", f"{label}: the mesh changed during evaluation")
    if cl == "refuse":
        ctx.check()
        ctx.note("refusals-demanded")
        if not raised:
            ctx.fail(f"{op}/incompatible-component-counts-accepted",
                     f"{label}: {x.ncomp} and {y.ncomp} components were combined into {type(res).__name__}"
                     f"{' nvdim=%s' % res.nvdim if isinstance(res, df.Field) else ''}")
        raise engine.Skip()
    if raised:
        site = engine._lib_site(res.__traceback__) or "outside-library"
        lab = ""
        for v in (x, y):
            if v is not None and v.kind == "F" and v.v.vdims is not None and v.v.vdims != _default_vdims(v.v.nvdim):
                lab = "/custom-labels"
        ctx.fail(f"{_group(op)}/raises-on-valid-expression/{site}/{type(res).__name__}{lab}",
                 f"{label} ({oc}): {type(res).__name__}: {res}")
        raise engine.Skip()
    ctx.check()
    if not isinstance(res, df.Field):
        ctx.fail(f"{op}/result-not-a-field", f"{label}: returned {type(res).__name__}")
        raise engine.Skip()
    ctx.observe(res.array)
    ok = True
    if C.mesh_snap(res.mesh) != mesh_before:
        ctx.fail(f"{op}/result-on-other-mesh", f"{label}: result mesh {res.mesh!r}")
        ok = False
    ctx.check()
    if res.array.shape != np.shape(ref) or res.nvdim != np.shape(ref)[-1]:
        ctx.fail(f"{op}/result-shape", f"{label} ({oc}): result array shape {res.array.shape} nvdim {res.nvdim}, "
                 f"NumPy gives {np.shape(ref)}")
        ok = False
    elif not _values_match(op, res.array, ref):
        ctx.fail(f"{op}/array-differs-from-numpy", f"{label} ({oc}): got {res.array.ravel().tolist()[:8]} NumPy "
                 f"{np.asarray(ref).ravel().tolist()[:8]}")
        ok = False
    if op == "restack":
        ctx.check()
        f = x.v
        if not np.array_equal(res.valid, f.valid):
            ctx.fail("restack/validity-not-reproduced", f"{label}: {res.valid.ravel().tolist()} vs "
                     f"{f.valid.ravel().tolist()}")
        if res.vdims != f.vdims or res.vdim_mapping != f.vdim_mapping:
            ctx.note("restack:labels-or-mapping-not-reproduced(not-demanded)")
        else:
            ctx.note("restack:labels-and-mapping-reproduced")
    # commutativity
    if op in COMMUTE and ok:
        with np.errstate(all="ignore"):
            cl2 = classify(op, y, x)
            if cl2 == "valid":
                ctx.step(1, f"{op}({y.name}, {x.name})")
                raised2, res2 = C.raises(call, op, y, x)
                if not raised2 and isinstance(res2, df.Field):
                    ctx.check()
                    if not (res2.array.shape == res.array.shape and _close(res2.array, res.array)
                            and res2.nvdim == res.nvdim and C.mesh_snap(res2.mesh) == C.mesh_snap(res.mesh)):
                        ctx.fail(f"{op}/commutativity/array-differs", f"{label} ({oc}): operand order changes the values")
                    src = _label_sources(res.nvdim, x, y)
                    if len(src) == 2 and src[0] != src[1]:
                        ctx.note("commutativity:operands-disagree-on-labels(not-demanded)")
                    else:
                        ctx.check()
                        if res.vdims != res2.vdims or res.vdim_mapping != res2.vdim_mapping:
                            ctx.fail(f"{_group(op)}/commutativity/labels-or-mapping-differ/{_pair_class(x, y)}",
                                     f"{x.name}∘{y.name}: vdims={res.vdims} mapping={res.vdim_mapping}; "
                                     f"{y.name}∘{x.name}: vdims={res2.vdims} mapping={res2.vdim_mapping}")
                    ctx.check()
                    if not np.array_equal(res.valid, res2.valid):
                        ctx.fail(f"{_group(op)}/commutativity/validity-differs/{_pair_class(x, y)}",
                                 f"{x.name}∘{y.name}: valid={res.valid.ravel().tolist()}; {y.name}∘{x.name}: "
                                 f"valid={res2.valid.ravel().tolist()}")
                    after = [(v.name, v.snap()) for v in live]
                    if after != before:
                        ctx.fail(f"{op}/operand-modified", f"{op}({y.name}, {x.name}): operands changed during evaluation")
    return Val(name, "F", res)


def _default_vdims(k):
    if k == 1:
        return None
    if k <= 3:
        return ["x", "y", "z"][:k]
    return [f"v{i}" for i in range(k)]


# --------------------------------------------------------------------------
# units

ALL_LEAVES = ["A", "B", "S", "i", "x", "z", "t", "l", "nd", "P"]


def unit_pairs(ctx):
    meshes = MESHES_Q if ctx.tier == "quick" else MESHES_T
    meshname = ctx.choose("mesh", [m[0] for m in meshes])
    k = ctx.choose("nvdim", [3, 1, 2, 4])
    op = ctx.choose("op", UNARY + BINARY)
    if op in UNARY:
        xn = ctx.choose("x", ["A", "S"])
        which = [xn]
        yn = None
    else:
        xn = ctx.choose("x", ALL_LEAVES)
        yn = ctx.choose("y", ALL_LEAVES)
        which = [xn] if xn == yn else [xn, yn]
    # configuration choices only for the operands that take part (no duplicate executions)
    ndim = len(MESHDEF[meshname][3])
    da = ctx.choose("dtypeA", ["f", "i", "c"]) if "A" in which else "f"
    db = ctx.choose("dtypeB", ["f", "i", "c"]) if "B" in which else "f"
    labels = ctx.choose("labels", label_variants(k, ndim)) if ("A" in which or "B" in which) else "default"
    scalar = ctx.choose("scalar", ["plain"] if ctx.tier == "quick" else ["plain", "named"]) if "S" in which else "plain"
    mesh, vals = build_leaves(ctx, meshname, k, da, db, labels, which, scalar)
    x = vals[0]
    y = None if yn is None else vals[-1]
    apply(ctx, mesh, vals, op, x, y, "r1")


PROG_LEAVES_Q = ["A", "B", "S", "x", "t"]
PROG_LEAVES_3 = ["A", "B", "S", "x"]
# reduced operator alphabet for the inner instructions of three-step programs (one or two per library code path)
INNER_UNARY = ["neg", "abs", "conj", "sin", "comp0"]
INNER_BINARY = ["add", "sub", "mul", "div", "matmul", "and", "lshift", "npmul"]
CFG_Q = [("3d-122", 3, "f", "f", "custom"), ("2d-21", 2, "c", "f", "default")]
CFG_T = CFG_Q + [("2d-21", 2, "i", "c", "custom-perm")]


def _run_program(ctx, cfg, leaves, length, reduced_inner):
    meshname, k, da, db, labels = cfg
    mesh, live = build_leaves(ctx, meshname, k, da, db, labels, leaves)
    live = list(live)
    prev = None
    for step in range(1, length + 1):
        inner = reduced_inner and step < length
        un = INNER_UNARY if inner else UNARY
        bi = INNER_BINARY if inner else BINARY
        op = ctx.choose(f"op{step}", un + bi)
        names = [v.name for v in live]
        byname = {v.name: v for v in live}
        if op in un:
            if prev is None:
                xn = ctx.choose(f"x{step}", [nm for nm in names if byname[nm].kind == "F"])
            else:
                xn = prev.name
            x, y = byname[xn], None
        else:
            # every instruction after the first uses the previous result (otherwise the program is a shorter one)
            xn = ctx.choose(f"x{step}", names)
            if prev is not None and xn != prev.name:
                yn = prev.name
            else:
                yn = ctx.choose(f"y{step}", names)
            x, y = byname[xn], byname[yn]
        prev = apply(ctx, mesh, live, op, x, y, f"r{step}")
        live.append(prev)


def unit_programs(ctx):
    """all two-operator programs"""
    quick = ctx.tier == "quick"
    cfg = ctx.choose("config", CFG_Q if quick else CFG_T)
    _run_program(ctx, cfg, PROG_LEAVES_Q if quick else ALL_LEAVES, 2, False)


def unit_programs3(ctx):
    """(thorough) all three-operator programs; the first two operators from the reduced alphabet"""
    cfg = ctx.choose("config", CFG_Q[:1])
    _run_program(ctx, cfg, PROG_LEAVES_3, 3, True)


DIFFS = ["shift-one-cell", "shift-half-cell", "other-n", "other-cell", "nm-scale-single-cell-axis-vs-two-cells",
         "same-box-other-dimension-names",
         "nvdim-2-vs-3", "nvdim-3-vs-4", "nvdim-2-vs-4"]
REFUSE_OPS = ["add", "sub", "mul", "div", "pow", "matmul", "and", "lshift", "dot", "cross", "angle", "npadd", "npmul",
              "nppow", "npadd-out=first", "npmul-out=second", "nparctan2-out=first"]
# ufuncs whose out= is one of the operands: a refused call must not have written into it
OUT_FORMS = {"npadd-out=first": lambda a, b: np.add(a, b, out=a), "npmul-out=second": lambda a, b: np.multiply(a, b, out=(b,)),
             "nparctan2-out=first": lambda a, b: np.arctan2(a, b, out=a)}


def unit_refuse(ctx):
    meshes = MESHES_Q if ctx.tier == "quick" else MESHES_T
    meshname = ctx.choose("mesh", [m[0] for m in meshes])
    diff = ctx.choose("difference", DIFFS)
    # "1v3": a scalar field on one mesh and a vector field on the other (the counts broadcast, the meshes differ)
    k = ctx.choose("nvdim", [3, 1, 2, "1v3", "1v2"] if not diff.startswith("nvdim") else [0])
    op = ctx.choose("op", REFUSE_OPS)
    order = ctx.choose("order", ["A,B'", "B',A"])
    mesh = make_mesh(meshname)
    n = tuple(int(i) for i in mesh.n)
    ndim = len(n)
    if diff.startswith("nvdim"):
        ka, kb = int(diff[6]), int(diff[-1])
        mesh2 = mesh
        if op == "lshift":
            ctx.note("skip:stacking-fields-of-different-component-count-is-legal")
            raise engine.Skip()
        if op in OUT_FORMS:
            ctx.note("skip:out=-forms-are-probed-with-different-meshes-only")
            raise engine.Skip()
    else:
        ka, kb = (int(k[0]), int(k[2])) if isinstance(k, str) else (k, k)
        if diff == "shift-one-cell":
            mesh2 = make_mesh(meshname, shift=[1.0] + [0.0] * (ndim - 1))
        elif diff == "shift-half-cell":
            mesh2 = make_mesh(meshname, shift=[0.0] * (ndim - 1) + [0.5])
        elif diff == "other-n":
            n2 = list(n)
            n2[0] = n[0] + 1
            mesh2 = make_mesh(meshname, n=n2)
        elif diff == "same-box-other-dimension-names":
            # identical corners and counts, but the axes are called differently (renamed / permuted names): another mesh
            alt = {1: ("q",), 2: ("y", "x"), 3: ("z", "x", "y"), 4: ("x3", "x0", "x1", "x2")}[ndim]
            if tuple(mesh.region.dims) == alt:
                alt = tuple(reversed(alt)) if ndim > 1 else ("r",)
            mesh2 = df.Mesh(region=df.Region(p1=tuple(mesh.region.pmin), p2=tuple(mesh.region.pmax), dims=alt), n=n)
        elif diff == "nm-scale-single-cell-axis-vs-two-cells":
            # same nanometre-sized region, one mesh has ONE cell along the last axis, the other TWO: the arrays would
            # broadcast and every cell size is below any absolute tolerance of order 1e-8
            reg = df.Region(p1=tuple([0.0] * ndim), p2=tuple([4e-9, 2e-9, 6e-9, 8e-9][:ndim]))
            na = [2] * ndim
            nb = list(na)
            nb[-1] = 1
            mesh = df.Mesh(region=reg, n=na)
            mesh2 = df.Mesh(region=reg, n=nb)
            n = tuple(na)
        else:
            mesh2 = make_mesh(meshname, scale=2.0)
        if op in ("and", "cross") and k != 3 and not isinstance(k, str):
            ctx.note("skip:cross-needs-3-components")
            raise engine.Skip()
    n2 = tuple(int(i) for i in mesh2.n)
    fa = df.Field(mesh, nvdim=ka, value=tracer(n, ka, ctx.seed) - 2.5, valid=coded_mask(n, 0))
    fb = df.Field(mesh2, nvdim=kb, value=tracer(n2, kb, ctx.seed + 1) - 2.5, valid=coded_mask(n2, 1))
    a, b = Val("A", "F", fa), Val("B'", "F", fb)
    x, y = (a, b) if order == "A,B'" else (b, a)
    before = (a.snap(), b.snap())
    ctx.step(1, f"{op}({x.name}, {y.name}) [{diff}]")
    ctx.check()
    with np.errstate(all="ignore"):
        raised, res = C.raises(OUT_FORMS[op], x.v, y.v) if op in OUT_FORMS else C.raises(call, op, x, y)
    ctx.observe(raised, type(res).__name__)
    if raised:
        ctx.note(f"refused-with:{type(res).__name__}")
    else:
        kind = "incompatible-component-counts-accepted" if diff.startswith("nvdim") else "different-meshes-accepted"
        what = ""
        if isinstance(res, df.Field):
            what = f" -> Field on {res.mesh.region.pmin.tolist()}..{res.mesh.region.pmax.tolist()} n={res.mesh.n.tolist()} nvdim={res.nvdim}"
        ctx.fail(f"{_group(op)}/{kind}", f"{op}({x.name}, {y.name}) with {diff}: accepted{what}; A on "
                 f"{mesh.region.pmin.tolist()}..{mesh.region.pmax.tolist()} n={list(n)}, B' on "
                 f"{mesh2.region.pmin.tolist()}..{mesh2.region.pmax.tolist()} n={list(n2)}",
                 instance=ctx.key())
    ctx.check()
    if (a.snap(), b.snap()) != before:
        ctx.fail(f"{op}/operand-modified", f"operands changed by a {'refused' if raised else 'accepted'} {op} ({diff})")


def unit_reuse(ctx):
    """Non-initial states: an expression is evaluated, the operand's VALUES are then changed through every public route
    (in-place writes into field.array, the array setter, update_field_values), and the same expression is evaluated again
    on the same objects.  The second result must be the expression on the values the operands hold now: equal to the
    result for freshly built fields with the current values (differential oracle; what a single evaluation gives is
    decided by the other units)."""
    op = ctx.choose("op", UNARY + BINARY)
    partner = ctx.choose("partner", ["field", "constant-vector", "number"]) if op in BINARY else None
    k = ctx.choose("nvdim", [3, 1])
    change = ctx.choose("change", ["array[cell] = v", "array[...] *= -3", "array = new", "update_field_values",
                                   "partner.array[...] += 1", "result relabelled: result.vdims = new names",
                                   "result overwritten: result.array[...] = 0, result.valid[...] = False"])
    first = ctx.choose("first", ["same-expression", "norm+orientation", "nothing"])
    mesh = make_mesh(ctx.choose("mesh", ["3d-122"] if ctx.tier == "quick" else ["3d-122", "1d-2", "2d-21", "4d-2112"]))
    n = tuple(int(i) for i in mesh.n)
    if op in ("and", "cross") and k != 3:
        raise engine.Skip()
    if op in ("comp0", "compL", "restack") and k == 1:
        raise engine.Skip()
    if change.startswith("partner") and partner != "field":
        raise engine.Skip()
    a0 = tracer(n, k, ctx.seed) - 2.5
    b0 = tracer(n, k, ctx.seed + 1) * 0.5 + 1.0
    fa = df.Field(mesh, nvdim=k, value=a0.copy())
    fb = df.Field(mesh, nvdim=k, value=b0.copy())
    other = {"field": fb, "constant-vector": tuple(float(i + 1) for i in range(k)) if k > 1 else 2.0, "number": 2.0}.get(partner)
    if op in ("matmul", "dot", "and", "cross", "angle", "lshift") and partner == "number":
        raise engine.Skip()

    def ev(x, y):
        with np.errstate(all="ignore"):
            return call(op, Val("A", "F", x), None if y is None else Val("B", "F" if isinstance(y, df.Field) else "N", y))

    inst = ctx.key()
    if change.startswith("result"):
        # "Evaluation leaves every operand's values, validity, labels and mesh unmodified" - also when the RESULT is
        # relabelled or overwritten afterwards: a result is its own object
        raised, res = C.raises(ev, fa, other)
        if raised or not isinstance(res, df.Field):
            raise engine.Skip()
        snaps = [C.field_snap(fa)] + ([C.field_snap(other)] if isinstance(other, df.Field) else [])
        labs = (list(fa.vdims) if fa.vdims else None, dict(fa.vdim_mapping))
        ctx.step(2, f"{op}; {change}")
        try:
            if change.startswith("result relabelled"):
                if res.nvdim > 1:
                    res.vdims = [f"w{i}" for i in range(res.nvdim)]
                    res.vdim_mapping = {}
            else:
                res.array[...] = 0.0
                res.valid[...] = False
        except Exception as e:
            ctx.note(f"result-change-refused:{type(e).__name__}")
        ctx.check(2)
        now = [C.field_snap(fa)] + ([C.field_snap(other)] if isinstance(other, df.Field) else [])
        if now != snaps or (list(fa.vdims) if fa.vdims else None, dict(fa.vdim_mapping)) != labs:
            ctx.fail(f"{op}/reuse/operand-changed-through-its-result", f"after '{change}' the operand has vdims {fa.vdims} "
                     f"mapping {fa.vdim_mapping} (was {labs})", instance=inst)
            return
        raised, again = C.raises(ev, fa, other)
        if raised:
            ctx.fail(f"{op}/reuse/operand-unusable-after-its-result-was-changed", f"{type(again).__name__}: {str(again)[:140]}",
                     instance=inst)
        return
    try:
        if first == "same-expression":
            ctx.step(1, f"first {op}")
            ev(fa, other)
        elif first == "norm+orientation":
            fa.norm, fa.orientation
            if isinstance(other, df.Field):
                other.norm
    except Exception:
        raise engine.Skip()  # ill-typed combination: the other units judge what a single evaluation does
    last = tuple(i - 1 for i in n)
    if change == "array[cell] = v":
        fa.array[last] = np.arange(7.0, 7.0 + k)
    elif change == "array[...] *= -3":
        fa.array[...] *= -3.0
    elif change == "array = new":
        fa.array = (a0[::-1] * 2.0 + 1.0).copy()
    elif change == "update_field_values":
        fa.update_field_values((a0[::-1] * 2.0 + 1.0).copy())
    else:
        other.array[...] += 1.0
    ctx.step(2, f"{change}; second {op}; {op} on fresh fields")
    fresh_a = df.Field(mesh, nvdim=k, value=np.array(fa.array))
    fresh_o = df.Field(mesh, nvdim=k, value=np.array(other.array)) if isinstance(other, df.Field) else other
    raised, ref = C.raises(ev, fresh_a, fresh_o)
    if raised or not isinstance(ref, df.Field):
        ctx.note("skip:expression-not-defined-for-these-operand-kinds")
        raise engine.Skip()
    again = ev(fa, other)
    ctx.check()
    ga, gr = np.asarray(again.array), np.asarray(ref.array)
    ctx.observe(np.round(np.nan_to_num(np.abs(ga)), 9))
    if ga.shape != gr.shape or not C.eq_nan(ga, gr):
        ctx.fail(f"{op}/reuse/second-evaluation-differs-from-fresh-operands",
                 f"after '{change}' (first use: {first}): {ga.ravel().tolist()[:6]} but fresh fields with the same values give "
                 f"{gr.ravel().tolist()[:6]}", instance=inst)


UFUNC_FORMS = ["divmod(A, B)", "divmod(A, S)", "divmod(A, number)", "modf(A)", "frexp(A)", "add(A, B, out=H)",
               "multiply(A, S, out=H)", "add(A, B, out=A)", "add(A, B, where=True)", "greater(A, B)", "isfinite(A)",
               "arctan2(A, B)", "maximum(A, number)", "add(A, ndarray)", "subtract(ndarray, A)", "hypot(A, B)"]


def unit_ufunc_forms(ctx):
    """NumPy ufuncs in the forms the operator units do not reach: two outputs (divmod, modf, frexp), an explicit
    ``out=`` field (also an operand as output), the ``where=`` keyword, comparisons and predicates, a per-cell
    ndarray as the other input.  What is returned (field, or tuple of fields) must hold NumPy's cell-wise result on the
    operands' mesh; inputs that are not written to on request stay untouched.  Single-output forms must work; for
    two-output ufuncs and an operand used as output a refusal is accepted."""
    meshes = MESHES_Q if ctx.tier == "quick" else MESHES_T
    meshname = ctx.choose("mesh", [m[0] for m in meshes])
    k = ctx.choose("nvdim", [3, 1, 2])
    form = ctx.choose("form", UFUNC_FORMS)
    da = ctx.choose("dtypeA", ["f", "i"] if ctx.tier == "quick" else ["f", "i", "c"])
    ndim = len(MESHDEF[meshname][3])
    labels = ctx.choose("labels", label_variants(k, ndim))
    mesh, vals = build_leaves(ctx, meshname, k, da, "f", labels, ["A", "B", "S"])
    A, B, S = (v.v for v in vals)
    n = tuple(int(i) for i in mesh.n)
    H = df.Field(mesh, nvdim=k, value=np.full((*n, k), 99.0), dtype=complex if da == "c" else float)
    P = tracer(n, k, ctx.seed + 5) * 0.25 + 1.0
    a, b, s = np.array(A.array), np.array(B.array), np.array(S.array)
    table = {
        "divmod(A, B)": (lambda: np.divmod(A, B), lambda: np.divmod(a, b), None),
        "divmod(A, S)": (lambda: np.divmod(A, S), lambda: np.divmod(a, s), None),
        "divmod(A, number)": (lambda: np.divmod(A, 2.0), lambda: np.divmod(a, 2.0), None),
        "modf(A)": (lambda: np.modf(A), lambda: np.modf(a), None),
        "frexp(A)": (lambda: np.frexp(A), lambda: np.frexp(a), None),
        "add(A, B, out=H)": (lambda: np.add(A, B, out=H), lambda: np.add(a, b), H),
        "multiply(A, S, out=H)": (lambda: np.multiply(A, S, out=H), lambda: np.multiply(a, s), H),
        "add(A, B, out=A)": (lambda: np.add(A, B, out=A), lambda: np.add(a, b).astype(a.dtype, casting="same_kind"), A),
        "add(A, B, where=True)": (lambda: np.add(A, B, where=True), lambda: np.add(a, b), None),
        "greater(A, B)": (lambda: np.greater(A, B), lambda: np.greater(a, b), None),
        "isfinite(A)": (lambda: np.isfinite(A), lambda: np.isfinite(a), None),
        "arctan2(A, B)": (lambda: np.arctan2(A, B), lambda: np.arctan2(a, b), None),
        "maximum(A, number)": (lambda: np.maximum(A, 1.0), lambda: np.maximum(a, 1.0), None),
        "add(A, ndarray)": (lambda: np.add(A, P), lambda: np.add(a, P), None),
        "subtract(ndarray, A)": (lambda: np.subtract(P, A), lambda: np.subtract(P, a), None),
        "hypot(A, B)": (lambda: np.hypot(A, B), lambda: np.hypot(a, b), None),
    }
    lib, refn, target = table[form]
    with np.errstate(all="ignore"):
        rr, ref = C.raises(refn)
    if rr:
        ctx.note(f"reference-raises:{type(ref).__name__}")
        raise engine.Skip()
    mesh_before = C.mesh_snap(mesh)
    watched = [(nm, f) for nm, f in (("A", A), ("B", B), ("S", S), ("H", H)) if f is not target]
    before = [(nm, C.field_snap(f)) for nm, f in watched]
    p_before = P.tobytes()
    ctx.step(1, form)
    with np.errstate(all="ignore"):
        raised, res = C.raises(lib)
    ctx.check()
    now = [(nm, C.field_snap(f)) for nm, f in watched]
    if now != before or P.tobytes() != p_before:
        who = [x[0] for x, y in zip(now, before) if x != y] + (["ndarray"] if P.tobytes() != p_before else [])
        ctx.fail("ufunc-forms/operand-modified", f"np.{form}: inputs {who} changed although they are not the output")
    if C.mesh_snap(mesh) != mesh_before:
        ctx.fail("ufunc-forms/mesh-modified", f"np.{form}: the mesh changed during evaluation")
    if raised:
        # single-output ufuncs over fields, numbers and per-cell arrays are expressions the statement speaks about
        # (like np.add(a, b) in the operator units); for two-output ufuncs and for an operand used as output it says
        # nothing definite, there a refusal is accepted
        if isinstance(ref, tuple) or target is A:
            ctx.note(f"refused:{form.split('(')[0]}:{type(res).__name__}")
            return
        site = engine._lib_site(res.__traceback__) or "outside-library"
        ctx.fail(f"ufunc-forms/raises-on-valid-expression/{site}/{type(res).__name__}",
                 f"np.{form} (dtype {da}, nvdim {k}): {type(res).__name__}: {res}")
        return
    refs = ref if isinstance(ref, tuple) else (ref,)
    outs = res if isinstance(res, tuple) else (res,)
    if len(outs) != len(refs) or not all(isinstance(o, df.Field) for o in outs):
        ctx.fail("ufunc-forms/result-is-not-one-field-per-numpy-output",
                 f"np.{form}: returned {[type(o).__name__ for o in outs]} for {len(refs)} NumPy output(s)")
        return
    kind = form.split("(")[0] + ("/out" if target is not None else "")
    for j, (o, r) in enumerate(zip(outs, refs)):
        ctx.check()
        ctx.observe(o.array)
        r = np.asarray(r)
        if C.mesh_snap(o.mesh) != mesh_before:
            ctx.fail(f"ufunc-forms/{kind}/result-on-other-mesh", f"np.{form} output {j}: mesh {o.mesh!r}")
        if o.array.shape != r.shape or o.nvdim != r.shape[-1]:
            ctx.fail(f"ufunc-forms/{kind}/result-shape", f"np.{form} output {j}: array shape {o.array.shape} nvdim {o.nvdim}, "
                     f"NumPy gives {r.shape}")
        elif not C.eq_nan(np.asarray(o.array).astype(complex), r.astype(complex)):
            ctx.fail(f"ufunc-forms/{kind}/array-differs-from-numpy", f"np.{form} output {j}: got "
                     f"{np.asarray(o.array).ravel().tolist()[:8]} NumPy {r.ravel().tolist()[:8]}")
    if target is not None:
        ctx.check()
        r = np.asarray(refs[0])
        if target.array.shape != r.shape or not C.eq_nan(np.asarray(target.array).astype(complex), r.astype(complex)):
            ctx.fail(f"ufunc-forms/{kind}/output-field-does-not-hold-the-result",
                     f"np.{form}: the field given as out= holds {np.asarray(target.array).ravel().tolist()[:8]}, NumPy gives "
                     f"{r.ravel().tolist()[:8]}")



def units(tier):
    return [
        {"name": "pairs", "fn": unit_pairs, "bound": None},
        {"name": "programs", "fn": unit_programs, "bound": None},
        {"name": "refuse", "fn": unit_refuse, "bound": None},
        {"name": "reuse", "fn": unit_reuse, "bound": None},
        {"name": "ufunc_forms", "fn": unit_ufunc_forms, "bound": None},
    ] + ([{"name": "programs3", "fn": unit_programs3, "bound": None}] if tier == "thorough" else [])
