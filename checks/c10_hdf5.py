"""C10 - HDF5 files preserve the complete state of a field; the legacy layout is still read.

Units
  mesh       : full product ndim x region corner typing x subregion layout x subregion corner typing x
               dimension names x units x tolerance factor x boundary condition (field part fixed).
  field      : full product ndim x nvdim x labels x unit x dtype x values x validity (mesh part fixed).
  cross      : all of the above alphabets together, every execution with at most 2 non-default choices
               (all pairwise interactions of the mesh part with the field part).
  legacy     : files in the pre-version layout (datasets field/mesh/region/p1, p2, field/mesh/n, field/dim,
               field/array) written by the harness with h5py.
  provenance : the field that is written comes from every other public producer (HDF5, OVF, VTK, xarray,
               rotate90, sel, negation) instead of the constructor.
Every execution writes with the real ``Field.to_file`` and reads with the real ``Field.from_file``; the result is
compared attribute by attribute.  h5py's own view of the file is only used to say where a value was lost.
"""
import json
import os
import shutil
import tempfile

import h5py
import numpy as np

import discretisedfield as df
from mc import common as C
from mc import engine

PROPERTY = "C10"
RULE = ("units mesh/field/legacy/provenance: full product of the listed alphabets; unit cross: all choice vectors with "
        "at most 2 non-default choices over the union of the mesh and field alphabets. One file written and read per "
        "execution; an execution is non-trivial when the file was written or read and at least one comparison ran.")
ASSUMPTIONS = [
    "scope: meshes with <= 512 cells, 1-4 dimensions, 1-4 components; subregion layouts none / interior / two disjoint / "
    "two touching / two overlapping / one covering all, on exactly representable (dyadic) lattices plus one 1e-9-scaled "
    "off-origin lattice",
    "values: float64 and complex128 must come back with the same dtype and identical bytes (including NaN, +-inf, -0.0); "
    "other real dtypes (int64, int32, float32) must come back real and value-equal - widening to float64 is recorded, "
    "not reported (statement: 'real staying real and complex staying complex')",
    "corners, subregion corners, tolerance factor are compared by value (==), not by dtype; the type of nvdim / labels "
    "containers is not compared (np.int64 vs int, list vs tuple)",
    "vdim_mapping is not in the statement's list and is not compared; 'returns an equal field' is checked with the "
    "library's own == only when the data contain no NaN",
    "legacy files: corners (as min/max of the stored p1/p2), cell counts, component count and data are demanded",
]

N0 = 8  # cells along axis 0 (cell 0.5 on a region of extent 4); other axes 4 cells on extent 2
DIMS = {
    "default": None,
    "custom": ["a", "b", "c", "d"],
    "nonascii": ["α", "β", "γ", "δ"],
    "words": ["len", "wid", "hgt", "tim"],
    "permuted-defaults": ["z", "x", "y", "w"],  # the default names in another order: a name must never be taken for a position
    "ndarray": "ndarray",  # custom names handed over as numpy array of str
}
UNITS = {
    "m": None,
    "distinct": ["nm", "um", "s", "K"],
    "nonascii": ["µm", "Å", "°", "1"],
    "ndarray": "ndarray",
}
# subregion index boxes along axis 0: layout -> (fractional variant, whole-number variant); each a list of (lo, hi)
LAYOUTS = {
    "none": ([], []),
    "interior": ([(1, 5)], [(2, 6)]),
    "disjoint": ([(0, 3), (5, 8)], [(0, 2), (4, 8)]),
    "touching": ([(0, 3), (3, 8)], [(0, 4), (4, 8)]),
    "overlapping": ([(0, 5), (3, 8)], [(0, 6), (2, 8)]),
    "all": ([(0, 8)], [(0, 8)]),
}
SPECIAL = [np.nan, np.inf, -np.inf, -0.0, 0.0, 5e-324, 1.7976931348623157e308, 1.0 / 3.0, -1e-300]


class _Tmp:
    def __enter__(self):
        self.d = tempfile.mkdtemp(dir="/dev/shm", prefix="dfmc-c10-")
        return self.d

    def __exit__(self, *a):
        shutil.rmtree(self.d, ignore_errors=True)


def _sel(ctx, *names):
    return ";".join(f"{n}={v}" for n, _, v in ctx.record if n in names)


def _shape(ndim):
    return (N0, 4, 4, 4)[:ndim]


def _region(ndim, typing, dims, units, tol):
    if typing == "int":
        p1, p2 = [0] * ndim, [4, 2, 2, 2][:ndim]
    elif typing == "float":
        p1, p2 = [0.0] * ndim, [4.0, 2.0, 2.0, 2.0][:ndim]
    else:  # "nano": off-origin, 1e-9 scale, not representable
        p1 = [-0.75e-9, 0.1e-9, -2e-9, 1e-9 / 3][:ndim]
        p2 = [a + e * 1e-9 for a, e in zip(p1, [4.0, 2.0, 2.0, 2.0])][:ndim]
    d = DIMS[dims]
    if isinstance(d, str):
        d = np.array(DIMS["custom"][:ndim])
    elif d is not None:
        d = d[:ndim]
    u = UNITS[units]
    if isinstance(u, str):
        u = np.array(UNITS["distinct"][:ndim])
    elif u is not None:
        u = u[:ndim]
    return df.Region(p1=p1, p2=p2, dims=d, units=u, tolerance_factor=tol)


def _subregions(region, ndim, typing, layout, styp):
    """dict name -> Region with corners typed as asked (python int / float)"""
    frac, whole = LAYOUTS[layout]
    boxes = frac if styp == "frac" else whole
    out = {}
    for k, (lo, hi) in enumerate(boxes):
        if k == 0:
            olo, ohi = 0, 4
        else:
            olo, ohi = (1, 4) if styp == "frac" else (2, 4)
        ilo = [lo] + [olo] * (ndim - 1)
        ihi = [hi] + [ohi] * (ndim - 1)
        if typing == "nano":
            pmin = np.asarray(region.pmin, dtype=float)
            cell = np.asarray(region.edges, dtype=float) / np.array(_shape(ndim))
            p1 = [float(a + i * c) for a, i, c in zip(pmin, ilo, cell)]
            p2 = [float(a + i * c) for a, i, c in zip(pmin, ihi, cell)]
        elif styp == "int":
            p1, p2 = [i // 2 for i in ilo], [i // 2 for i in ihi]
        elif styp == "intfloat":
            p1, p2 = [float(i // 2) for i in ilo], [float(i // 2) for i in ihi]
        else:
            p1, p2 = [i * 0.5 for i in ilo], [i * 0.5 for i in ihi]
        out[_SUBNAMES.split(",")[k]] = df.Region(p1=p1, p2=p2)
    return out


def _bc_domain(dims, ndim):
    names = {"default": ["x", "y", "z"][:ndim] if ndim <= 3 else None, "custom": DIMS["custom"][:ndim],
             "nonascii": DIMS["nonascii"][:ndim], "words": None, "ndarray": DIMS["custom"][:ndim],
             "permuted-defaults": DIMS["permuted-defaults"][:ndim]}[dims]
    dom = ["", "neumann", "dirichlet"]
    if names is not None:
        dom = ["", names[0], "".join(reversed(names)), "neumann", "dirichlet"]
        if ndim == 1:
            dom = ["", names[0], "neumann", "dirichlet"]
    return dom


def _valid(kind, n):
    if kind == "all":
        return np.ones(n, dtype=bool)
    if kind == "none":
        return np.zeros(n, dtype=bool)
    if kind == "hole":
        v = np.ones(n, dtype=bool)
        v[tuple(k // 2 for k in n)] = False
        return v
    return C.coded_mask(n, 3)


def _values(kind, dtype, n, nv, seed):
    dt = np.dtype(dtype)
    if dt.kind == "c":
        a = C.tracer(n, nv, seed, cplx=True)
    else:
        a = C.tracer(n, nv, seed)
    if kind == "special" and dt.kind in "fc":
        flat = a.reshape(-1)
        for i in range(flat.size):
            if i % 2 == 0:
                s = SPECIAL[(i // 2) % len(SPECIAL)]
                flat[i] = complex(s, SPECIAL[(i // 2 + 3) % len(SPECIAL)]) if dt.kind == "c" else s
        a = flat.reshape(*n, nv)
    return a.astype(dt)


def _labels(kind, nv):
    if kind == "default":
        return None
    if kind == "custom":
        return ["p", "q", "r", "s"][:nv]
    if kind == "absent":
        return []
    if kind == "ndarray":
        return np.array(["p", "q", "r", "s"][:nv])
    raise RuntimeError(kind)


def _h5_has(path, arr):
    """diagnostic: does some dataset of the file hold exactly these bytes (h5py's own view)"""
    hit = []

    def visit(name, obj):
        if isinstance(obj, h5py.Dataset) and obj.shape == arr.shape:
            try:
                v = obj[...]
            except Exception:  # noqa
                return
            if v.dtype == arr.dtype and v.tobytes() == np.ascontiguousarray(arr).tobytes():
                hit.append(name)

    try:
        with h5py.File(path, "r") as fh:
            fh.visititems(visit)
    except Exception as e:  # noqa
        return f"h5py cannot open the file: {e}"
    return f"written intact at {hit[0]!r} (lost by the reader)" if hit else "no dataset of the file holds these bytes (lost by the writer)"


def _subsnap(m):
    return [(k, tuple(np.asarray(v.pmin, dtype=float).tolist()), tuple(np.asarray(v.pmax, dtype=float).tolist()),
             tuple(v.dims), tuple(v.units), float(v.tolerance_factor)) for k, v in m.subregions.items()]


def _compare(ctx, f, g, path, K):
    """attribute by attribute; K maps an aspect to the choice names that identify an instance"""
    fm, gm = f.mesh, g.mesh
    ctx.check(12)
    if not (np.array_equal(np.asarray(gm.region.pmin), np.asarray(fm.region.pmin))
            and np.array_equal(np.asarray(gm.region.pmax), np.asarray(fm.region.pmax))):
        ctx.fail("hdf5-roundtrip/region-corners", f"{gm.region.pmin}-{gm.region.pmax} instead of {fm.region.pmin}-{fm.region.pmax}",
                 instance=_sel(ctx, *K["mesh"]))
    if tuple(gm.region.dims) != tuple(fm.region.dims):
        ctx.fail("hdf5-roundtrip/dims", f"{gm.region.dims} instead of {fm.region.dims}", instance=_sel(ctx, *K["mesh"]))
    if tuple(gm.region.units) != tuple(fm.region.units):
        ctx.fail("hdf5-roundtrip/units", f"{gm.region.units} instead of {fm.region.units}", instance=_sel(ctx, *K["mesh"]))
    if float(gm.region.tolerance_factor) != float(fm.region.tolerance_factor):
        ctx.fail("hdf5-roundtrip/tolerance-factor", f"{gm.region.tolerance_factor} instead of {fm.region.tolerance_factor}",
                 instance=_sel(ctx, *K["mesh"]))
    if tuple(int(i) for i in gm.n) != tuple(int(i) for i in fm.n):
        ctx.fail("hdf5-roundtrip/cell-counts", f"{gm.n} instead of {fm.n}", instance=_sel(ctx, *K["mesh"]))
    if gm.bc != fm.bc:
        ctx.fail("hdf5-roundtrip/bc", f"{gm.bc!r} instead of {fm.bc!r}", instance=_sel(ctx, *K["mesh"]))
    a, b = _subsnap(fm), _subsnap(gm)
    if a != b:
        if [x[0] for x in a] != [x[0] for x in b]:
            sig = "hdf5-roundtrip/subregions/names-or-order"
        elif [x[3:] for x in a] != [x[3:] for x in b]:
            sig = "hdf5-roundtrip/subregions/dims-units-tolerance"
        else:
            intreg = np.asarray(fm.region.pmin).dtype.kind in "iu"
            sig = "hdf5-roundtrip/subregions/corners" + ("/integer-typed-region" if intreg else "")
        ctx.fail(sig, f"{[x[:3] for x in b]} instead of {[x[:3] for x in a]}", instance=_sel(ctx, *K["sub"]))
    if int(g.nvdim) != int(f.nvdim):
        ctx.fail("hdf5-roundtrip/component-count", f"{g.nvdim} instead of {f.nvdim}", instance=_sel(ctx, *K["field"]))
    fv = None if f.vdims is None else [str(c) for c in f.vdims]
    gv = None if g.vdims is None else [str(c) for c in g.vdims]
    if fv != gv:
        sig = "hdf5-roundtrip/labels" + ("/absent-become-default" if fv is None else "")
        ctx.fail(sig, f"{gv} instead of {fv}", instance=_sel(ctx, *K["labels"]))
    if f.unit is None:
        if g.unit is not None:
            ctx.fail("hdf5-roundtrip/unit/none-becomes-string", f"field without unit comes back with unit {g.unit!r}",
                     instance=_sel(ctx, *K["unit"]))
    elif g.unit != f.unit:
        ctx.fail("hdf5-roundtrip/unit", f"{g.unit!r} instead of {f.unit!r}", instance=_sel(ctx, *K["unit"]))
    fvalid, gvalid = np.asarray(f.valid), np.asarray(g.valid)
    if fvalid.shape != gvalid.shape or not np.array_equal(fvalid.astype(bool), gvalid.astype(bool)):
        ctx.fail("hdf5-roundtrip/validity", f"{int(gvalid.sum())} valid cells instead of {int(fvalid.sum())}: "
                 + _h5_has(path, fvalid), instance=_sel(ctx, *K["data"]))
    fa, ga = np.asarray(f.array), np.asarray(g.array)
    exact = fa.dtype in (np.dtype(np.float64), np.dtype(np.complex128))
    if exact:
        ok = ga.dtype == fa.dtype and ga.shape == fa.shape and ga.tobytes() == np.ascontiguousarray(fa).tobytes()
    else:
        ok = ga.dtype.kind != "c" and ga.shape == fa.shape and C.eq_nan(ga, fa)
        if ga.dtype != fa.dtype:
            ctx.note(f"dtype-widened:{fa.dtype}->{ga.dtype}")
    if not ok:
        ctx.fail(f"hdf5-roundtrip/values/{fa.dtype}", f"dtype {ga.dtype} shape {ga.shape}, expected {fa.dtype} {fa.shape}; "
                 + _h5_has(path, fa), instance=_sel(ctx, *K["data"]))
    elif not np.isnan(fa).any() if fa.dtype.kind in "fc" else True:
        ctx.check()
        if not (g == f and gm == fm):
            ctx.fail("hdf5-roundtrip/not-equal", "from_file(to_file(f)) == f is False", instance=_sel(ctx, *K["mesh"], *K["sub"]))


def _roundtrip(ctx, f, d, K, refuse_class=None, opts=None, ext=".h5"):
    path = os.path.join(d, "f" + ext)
    before = C.field_snap(f)
    ctx.step(1, f"to_file({ext}{', ' + repr(opts) if opts else ''})")
    raised, e = C.raises(f.to_file, path, **(opts or {}))
    ctx.check()
    if raised:
        cls = refuse_class or "valid-field"
        if "No conversion path for dtype" in str(e):
            cls = "numpy-str-" + (refuse_class or "attribute")
        ctx.fail(f"to_file.hdf5/refused/{cls}", f"writing raised {type(e).__name__}: {e}", instance=_sel(ctx, *K["refuse"]))
        return None
    if C.field_snap(f) != before:
        ctx.fail("to_file.hdf5/operand-modified", "writing changed the field", instance=ctx.key())
    ctx.step(1, "from_file(.h5)")
    raised, g = C.raises(df.Field.from_file, path)
    ctx.check()
    if raised:
        ctx.fail("from_file.hdf5/own-file-rejected", f"reading the file just written raised {type(g).__name__}: {g}",
                 instance=ctx.key())
        return None
    ctx.observe(g.array, g.valid, g.mesh.n, g.mesh.bc, g.unit, g.vdims, _subsnap(g.mesh), tuple(g.mesh.region.dims),
                tuple(g.mesh.region.units))
    _compare(ctx, f, g, path, K)
    return g


def _str_class(dims, units, lab):
    """the first attribute (in the writer's order) that is held as numpy strings"""
    k = [n for n, v in (("dims", dims), ("units", units), ("labels", lab)) if v == "ndarray"]
    return k[0] if k else None


MESH_KEYS = ("ndim", "corners", "dims", "units", "tolerance", "bc")
SUB_KEYS = ("ndim", "corners", "layout", "subcorners", "subnames")


def _mesh_choices(ctx, full):
    q = ctx.tier == "quick"
    ndim = ctx.choose("ndim", [3, 1] if (q and full) else [3, 1, 2, 4])
    typing = ctx.choose("corners", ["float", "int", "nano"])
    layout = ctx.choose("layout", list(LAYOUTS))
    if layout == "none":
        styp = ctx.choose("subcorners", ["n/a"])
    elif typing == "nano":
        styp = ctx.choose("subcorners", ["frac"])
    else:
        styp = ctx.choose("subcorners", ["frac", "int", "intfloat"])
    # insertion order of the subregion names: alphabetical or not (the file stores names and corners separately)
    global _SUBNAMES
    _SUBNAMES = ctx.choose("subnames", ["first,second", "zeta,alpha"] if len(LAYOUTS[layout][0]) == 2 else ["first,second"])
    dims = ctx.choose("dims", ["default", "nonascii", "ndarray", "permuted-defaults"] if (q and full) else list(DIMS))
    units = ctx.choose("units", ["m", "distinct", "ndarray"] if (q and full) else list(UNITS))
    tol = ctx.choose("tolerance", [1e-12, 0] if q else [1e-12, 1e-9, 0])  # 0 = exact comparisons, given as a Python int
    bcdom = _bc_domain(dims, ndim)
    bc = ctx.choose("bc", [b for b in bcdom if not (q and full and b == "dirichlet")])
    return ndim, typing, layout, styp, dims, units, tol, bc


_SUBNAMES = "first,second"


def _make_mesh(ctx, ndim, typing, layout, styp, dims, units, tol, bc):
    region = _region(ndim, typing, dims, units, tol)
    n = _shape(ndim)
    try:
        subs = _subregions(region, ndim, typing, layout, styp)
        return df.Mesh(region=region, n=n, bc=bc, subregions=subs)
    except ValueError:
        if typing != "nano":
            raise
        ctx.note("subregions-not-accepted-by-Mesh(C14)")
        raise engine.Skip()


def unit_mesh(ctx):
    ndim, typing, layout, styp, dims, units, tol, bc = _mesh_choices(ctx, True)
    mesh = _make_mesh(ctx, ndim, typing, layout, styp, dims, units, tol, bc)
    n = _shape(ndim)
    f = df.Field(mesh, nvdim=2, value=C.tracer(n, 2, ctx.seed), vdims=["p", "q"], unit="A/m", valid=C.coded_mask(n, 1))
    K = {"mesh": MESH_KEYS, "sub": SUB_KEYS, "field": MESH_KEYS, "labels": (), "unit": (), "data": MESH_KEYS,
         "refuse": ("dims", "units")}
    with _Tmp() as d:
        _roundtrip(ctx, f, d, K, _str_class(dims, units, None))


FIELD_KEYS = ("ndim", "nvdim", "dtype", "values", "valid")
SHAPES = {1: (3,), 2: (2, 3), 3: (2, 3, 2), 4: (2, 1, 3, 2)}


def _field_choices(ctx, full):
    q = ctx.tier == "quick"
    nv = ctx.choose("nvdim", [3, 1, 2, 4])
    lab = ctx.choose("labels", ["default", "custom"] + (["absent"] if nv > 1 else []) + ["ndarray"])
    unit = ctx.choose("unit", ["A/m", None] + ([] if q else ["µ₀·A/m"]))
    dtype = ctx.choose("dtype", ["float64", "complex128", "int64"] + ([] if (q and full) else ["float32", "int32"]))
    vals = ctx.choose("values", ["tracer", "special"] if dtype in ("float64", "complex128", "float32") else ["tracer"])
    valid = ctx.choose("valid", ["all", "hole", "coded", "none"])
    return nv, lab, unit, dtype, vals, valid


def unit_field(ctx):
    q = ctx.tier == "quick"
    ndim = ctx.choose("ndim", [3, 1] if q else [3, 1, 2, 4])
    nv, lab, unit, dtype, vals, valid = _field_choices(ctx, True)
    n = SHAPES[ndim]
    mesh = df.Mesh(region=df.Region(p1=[0.0] * ndim, p2=[float(k) * 2.5e-9 for k in n]), n=n)
    f = df.Field(mesh, nvdim=nv, value=_values(vals, dtype, n, nv, ctx.seed), dtype=np.dtype(dtype), vdims=_labels(lab, nv),
                 unit=unit, valid=_valid(valid, n), vdim_mapping={} if lab == "absent" else None)
    K = {"mesh": ("ndim",), "sub": ("ndim",), "field": ("ndim", "nvdim"), "labels": ("nvdim", "labels"), "unit": ("unit",),
         "data": FIELD_KEYS, "refuse": ("labels", "nvdim")}
    with _Tmp() as d:
        _roundtrip(ctx, f, d, K, _str_class(None, None, lab))


WRITER_OPTIONS = [{}, {"representation": "bin4"}, {"representation": "txt"}, {"representation": "bin8"},
                  {"extend_scalar": True}, {"save_subregions": False}, {"representation": "bin4", "extend_scalar": True}]


def unit_writer_options(ctx):
    """``Field.to_file`` has options that belong to the other formats (representation, extend_scalar, save_subregions).
    "Writing any field to HDF5 and reading it back returns an equal field" has no exception for them: whatever the caller
    passes, the HDF5 file holds the complete field - or the call is refused."""
    ndim = ctx.choose("ndim", [3, 2])
    nv = ctx.choose("nvdim", [1, 3])
    dtype = ctx.choose("dtype", ["float64", "complex128", "int64"])
    opts = ctx.choose("options", WRITER_OPTIONS)
    ext = ctx.choose("extension", [".h5", ".hdf5"])
    # "unit (including none)": the empty string is a unit too (dimensionless), and it is not None
    unit = ctx.choose("unit", ["A/m", "", None])
    n = SHAPES[ndim]
    sub = {"zeta": df.Region(p1=[0.0] * ndim, p2=[2.5e-9 * (1 if a == 0 else k) for a, k in enumerate(n)])}
    mesh = df.Mesh(region=df.Region(p1=[0.0] * ndim, p2=[float(k) * 2.5e-9 for k in n]), n=n, subregions=sub)
    f = df.Field(mesh, nvdim=nv, value=_values("tracer", dtype, n, nv, ctx.seed) / (1 if dtype == "int64" else 7.0), dtype=np.dtype(dtype),
                 unit=unit, valid=C.coded_mask(n, 1))
    K = {"mesh": ("ndim",), "sub": ("ndim",), "field": ("ndim", "nvdim"), "labels": ("nvdim",), "unit": ("unit",),
         "data": ("ndim", "nvdim", "dtype", "options"), "refuse": ("options",)}
    with _Tmp() as d:
        path = os.path.join(d, "f" + ext)
        raised, e = C.raises(f.to_file, path, **opts)
        if raised and opts:
            ctx.note(f"option-refused:{sorted(opts)}:{type(e).__name__}")  # refusing a foreign option loses nothing
            return
        _roundtrip(ctx, f, d, K, None, opts, ext)


def unit_cross(ctx):
    ndim, typing, layout, styp, dims, units, tol, bc = _mesh_choices(ctx, False)
    nv, lab, unit, dtype, vals, valid = _field_choices(ctx, False)
    mesh = _make_mesh(ctx, ndim, typing, layout, styp, dims, units, tol, bc)
    n = _shape(ndim)
    f = df.Field(mesh, nvdim=nv, value=_values(vals, dtype, n, nv, ctx.seed), dtype=np.dtype(dtype), vdims=_labels(lab, nv),
                 unit=unit, valid=_valid(valid, n), vdim_mapping={} if lab == "absent" else None)
    K = {"mesh": MESH_KEYS, "sub": SUB_KEYS, "field": ("ndim", "nvdim"), "labels": ("nvdim", "labels"), "unit": ("unit",),
         "data": MESH_KEYS + FIELD_KEYS, "refuse": ("dims", "units", "labels")}
    with _Tmp() as d:
        _roundtrip(ctx, f, d, K, _str_class(dims, units, lab))


# ---------------------------------------------------------------------------
# legacy layout (files written before 'ubermag-hdf5-file-version' existed)


def unit_legacy(ctx):
    q = ctx.tier == "quick"
    shape = ctx.choose("shape", [(2, 3, 2), (1, 1, 1), (3, 1, 2)] + ([] if q else [(2, 3, 4)]))
    nv = ctx.choose("dim", [3, 1, 2])
    geo = ctx.choose("corners", ["nano", "unit", "swapped", "int"])
    dt = ctx.choose("array-dtype", ["float64", "float32"])
    # older versions wrote the subregions of such a file next to it as '<file name>.subregions.json'
    sidecar = ctx.choose("subregion-side-car", ["absent", "present"]) if geo in ("unit", "nano") and shape[0] >= 2 else "absent"
    if geo == "nano":
        p1, p2 = (0.0, -1.5e-9, 2e-9), tuple(a + 2.5e-9 * k for a, k in zip((0.0, -1.5e-9, 2e-9), shape))
    elif geo == "unit":
        p1, p2 = (0.0, 0.0, 0.0), tuple(float(k) for k in shape)
    elif geo == "int":
        p1, p2 = (0, 0, 0), tuple(int(k) for k in shape)
    else:
        p1, p2 = (float(shape[0]), 0.0, float(shape[2])), (0.0, float(shape[1]), 0.0)
    data = C.tracer(shape, nv, ctx.seed).astype(dt)
    with _Tmp() as d:
        path = os.path.join(d, "legacy.hdf5")
        with h5py.File(path, "w") as fh:
            gfield = fh.create_group("field")
            gmesh = gfield.create_group("mesh")
            gregion = gmesh.create_group("region")
            gregion.create_dataset("p1", data=p1)
            gregion.create_dataset("p2", data=p2)
            gmesh.create_dataset("n", dtype="i4", data=shape)
            gfield.create_dataset("dim", dtype="i4", data=nv)
            gfield.create_dataset("array", data=data)
        sub = None
        if sidecar == "present":
            lo_, hi_ = np.minimum(p1, p2).astype(float), np.maximum(p1, p2).astype(float)
            cut = lo_.copy(), hi_.copy()
            cut[1][0] = lo_[0] + (hi_[0] - lo_[0]) / shape[0]     # the first cell layer along x
            sub = {"first_layer": {"pmin": cut[0].tolist(), "pmax": cut[1].tolist(), "dims": ["x", "y", "z"],
                                   "units": ["m", "m", "m"], "tolerance_factor": 1e-12}}
            with open(path + ".subregions.json", "wt", encoding="utf-8") as fh:
                json.dump(sub, fh)
        ctx.step(1, "from_file(legacy .hdf5)")
        raised, g = C.raises(df.Field.from_file, path)
        ctx.check()
        if raised:
            ctx.fail("from_file.hdf5/legacy-file-rejected", f"{type(g).__name__}: {g}", instance=_sel(ctx, "dim", "corners"))
            return
        ctx.observe(g.array, g.mesh.n)
        ctx.check(4)
        inst = ctx.key()
        lo, hi = np.minimum(p1, p2).astype(float), np.maximum(p1, p2).astype(float)
        if not (np.array_equal(np.asarray(g.mesh.region.pmin, dtype=float), lo)
                and np.array_equal(np.asarray(g.mesh.region.pmax, dtype=float), hi)):
            ctx.fail("from_file.hdf5/legacy/region-corners", f"{g.mesh.region.pmin}-{g.mesh.region.pmax} instead of {lo}-{hi}",
                     instance=inst)
        if sub is not None:
            ctx.check()
            got = {k: (np.asarray(v.pmin, dtype=float).tolist(), np.asarray(v.pmax, dtype=float).tolist()) for k, v in g.mesh.subregions.items()}
            exp = {k: (v["pmin"], v["pmax"]) for k, v in sub.items()}
            if got != exp:
                ctx.fail("from_file.hdf5/legacy/subregions-of-the-side-car-not-read", f"side-car '<file>.subregions.json' holds {exp}, "
                         f"the field read has {got}", instance=inst)
        if tuple(int(i) for i in g.mesh.n) != tuple(shape):
            ctx.fail("from_file.hdf5/legacy/cell-counts", f"{g.mesh.n} instead of {shape}", instance=inst)
        if int(g.nvdim) != nv:
            ctx.fail("from_file.hdf5/legacy/component-count", f"{g.nvdim} instead of {nv}", instance=inst)
        elif g.array.shape != data.shape or g.array.dtype.kind == "c" or not np.array_equal(g.array, data):
            ctx.fail("from_file.hdf5/legacy/values", "data differ from the file's array", instance=inst)


# ---------------------------------------------------------------------------
# provenance


def _produce(ctx, producer, nv, d):
    shape = (2, 3, 2)
    mesh = df.Mesh(region=df.Region(p1=(0.0, -1.5e-9, 2e-9), p2=(4e-9, 3e-9, 7e-9)), n=shape, bc="xy",
                   subregions={"s": df.Region(p1=(0.0, -1.5e-9, 2e-9), p2=(2e-9, 3e-9, 7e-9))})
    vd = None if nv == 1 else ["a", "b", "c"][:nv]
    f0 = df.Field(mesh, nvdim=nv, value=C.tracer(shape, nv, ctx.seed), vdims=vd, unit="A/m", valid=C.coded_mask(shape, 2))
    if producer == "ctor":
        return f0
    ctx.step(1, f"producer {producer}")
    if producer in ("h5", "ovf", "vtk"):
        p = os.path.join(d, "src." + producer)
        f0.to_file(p)
        return df.Field.from_file(p)
    if producer == "xarray":
        return df.Field.from_xarray(f0.to_xarray())
    if producer == "rotate90":
        return f0.rotate90("x", "y")
    if producer == "sel":
        return f0.sel(x=(0.0, 4e-9))
    if producer == "neg":
        return -f0
    if producer == "real":
        return (f0 * (1 + 2j)).real
    if producer == "fftn":
        return f0.fftn()
    raise RuntimeError(producer)


def unit_provenance(ctx):
    producer = ctx.choose("producer", ["ctor", "h5", "ovf", "vtk", "xarray", "rotate90", "sel", "neg", "real", "fftn"])
    nv = ctx.choose("nvdim", [3, 1, 2])
    with _Tmp() as d:
        try:
            f = _produce(ctx, producer, nv, d)
        except Exception as e:  # the producer itself is another property's business
            ctx.note(f"producer-failed:{producer}:{type(e).__name__}")
            raise engine.Skip()
        keys = ("producer", "nvdim")
        K = {k: keys for k in ("mesh", "sub", "field", "labels", "data", "refuse")}
        K["unit"] = ()
        cls = None
        if f.vdims is not None and any(type(c) is not str for c in f.vdims):
            cls = "labels"
        _roundtrip(ctx, f, d, K, cls)


def unit_histories(ctx):
    """all write/read/mutate sequences on a two-path file store (mc/filehist.py): state leaking between calls"""
    from mc import filehist

    filehist.unit_store_histories(ctx, "h5", "hdf5")


def units(tier):
    return [
        {"name": "mesh", "fn": unit_mesh, "bound": None},
        {"name": "field", "fn": unit_field, "bound": None},
        {"name": "cross", "fn": unit_cross, "bound": 2},
        {"name": "writer_options", "fn": unit_writer_options, "bound": None},
        {"name": "legacy", "fn": unit_legacy, "bound": None},
        {"name": "provenance", "fn": unit_provenance, "bound": None},
        {"name": "histories", "fn": unit_histories, "bound": None},
    ]
