"""C18 - FieldRotator: arbitrary rotations rotate the vectors and resample the
positions consistently.

Units
-----
group    explicit-state search (engine.bfs) over the rotation state reached by
         quarter turns about x, y, z (both senses, five input forms each) and
         ``clear_rotation``: closes after 24 accumulated rotations + the
         untouched/cleared state.  Every transition is checked against the integer
         lattice model, a fresh rotator given the single composed rotation and
         the composition of ``Field.rotate90`` calls.
edges    the same 25 x 31 transition relation, one transition per execution (so
         that it parallelises), over every component-to-axis permutation,
         renamed axes and several cubic meshes.  The 25 start states are reached
         by the shortest generator words found by an integer BFS in the harness;
         unit ``group`` shows on the real objects that these are all states.
quarter_default_n  one quarter turn with the default target resolution on cubic lattices with non-representable
         cell sizes (5e-9, 0.1, 0.3, 1/3 ...), offsets and up to 25 cells per axis: must coincide with rotate90.
interp   one non-lattice rotation (axis x angle x input form x target n) on
         meshes that have interior cells: bounding box, independent trilinear
         reference rotated by Q, zero fill outside, uniform -> Q v, linear
         scalar reproduced.
seq      sequences of 2-3 non-lattice rotations / clears: the state equals a
         fresh rotator given the composed rotation (later after earlier).
refuse   fields that must be refused.
accept   positive controls: every supported field / mapping is accepted and a new rotator shows the original.
aborted  rotate() calls that raise (bad n, unknown method): outcome only counted in the notes, never a verdict.
"""
import itertools
import math

import numpy as np
from scipy.spatial.transform import Rotation as _SR

import discretisedfield as df
from mc import common as C
from mc import engine

PROPERTY = "C18"
RULE = ("unit group: ONE explicit-state BFS per configuration over histories of quarter-turn events (6 turns x 5 input "
        "forms + clear = 31 events) on the real FieldRotator until no new canonical state appears; the oracle runs on "
        "every transition before deduplication. unit edges: full product configuration x 25 start states x 31 events. "
        "unit interp: full product mesh x field x mapping x axis x angle x input form x target n. unit seq: full "
        "product field x rot1 x form1 x step2 x form2 x step3 x explicit-n position. unit refuse: all listed wrong "
        "inputs. An execution is non-trivial when at least one oracle comparison ran; interior / outside cell counts "
        "are in the notes and rotations without any interior cell are counted as vacuous.")
ASSUMPTIONS = [
    "scope: quarter-turn graph on cubic-cell meshes with <= 36 cells; non-lattice rotations from the alphabet "
    "{30deg, 45deg, -60deg, 0.3rad (+ 90deg, 120deg, -135deg, 1e-3rad, 2.5rad thorough)} about x, y, z, (1,1,1)/sqrt3, "
    "(1,2,-2)/3 (+ (2,-1,2)/3, (-2,-3,6)/7 thorough); sequences of <= 3 steps",
    "the five input forms denote the rotation that scipy.spatial.transform.Rotation assigns to them (from_quat scalar-last, "
    "from_matrix, from_rotvec, from_euler); the harness builds every form from its own Rodrigues matrix and skips a form "
    "when scipy's reading of it is not that matrix to 1e-12 (never observed)",
    "values are compared with tolerance 1e-9 * max|original values|; region corners with 1e-9 * max edge + 16 ulp",
    "interior = back-rotated centre >= (1 + 1e-9) cells away from every face of the original region (statement: 'at least "
    "one cell inside'); outside = more than 1e-6 cell beyond a face; the layer in between is not constrained (R2/R3)",
    "result components are read through the ORIGINAL field's component-to-axis pairing, position by position (the "
    "statement does not fix the names / units / dims of the rotated field and they are not checked)",
    "the default target resolution is not specified by the statement except for quarter turns on cubic cells (it must be "
    "the permuted n, otherwise the result cannot coincide with rotate90); elsewhere only n >= 1 is required, and two "
    "routes to the same rotation may differ by rounding of the default n by at most one cell per axis (then values are "
    "compared on the explicit common n)",
    "all real field values: the rotator has no value-dependent branch; tracer, uniform and linear data are used",
]

TOL = 1e-9

# ---------------------------------------------------------------------------
# integer model of the quarter turns

AXES = ("x", "y", "z")


def _gen(axis, sense):
    a = AXES.index(axis)
    b, c = (a + 1) % 3, (a + 2) % 3
    m = np.zeros((3, 3), dtype=int)
    m[a, a] = 1
    # +90 deg about axis a: e_b -> e_c, e_c -> -e_b
    m[c, b] = sense
    m[b, c] = -sense
    return m


GENS = {(ax, s): _gen(ax, s) for ax in AXES for s in (1, -1)}
FORMS = ("quat", "matrix", "rotvec", "euler", "align")
EVENTS = [("rot", ax, s, form) for form in FORMS for ax in AXES for s in (1, -1)] + [("clear",)]
assert len(EVENTS) == 31


def _words():
    """shortest generator words (matrix form) for the 24 rotations; integer BFS, no library involved"""
    ident = np.eye(3, dtype=int)
    seen = {ident.tobytes(): ()}
    order = [()]
    q = [()]
    mats = {(): ident}
    while q:
        nq = []
        for w in q:
            for g in sorted(GENS, key=lambda t: (AXES.index(t[0]), -t[1])):
                m = GENS[g] @ mats[w]
                if m.tobytes() not in seen:
                    seen[m.tobytes()] = w + (g,)
                    mats[w + (g,)] = m
                    order.append(w + (g,))
                    nq.append(w + (g,))
        q = nq
    return order, mats


WORDS, WORDMATS = _words()
assert len(WORDS) == 24


def _quarter_args(axis, sense, form):
    """(method, args, kwargs) expressing the quarter turn in the given input form"""
    a = AXES.index(axis)
    e = np.zeros(3)
    e[a] = 1.0
    if form == "quat":
        s = math.sin(math.pi / 4)
        return "from_quat", ((e * s * sense).tolist() + [math.cos(math.pi / 4)],), {}
    if form == "matrix":
        return "from_matrix", (GENS[(axis, sense)].astype(float),), {}
    if form == "rotvec":
        return "from_rotvec", ((e * sense * math.pi / 2).tolist(),), {}
    if form == "euler":
        return "from_euler", (axis, 90 * sense), {"degrees": True}
    if form == "align":
        b = (a + 1) % 3
        ini = np.zeros(3)
        ini[b] = 1.0
        fin = GENS[(axis, sense)] @ ini
        return "align_vector", (), {"initial": ini.tolist(), "final": fin.astype(float).tolist()}
    raise AssertionError(form)


# ---------------------------------------------------------------------------
# general rotations

SQ3 = 1 / math.sqrt(3)
GAXES = {
    "x": (1.0, 0.0, 0.0), "y": (0.0, 1.0, 0.0), "z": (0.0, 0.0, 1.0),
    "d111": (SQ3, SQ3, SQ3), "g122": (1 / 3, 2 / 3, -2 / 3),
    "g212": (2 / 3, -1 / 3, 2 / 3), "g236": (-2 / 7, -3 / 7, 6 / 7),
}
ANGLES = {
    "30deg": math.radians(30), "45deg": math.radians(45), "-60deg": math.radians(-60), "0.3rad": 0.3,
    "90deg": math.pi / 2, "120deg": 2 * math.pi / 3, "-135deg": math.radians(-135), "0.001rad": 1e-3, "2.5rad": 2.5,
}


def rodrigues(axis, theta):
    a = np.asarray(axis, dtype=float)
    a = a / np.linalg.norm(a)
    K = np.array([[0, -a[2], a[1]], [a[2], 0, -a[0]], [-a[1], a[0], 0]])
    return np.eye(3) + math.sin(theta) * K + (1 - math.cos(theta)) * (K @ K)


def general_args(axname, angname, form):
    """(method, args, kwargs, Q) for a rotation of the alphabet in the given form; None if the form cannot express it"""
    axis = np.asarray(GAXES[axname], dtype=float)
    axis = axis / np.linalg.norm(axis)
    th = ANGLES[angname]
    Q = rodrigues(axis, th)
    if form == "quat":
        call = ("from_quat", ((axis * math.sin(th / 2)).tolist() + [math.cos(th / 2)],), {})
    elif form == "matrix":
        call = ("from_matrix", (Q.copy(),), {})
    elif form == "rotvec":
        call = ("from_rotvec", ((axis * th).tolist(),), {})
    elif form == "euler":
        if axname in AXES:
            call = ("from_euler", (axname, math.degrees(th)), {"degrees": True})
        else:
            ang = _SR.from_matrix(Q).as_euler("zyx")
            call = ("from_euler", ("zyx", ang.tolist()), {})
    elif form == "align":
        k = int(np.argmin(np.abs(axis)))
        e = np.zeros(3)
        e[k] = 1.0
        ini = np.cross(axis, e)
        ini = ini / np.linalg.norm(ini)
        fin = Q @ ini
        call = ("align_vector", (), {"initial": ini.tolist(), "final": fin.tolist()})
    else:
        raise AssertionError(form)
    # harness-side guard: scipy's reading of the form is the intended matrix
    m, a, k = call
    if m == "align_vector":
        ini, fin = np.array(k["initial"]), np.array(k["final"])
        fixed = np.cross(ini, fin)
        if np.linalg.norm(fixed) < 1e-6:
            return None
        got = _SR.align_vectors([fin, fixed], [ini, fixed])[0].as_matrix()
    else:
        got = getattr(_SR, m)(*a, **k).as_matrix()
    if np.abs(got - Q).max() > 1e-12:
        return None
    return m, a, k, Q


# ---------------------------------------------------------------------------
# fields

PERMS = list(itertools.permutations(range(3)))  # component k lies along axis PERMS[i][k]
PERM_NAMES = {p: "".join("xyz"[a] for a in p) for p in PERMS}


def make_mesh(spec):
    pmin, cell, n, dims = spec
    pmax = [a + c * k for a, c, k in zip(pmin, cell, n)]
    return df.Mesh(region=df.Region(p1=pmin, p2=pmax, dims=dims), n=n)


def centres(pmin, pmax, n):
    """(n0, n1, n2, 3) array of cell centres computed by the harness"""
    pmin, pmax = np.asarray(pmin, float), np.asarray(pmax, float)
    n = [int(k) for k in n]
    cell = (pmax - pmin) / np.asarray(n)
    ax = [pmin[a] + (np.arange(n[a]) + 0.5) * cell[a] for a in range(3)]
    g = np.meshgrid(*ax, indexing="ij")
    return np.stack(g, axis=-1)


LIN = {  # scalar linear fields: value = c0 + c . (p - p0)
    "s-linx": (3.0, (2.0, 0.0, 0.0)),
    "s-liny": (-1.0, (0.0, -0.75, 0.0)),
    "s-linz": (0.5, (0.0, 0.0, 1.25)),
    "s-linxyz": (1.5, (2.0, -0.75, 0.5)),
}
VLIN = np.array([[1.0, -0.5, 0.25], [0.0, 2.0, -1.0], [0.75, 0.0, -1.5]])  # v = v0 + VLIN (p - p0), physical components
VUNI = (1.0, 2.0, 3.0)  # as stored components (distinct: a permutation is visible)


def make_field(mesh, kind, perm, seed, renamed=False):
    """returns (field, comp_axis) ; comp_axis[k] = index of the spatial axis component k points along (None: scalar).
    Kinds ending in '+mask' / '+allinvalid' carry a validity mask whose invalid cells hold their (non-zero) values: the
    rotated values are Q applied to the interpolation of the ORIGINAL VALUES, validity does not enter"""
    base, _, mk = kind.partition("+")
    if mk:
        f, ca = make_field(mesh, base, perm, seed, renamed)
        nn = tuple(int(k) for k in mesh.n)
        f.valid = C.coded_mask(nn, 4) if mk == "mask" else np.zeros(nn, dtype=bool)
        return f, ca
    n = tuple(int(k) for k in mesh.n)
    dims = mesh.region.dims
    scale = float(np.max(mesh.cell))
    pts = centres(mesh.region.pmin, mesh.region.pmax, n)
    rel = (pts - np.asarray(mesh.region.pmin, float)) / scale
    if kind.startswith("s-"):
        if kind == "s-uniform":
            arr = np.full(n + (1,), 2.5)
        elif kind == "s-tracer":
            arr = C.tracer(n, 1, seed)
        elif kind == "s-tracer-int":
            # integer-typed values (a field of counts): the interpolated values of the rotated field are not integers
            return df.Field(mesh, nvdim=1, value=C.tracer(n, 1, seed).astype(int), dtype=int, unit="A/m"), None
        else:
            c0, c = LIN[kind]
            arr = (c0 + rel @ np.asarray(c))[..., None]
        return df.Field(mesh, nvdim=1, value=arr, unit="A/m"), None
    vd = ["p", "q", "r"] if renamed else ["x", "y", "z"]
    if not renamed and perm != (0, 1, 2):
        vd = ["a", "b", "c"]
    mapping = {vd[k]: dims[perm[k]] for k in range(3)}
    if kind == "v-uniform":
        arr = np.broadcast_to(np.asarray(VUNI), n + (3,)).copy()
    elif kind == "v-tracer":
        arr = C.tracer(n, 3, seed)
    elif kind == "v-linear":
        phys = np.asarray([0.5, -1.0, 2.0]) + rel @ VLIN.T  # physical components along axes 0,1,2
        arr = np.empty(n + (3,))
        for k in range(3):
            arr[..., k] = phys[..., perm[k]]
    else:
        raise AssertionError(kind)
    f = df.Field(mesh, nvdim=3, value=arr, vdims=vd, vdim_mapping=mapping, unit="A/m")
    return f, perm


def to_phys(arr, comp_axis):
    """stored components -> physical (axis ordered) components"""
    out = np.empty_like(arr)
    for k in range(3):
        out[..., comp_axis[k]] = arr[..., k]
    return out


def from_phys(phys, comp_axis):
    out = np.empty_like(phys)
    for k in range(3):
        out[..., k] = phys[..., comp_axis[k]]
    return out


def trilinear(arr, pmin, cell, n, pts):
    """independent trilinear interpolation between cell centres; pts (...,3) must be >= half a cell inside.
    returns (..., nv)"""
    pmin, cell = np.asarray(pmin, float), np.asarray(cell, float)
    t = (pts - pmin) / cell - 0.5
    i0 = np.floor(t).astype(int)
    for a in range(3):
        i0[..., a] = np.clip(i0[..., a], 0, max(int(n[a]) - 2, 0))
    w = t - i0
    out = np.zeros(pts.shape[:-1] + (arr.shape[-1],))
    for dx, dy, dz in itertools.product((0, 1), repeat=3):
        ix = np.clip(i0[..., 0] + dx, 0, n[0] - 1)
        iy = np.clip(i0[..., 1] + dy, 0, n[1] - 1)
        iz = np.clip(i0[..., 2] + dz, 0, n[2] - 1)
        wt = ((w[..., 0] if dx else 1 - w[..., 0]) * (w[..., 1] if dy else 1 - w[..., 1])
              * (w[..., 2] if dz else 1 - w[..., 2]))
        out += wt[..., None] * arr[ix, iy, iz, :]
    return out


class Orig:
    """value snapshot of the original field taken by the harness BEFORE the rotator sees it"""

    def __init__(self, f, comp_axis):
        self.pmin = np.asarray(f.mesh.region.pmin, float).copy()
        self.pmax = np.asarray(f.mesh.region.pmax, float).copy()
        self.n = tuple(int(k) for k in f.mesh.n)
        self.cell = (self.pmax - self.pmin) / np.asarray(self.n)
        self.ctr = (self.pmin + self.pmax) / 2
        self.arr = np.array(f.array, dtype=float, copy=True)
        self.nv = int(f.nvdim)
        self.comp_axis = comp_axis
        self.vmax = float(np.abs(self.arr).max()) or 1.0
        self.snap = C.field_snap(f)


def check_region(ctx, sig, o, Q, g, inst):
    """region of g = axis-aligned bounding box of the rotated original region, same centre"""
    half = np.abs(Q) @ ((o.pmax - o.pmin) / 2)
    M = float(max(np.abs(o.pmin).max(), np.abs(o.pmax).max(), np.abs(o.ctr).max() + half.max()))
    tol = TOL * float((o.pmax - o.pmin).max()) + 16 * C.ulp(M)
    gp1, gp2 = np.asarray(g.mesh.region.pmin, float), np.asarray(g.mesh.region.pmax, float)
    ctx.check()
    if g.mesh.region.ndim != 3 or C.gt(np.abs(gp1 - (o.ctr - half)).max(), tol) or C.gt(np.abs(gp2 - (o.ctr + half)).max(), tol):
        ctx.fail(sig + "/region-not-bounding-box",
                 f"region {gp1.tolist()}..{gp2.tolist()} expected {(o.ctr - half).tolist()}..{(o.ctr + half).tolist()}",
                 instance=inst)
        return False
    return True


def check_values(ctx, sig, o, Q, g, inst, want_n=None):
    """interior cells: Q . trilinear(original) at the back-rotated centre; outside cells: zero.
    returns (n_interior, n_outside)"""
    gn = tuple(int(k) for k in g.mesh.n)
    ctx.check()
    if want_n is not None and gn != tuple(int(k) for k in want_n):
        ctx.fail(sig + "/explicit-n-ignored", f"asked for n={tuple(want_n)} got {gn}", instance=inst)
        return 0, 0
    if min(gn) < 1 or g.nvdim != o.nv or g.array.shape != gn + (o.nv,):
        ctx.fail(sig + "/result-shape", f"n={gn} nvdim={g.nvdim} array {g.array.shape}", instance=inst)
        return 0, 0
    cp = centres(g.mesh.region.pmin, g.mesh.region.pmax, gn)
    back = (cp - o.ctr) @ Q + o.ctr  # row-vector form of Q^T (c' - ctr) + ctr
    margin = np.minimum((back - o.pmin) / o.cell, (o.pmax - back) / o.cell).min(axis=-1)  # in cells
    interior = margin >= 1.0 + 1e-9
    outside = margin < -1e-6
    got = np.asarray(g.array, dtype=float)
    tol = TOL * o.vmax
    ni, no = int(interior.sum()), int(outside.sum())
    if ni:
        ref = trilinear(o.arr, o.pmin, o.cell, o.n, back[interior])
        if o.nv == 3:
            ref = from_phys(to_phys(ref, o.comp_axis) @ Q.T, o.comp_axis)
        ctx.check(ni)
        d = np.abs(got[interior] - ref)
        if C.gt(d.max(), tol):
            w = int(np.argmax(d.max(axis=-1)))
            idx = np.argwhere(interior)[w]
            ctx.fail(sig + "/interior-value-not-Q-of-interpolation",
                     f"target cell {idx.tolist()} (pre-image {back[tuple(idx)].tolist()}, {margin[tuple(idx)]:.3f} cells "
                     f"inside): got {got[tuple(idx)].tolist()} expected {ref[w].tolist()}", instance=inst)
    if no:
        ctx.check(no)
        d = np.abs(got[outside])
        if C.gt(d.max(), tol):
            w = int(np.argmax(d.max(axis=-1)))
            idx = np.argwhere(outside)[w]
            ctx.fail(sig + "/outside-not-zero",
                     f"target cell {idx.tolist()} (pre-image {back[tuple(idx)].tolist()}, {-margin[tuple(idx)]:.3g} cells "
                     f"outside) carries {got[tuple(idx)].tolist()}", instance=inst)
    return ni, no


def same_field(ctx, sig, a, b, o, inst, what):
    """region, n and values of two result fields agree"""
    ctx.check()
    an, bn = tuple(int(k) for k in a.mesh.n), tuple(int(k) for k in b.mesh.n)
    scale = float((o.pmax - o.pmin).max())
    ap = np.concatenate([np.asarray(a.mesh.region.pmin, float), np.asarray(a.mesh.region.pmax, float)])
    bp = np.concatenate([np.asarray(b.mesh.region.pmin, float), np.asarray(b.mesh.region.pmax, float)])
    M = float(max(np.abs(ap).max(), np.abs(bp).max()))
    if an != bn or C.gt(np.abs(ap - bp).max(), TOL * scale + 16 * C.ulp(M)):
        ctx.fail(sig + "/mesh", f"{what}: n {an} vs {bn}, region {ap.tolist()} vs {bp.tolist()}", instance=inst)
        return False
    if a.nvdim != b.nvdim or a.array.shape != b.array.shape:
        ctx.fail(sig + "/shape", f"{what}: {a.array.shape} vs {b.array.shape}", instance=inst)
        return False
    d = np.abs(np.asarray(a.array, float) - np.asarray(b.array, float))
    if C.gt(d.max(), TOL * o.vmax):
        idx = np.unravel_index(int(np.argmax(d)), d.shape)
        ctx.fail(sig + "/values", f"{what}: cell/component {tuple(int(i) for i in idx)}: {a.array[idx]} vs {b.array[idx]}",
                 instance=inst)
        return False
    return True


def do_rotate(rot, call, n=None):
    m, a, k = call[:3]
    if n is None:
        rot.rotate(m, *a, **k)
    else:
        rot.rotate(m, *a, n=n, **k)


# ---------------------------------------------------------------------------
# lattice model: expected result of an integer rotation M (cubic or not: pure index permutation)

def lattice_expect(o, M):
    """(pmin, pmax, n, array) of the original rotated by the signed permutation matrix M about its centre"""
    M = np.asarray(M, dtype=int)
    sigma = [int(np.nonzero(M[a])[0][0]) for a in range(3)]
    sign = [int(M[a, sigma[a]]) for a in range(3)]
    arr = np.transpose(o.arr, sigma + [3])
    for a in range(3):
        if sign[a] < 0:
            arr = np.flip(arr, axis=a)
    arr = np.array(arr, copy=True)
    if o.nv == 3:
        arr = from_phys(to_phys(arr, o.comp_axis) @ M.T.astype(float), o.comp_axis)
    half = np.abs(M) @ ((o.pmax - o.pmin) / 2)
    n = tuple(int(o.n[sigma[a]]) for a in range(3))
    return o.ctr - half, o.ctr + half, n, arr


def check_lattice(ctx, sig, o, M, g, inst):
    p1, p2, n, arr = lattice_expect(o, M)
    ctx.check()
    gn = tuple(int(k) for k in g.mesh.n)
    if gn != n:
        ctx.fail(sig + "/n-not-permuted", f"n={gn} expected {n}", instance=inst)
        return False
    gp = np.concatenate([np.asarray(g.mesh.region.pmin, float), np.asarray(g.mesh.region.pmax, float)])
    ep = np.concatenate([p1, p2])
    if C.gt(np.abs(gp - ep).max(), TOL * float((o.pmax - o.pmin).max()) + 16 * C.ulp(float(np.abs(ep).max()))):
        ctx.fail(sig + "/region", f"region {gp.tolist()} expected {ep.tolist()}", instance=inst)
        return False
    d = np.abs(np.asarray(g.array, float) - arr)
    if C.gt(d.max(), TOL * o.vmax):
        idx = np.unravel_index(int(np.argmax(d)), d.shape)
        ctx.fail(sig + "/values-not-lattice-rotation",
                 f"cell/component {tuple(int(i) for i in idx)}: got {g.array[idx]} expected {arr[idx]}", instance=inst)
        return False
    return True


def rotate90_chain(f, word):
    """the same quarter turns through Field.rotate90 (rotation from ax1 to ax2 = positive turn about the third axis)"""
    dims = f.mesh.region.dims
    g = f
    for ax, s in word:
        a = AXES.index(ax)
        g = g.rotate90(dims[(a + 1) % 3], dims[(a + 2) % 3], k=s)
    return g


# ---------------------------------------------------------------------------
# configurations of the quarter-turn units (cubic cells)

XYZ = ("x", "y", "z")
ABC = ("a", "b", "c")
LATTICE_MESHES = {
    "n432-c1": ((0.0, 0.0, 0.0), (1.0, 1.0, 1.0), (4, 3, 2), XYZ),
    "n432-c0.5-off": ((1.5, -2.0, 0.25), (0.5, 0.5, 0.5), (4, 3, 2), XYZ),
    "n233-c2e-9": ((-3e-9, 1e-9, 4e-9), (2e-9, 2e-9, 2e-9), (2, 3, 3), XYZ),
    "n432-c1-abc": ((0.0, 0.0, 0.0), (1.0, 1.0, 1.0), (4, 3, 2), ABC),
    "n143-c0.3": ((0.1, 0.2, -0.7), (0.3, 0.3, 0.3), (1, 4, 3), XYZ),
}


def _apply_event(rot, ev):
    if ev[0] == "clear":
        rot.clear_rotation()
    else:
        do_rotate(rot, _quarter_args(ev[1], ev[2], ev[3]))


def _model_after(hist):
    """integer accumulated rotation after a history (None = untouched/cleared), and the generator word since the last clear"""
    M, word = None, ()
    for ev in hist:
        if ev[0] == "clear":
            M, word = None, ()
        else:
            g = GENS[(ev[1], ev[2])]
            M = g if M is None else g @ M
            word = word + ((ev[1], ev[2]),)
    return M, word


def _transition_oracle(ctx, f, o, rot, hist_after, inst, heavy=True):
    """state of ``rot`` after ``hist_after`` (last event just applied)"""
    M, word = _model_after(hist_after)
    g = rot.field
    ctx.check()
    if C.field_snap(f) != o.snap:
        ctx.fail("FieldRotator/original-field-modified", "the original field changed", instance=inst)
    if M is None:
        ctx.check()
        if C.field_snap(g) != o.snap:
            ctx.fail("FieldRotator.clear_rotation/field-not-original", "after clear_rotation .field is not the original",
                     instance=inst)
        return
    ok = check_lattice(ctx, "FieldRotator.rotate/quarter-turns", o, M, g, inst)
    ni, no = check_values(ctx, "FieldRotator.rotate/quarter-turns", o, M.astype(float), g, inst)
    ctx.note("interior-cells", ni)
    if not heavy:
        return ok
    # (a) fresh rotator, single composed rotation
    fresh = df.FieldRotator(f)
    ctx.step(1)
    fresh.rotate("from_matrix", M.astype(float))
    same_field(ctx, "FieldRotator.rotate/history-differs-from-single-composed-rotation", g, fresh.field, o, inst,
               f"after {len(word)} quarter turns vs one from_matrix")
    # (b) lattice rotation of C12
    ctx.step(len(word))
    r90 = rotate90_chain(f, word)
    same_field(ctx, "FieldRotator.rotate/quarter-turn-differs-from-rotate90", g, r90, o, inst,
               "rotator vs Field.rotate90 composition " + " ".join(f"{a}{'+' if s > 0 else '-'}" for a, s in word))
    return ok


def _canon(rot, f):
    g = rot.field
    scale = float(np.max(f.mesh.region.edges))
    reg = tuple(np.round(np.concatenate([np.asarray(g.mesh.region.pmin, float), np.asarray(g.mesh.region.pmax, float)])
                         / scale, 6).tolist())
    arr = np.round(np.asarray(g.array, float), 6) + 0.0
    return (g is f, tuple(int(k) for k in g.mesh.n), reg, engine.hhex(arr.tobytes()))


GROUP_CFG_QUICK = [("s-tracer", (0, 1, 2), "n432-c1"), ("v-tracer", (2, 0, 1), "n432-c1")]
GROUP_CFG_THOROUGH = GROUP_CFG_QUICK + [
    ("v-tracer", (0, 1, 2), "n432-c0.5-off"), ("v-tracer", (1, 0, 2), "n233-c2e-9"), ("v-tracer", (0, 2, 1), "n432-c1-abc"),
    ("s-tracer", (0, 1, 2), "n233-c2e-9"),
]


def unit_group(ctx):
    cfgs = GROUP_CFG_QUICK if ctx.tier == "quick" else GROUP_CFG_THOROUGH
    kind, perm, mname = ctx.choose("config", cfgs)
    mesh = make_mesh(LATTICE_MESHES[mname])
    f, comp_axis = make_field(mesh, kind, perm, ctx.seed)
    o = Orig(f, comp_axis)
    base = ctx.key()

    def build(hist):
        rot = df.FieldRotator(f)
        for ev in hist:
            _apply_event(rot, ev)
        return rot

    def enabled(rot, hist):
        return EVENTS

    def canon(rot):
        return _canon(rot, f)

    def on_transition(hist, ev):
        rot = build(hist)
        _apply_event(rot, ev)
        inst = base + ";hist=" + _hist_str(hist + (ev,))
        _transition_oracle(ctx, f, o, rot, hist + (ev,), inst, heavy=True)
        ctx.observe(np.round(np.asarray(rot.field.array, float), 6) + 0.0)
        return rot

    nstates, ntrans, capped = engine.bfs(ctx, [()], enabled, build, canon, on_transition, depth=12, max_states=80)
    ctx.note("bfs-states", nstates)
    ctx.note("bfs-transitions", ntrans)
    ctx.check()
    if nstates != 25 or capped:
        ctx.fail("FieldRotator/quarter-turn-state-graph-not-24-rotations",
                 f"BFS over quarter turns and clear reached {nstates} distinct states (expected 24 rotations + the "
                 f"untouched state){' [capped]' if capped else ''}", instance=base)
    if ntrans != nstates * len(EVENTS):
        ctx.note("bfs-transitions-unexpected")


def _hist_str(hist):
    return ",".join("clear" if ev[0] == "clear" else f"{ev[1]}{'+' if ev[2] > 0 else '-'}:{ev[3]}" for ev in hist)


# start states of unit edges: untouched, the 23 non-trivial words + identity by four turns, and "cleared after a turn"
_FOUR = (("x", 1),) * 4
EDGE_STARTS = [("untouched", ())] + [("w" + "".join(a + ("+" if s > 0 else "-") for a, s in w), w) for w in WORDS[1:]] \
    + [("four-turns", _FOUR)]
assert len(EDGE_STARTS) == 25


def unit_edges(ctx):
    quick = ctx.tier == "quick"
    meshes = ["n432-c1", "n432-c1-abc"] if quick else list(LATTICE_MESHES)
    mname = ctx.choose("mesh", meshes)
    slim = quick and mname != "n432-c1"  # quick: the renamed-axes mesh only with two vector mappings
    kind = ctx.choose("field", ["v-tracer"] if slim else ["v-tracer", "s-tracer"])
    perm = ctx.choose("mapping", [PERMS[0], PERMS[3]] if slim else PERMS) if kind.startswith("v-") else (0, 1, 2)
    sname, word = ctx.choose("start", EDGE_STARTS)
    startform = ctx.choose("startform", ["matrix"] if quick else ["matrix", "cycle"])
    ev = ctx.choose("event", EVENTS)
    mesh = make_mesh(LATTICE_MESHES[mname])
    f, comp_axis = make_field(mesh, kind, perm, ctx.seed, renamed=(mname.endswith("abc")))
    o = Orig(f, comp_axis)
    hist = tuple(("rot", a, s, "matrix" if startform == "matrix" else FORMS[(i + 1) % 5]) for i, (a, s) in enumerate(word))
    rot = df.FieldRotator(f)
    for e in hist:
        ctx.step(1)
        _apply_event(rot, e)
    ctx.step(1, _hist_str(hist + (ev,)))
    _apply_event(rot, ev)
    _transition_oracle(ctx, f, o, rot, hist + (ev,), ctx.key(), heavy=True)
    ctx.observe(np.round(np.asarray(rot.field.array, float), 6) + 0.0)
    ctx.state("edge", _canon(rot, f))


# ---------------------------------------------------------------------------
# single quarter turns with the DEFAULT target resolution on many cubic lattices

QCELLS = [1.0, 5e-9, 1e-9, 0.1, 0.3, 0.7, 1.0 / 3.0]
QNS = [(3, 11, 25), (7, 2, 13), (4, 3, 2), (25, 3, 11), (10, 10, 1)]
QOFFS = [(0.0, 0.0, 0.0), (-4.0, 11.0, -8.0), (0.3, -7.7, 123.0)]  # in cells


def unit_quarter_default_n(ctx):
    """'for cubic cells a quarter turn about a coordinate axis coincides with the lattice rotation': cell sizes that
    are not representable in binary, regions away from the origin, cell counts up to 25 - the default target
    resolution must come out as the permuted n exactly (an edge/cell ratio of k - 1e-15 is still k cells)."""
    quick = ctx.tier == "quick"
    c = ctx.choose("cell", QCELLS)
    n = ctx.choose("n", QNS[:3] if quick else QNS)
    off = ctx.choose("offset-in-cells", QOFFS)
    a = ctx.choose("about", ["x", "y", "z"])
    sgn = ctx.choose("sense", [1, -1])
    form = ctx.choose("form", ["matrix"] if quick else ["matrix", "rotvec"])
    pmin = tuple(o * c for o in off)
    mesh = make_mesh((pmin, (c, c, c), n, XYZ))
    f, comp_axis = make_field(mesh, "s-tracer", (0, 1, 2), ctx.seed)
    o = Orig(f, comp_axis)
    rot = df.FieldRotator(f)
    ev = ("rot", a, sgn, form)
    ctx.step(1, _hist_str((ev,)))
    _apply_event(rot, ev)
    ctx.observe(tuple(int(k) for k in rot.field.mesh.n))
    _transition_oracle(ctx, f, o, rot, (ev,), ctx.key(), heavy=True)


# ---------------------------------------------------------------------------
# non-lattice rotations

INTERP_MESHES = {
    "n666-c1": ((1.0, -2.0, 3.0), (1.0, 1.0, 1.0), (6, 6, 6), XYZ),
    "n865-c1,0.5,2": ((-3.0, 1.0, 0.5), (1.0, 0.5, 2.0), (8, 6, 5), XYZ),
    "n555-c2e-9": ((-4e-9, 0.0, 10e-9), (2e-9, 2e-9, 2e-9), (5, 5, 5), XYZ),
    "n746-c0.3,0.3,0.1-abc": ((0.1, 0.2, -0.7), (0.3, 0.3, 0.1), (7, 4, 6), ABC),
}
FIELD_KINDS = ["s-tracer", "v-tracer", "s-uniform", "v-uniform", "s-linxyz", "v-linear", "s-linx", "s-liny", "s-linz",
               "s-tracer-int", "v-uniform+allinvalid", "s-linxyz+mask", "v-tracer+mask"]
EXPLICIT_N = (7, 5, 6)


def _analytic(ctx, o, kind, Q, g, inst, mesh):
    """uniform -> Q v, linear scalar reproduced (closed forms, interior cells only)"""
    gn = tuple(int(k) for k in g.mesh.n)
    if g.array.shape != gn + (o.nv,):
        return
    cp = centres(g.mesh.region.pmin, g.mesh.region.pmax, gn)
    back = (cp - o.ctr) @ Q + o.ctr
    margin = np.minimum((back - o.pmin) / o.cell, (o.pmax - back) / o.cell).min(axis=-1)
    interior = margin >= 1.0 + 1e-9
    if not interior.any():
        return
    got = np.asarray(g.array, float)[interior]
    scale = float(np.max(o.cell))
    if kind == "s-uniform":
        exp = np.full_like(got, 2.5)
        sig = "uniform-scalar-not-kept"
    elif kind == "v-uniform":
        v = to_phys(np.asarray(VUNI)[None, :], o.comp_axis)
        exp = np.broadcast_to(from_phys(v @ Q.T, o.comp_axis), got.shape)
        sig = "uniform-vector-not-Qv"
    elif kind in LIN:
        c0, c = LIN[kind]
        exp = (c0 + ((back[interior] - o.pmin) / scale) @ np.asarray(c))[..., None]
        sig = "linear-scalar-not-reproduced"
    elif kind == "v-linear":
        phys = np.asarray([0.5, -1.0, 2.0]) + ((back[interior] - o.pmin) / scale) @ VLIN.T
        exp = from_phys(phys @ Q.T, o.comp_axis)
        sig = "linear-vector-not-Q-of-field"
    else:
        return
    ctx.check(int(interior.sum()))
    d = np.abs(got - exp)
    if C.gt(d.max(), TOL * o.vmax):
        w = int(np.argmax(d.max(axis=-1)))
        ctx.fail("FieldRotator.rotate/" + sig, f"interior target cell {np.argwhere(interior)[w].tolist()}: got "
                 f"{got[w].tolist()} expected {np.asarray(exp)[w].tolist()}", instance=inst)


def _rot_alphabet(tier):
    if tier == "quick":
        axes = ["x", "y", "z", "d111", "g122"]
        angs = ["30deg", "45deg", "-60deg", "0.3rad"]
    else:
        axes = list(GAXES)
        angs = list(ANGLES)
    return axes, angs


def unit_interp(ctx):
    quick = ctx.tier == "quick"
    axes, angs = _rot_alphabet(ctx.tier)
    mname = ctx.choose("mesh", list(INTERP_MESHES)[:3] if quick else list(INTERP_MESHES))
    # quick: the nanometre-sized mesh (absolute margins of 1e-9 are half a cell there) with two field kinds only
    kind = ctx.choose("field", ["s-tracer", "v-tracer"] if quick and mname == "n555-c2e-9" else FIELD_KINDS)
    if kind.startswith("v-"):
        perm = ctx.choose("mapping", [PERMS[0], PERMS[3], PERMS[1]] if quick else PERMS)
    else:
        perm = (0, 1, 2)
    axname = ctx.choose("axis", axes)
    form = ctx.choose("form", list(FORMS))
    # two vectors to be aligned may enclose an obtuse angle: offered for that form also in the quick tier
    angname = ctx.choose("angle", angs + (["120deg", "-135deg"] if quick and form == "align" else []))
    n = ctx.choose("n", [None, EXPLICIT_N])
    call = general_args(axname, angname, form)
    if call is None:
        ctx.note("form-cannot-express-rotation")
        raise engine.Skip()
    Q = call[3]
    mesh = make_mesh(INTERP_MESHES[mname])
    f, comp_axis = make_field(mesh, kind, perm, ctx.seed, renamed=mname.endswith("abc"))
    o = Orig(f, comp_axis)
    rot = df.FieldRotator(f)
    ctx.step(1, f"rotate({call[0]}, {axname} {angname}, n={n})")
    do_rotate(rot, call, n)
    g = rot.field
    inst = ctx.key()
    ctx.observe(np.round(np.asarray(g.array, float) / o.vmax, 7) + 0.0, tuple(int(k) for k in g.mesh.n))
    ctx.check()
    if C.field_snap(f) != o.snap:
        ctx.fail("FieldRotator/original-field-modified", "the original field changed", instance=inst)
    check_region(ctx, "FieldRotator.rotate", o, Q, g, inst)
    ni, no = check_values(ctx, "FieldRotator.rotate", o, Q, g, inst, want_n=n)
    ctx.note("interior-cells", ni)
    ctx.note("outside-cells", no)
    if ni == 0:
        ctx.note("vacuous:no-interior-cell")
    _analytic(ctx, o, kind.partition("+")[0], Q, g, inst, mesh)
    # clearing restores the original
    ctx.step(1)
    rot.clear_rotation()
    ctx.check()
    if C.field_snap(rot.field) != o.snap:
        ctx.fail("FieldRotator.clear_rotation/field-not-original", "after clear_rotation .field is not the original",
                 instance=inst)


def _seq_rots(tier):
    base = [("z", "30deg"), ("x", "-60deg"), ("g122", "45deg"), ("d111", "0.3rad")]
    if tier == "quick":
        return base
    return base + [("y", "45deg"), ("g236", "120deg")]


def unit_seq(ctx):
    quick = ctx.tier == "quick"
    rots = _seq_rots(ctx.tier)
    forms = ["quat", "euler"]
    forms1 = forms if quick else ["quat", "euler", "align"]
    kind, perm = ctx.choose("field", [("v-tracer", (1, 2, 0)), ("s-tracer", (0, 1, 2)), ("v-uniform", (0, 2, 1))])
    mname = ctx.choose("mesh", ["n666-c1"] if quick else ["n666-c1", "n865-c1,0.5,2"])
    r1 = ctx.choose("rot1", rots)
    f1 = ctx.choose("form1", forms1)
    s2 = ctx.choose("step2", rots + ["clear"])
    f2 = ctx.choose("form2", forms if s2 != "clear" else ["-"])
    s3 = ctx.choose("step3", [None, "clear"] + (rots[:1] if quick else rots[:2]))
    f3 = ctx.choose("form3", (["matrix"] if quick else ["matrix", "align"]) if s3 not in (None, "clear") else ["-"])
    nwhere = ctx.choose("explicit-n", [None, "last"] if quick else [None, "last", "first"])
    # what the user does with rotator.field after the first rotation: later rotations still start from the ORIGINAL field
    meddle = ctx.choose("user-changes-the-rotated-field-after-step-1",
                        ["nothing", "relabels its components", "overwrites its values and validity", "moves its mesh in place"]
                        if (kind == "v-tracer" and s3 is None) or not quick else ["nothing"])
    steps = [(r1, f1), (s2, f2)] + ([(s3, f3)] if s3 is not None else [])
    mesh = make_mesh(INTERP_MESHES[mname])
    f, comp_axis = make_field(mesh, kind, perm, ctx.seed)
    o = Orig(f, comp_axis)
    rot = df.FieldRotator(f)
    Q = None  # composed rotation since the last clear
    last_rot = max((i for i, (s, _) in enumerate(steps) if s != "clear"), default=None)
    n_last = None
    for i, (s, form) in enumerate(steps):
        if s == "clear":
            ctx.step(1, "clear")
            rot.clear_rotation()
            Q = None
            n_last = None
            continue
        call = general_args(s[0], s[1], form)
        if call is None:
            ctx.note("form-cannot-express-rotation")
            raise engine.Skip()
        n = None
        if (nwhere == "first" and i == 0) or (nwhere == "last" and i == last_rot):
            n = EXPLICIT_N
        ctx.step(1, f"rotate({call[0]} {s[0]} {s[1]}, n={n})")
        do_rotate(rot, call, n)
        Q = call[3] if Q is None else call[3] @ Q  # later rotations applied after earlier ones
        n_last = n
        if i == 0 and meddle != "nothing":
            g1 = rot.field
            try:
                if meddle == "relabels its components":
                    if g1.nvdim == 3:
                        g1.vdims = ["u", "v", "w"]
                elif meddle == "overwrites its values and validity":
                    g1.array[...] = 0.0
                    g1.valid[...] = False
                else:
                    g1.mesh.translate(tuple(float(e) for e in g1.mesh.region.edges), inplace=True)
            except Exception as e:
                ctx.note(f"meddling-refused:{type(e).__name__}")
    inst = ctx.key()
    g = rot.field
    ctx.observe(np.round(np.asarray(g.array, float) / o.vmax, 7) + 0.0, tuple(int(k) for k in g.mesh.n))
    ctx.check()
    if C.field_snap(f) != o.snap:
        ctx.fail("FieldRotator/original-field-modified", "the original field changed", instance=inst)
    if Q is None:
        ctx.check()
        if C.field_snap(g) != o.snap:
            ctx.fail("FieldRotator.clear_rotation/field-not-original", "after clear_rotation .field is not the original",
                     instance=inst)
        return
    check_region(ctx, "FieldRotator.rotate/sequence", o, Q, g, inst)
    ni, no = check_values(ctx, "FieldRotator.rotate/sequence", o, Q, g, inst, want_n=n_last)
    ctx.note("interior-cells", ni)
    ctx.note("outside-cells", no)
    if ni == 0:
        ctx.note("vacuous:no-interior-cell")
    # fresh rotator with the single composed rotation
    fresh = df.FieldRotator(f)
    ctx.step(1)
    if n_last is None:
        fresh.rotate("from_matrix", Q)
        gn, fn = tuple(int(k) for k in g.mesh.n), tuple(int(k) for k in fresh.field.mesh.n)
        if gn != fn and max(abs(a - b) for a, b in zip(gn, fn)) <= 1:
            # default resolution rounded differently on the two routes: compare on the common explicit n
            ctx.note("default-n-rounding-differs")
            fresh = df.FieldRotator(f)
            ctx.step(1)
            fresh.rotate("from_matrix", Q, n=gn)
    else:
        fresh.rotate("from_matrix", Q, n=n_last)
    same_field(ctx, "FieldRotator.rotate/history-differs-from-single-composed-rotation", g, fresh.field, o, inst,
               "sequence vs one from_matrix of the product (later x earlier)")


# ---------------------------------------------------------------------------
# refusals

def _wrong_inputs():
    m3 = lambda: df.Mesh(p1=(0, 0, 0), p2=(4, 3, 2), n=(4, 3, 2))  # noqa: E731
    out = []
    out.append(("nvdim2-3d", lambda: df.Field(m3(), nvdim=2, value=(1.0, 2.0))))
    out.append(("nvdim4-3d", lambda: df.Field(m3(), nvdim=4, value=(1.0, 2.0, 3.0, 4.0))))
    out.append(("nvdim3-2d", lambda: df.Field(df.Mesh(p1=(0, 0), p2=(4, 3), n=(4, 3)), nvdim=3, value=(1.0, 2.0, 3.0))))
    out.append(("nvdim1-2d", lambda: df.Field(df.Mesh(p1=(0, 0), p2=(4, 3), n=(4, 3)), nvdim=1, value=1.0)))
    out.append(("nvdim3-1d", lambda: df.Field(df.Mesh(p1=(0,), p2=(4,), n=(4,)), nvdim=3, value=(1.0, 2.0, 3.0))))
    out.append(("nvdim1-4d", lambda: df.Field(df.Mesh(p1=(0, 0, 0, 0), p2=(2, 2, 2, 2), n=(2, 2, 2, 2)), nvdim=1, value=1.0)))
    out.append(("nvdim3-4d", lambda: df.Field(df.Mesh(p1=(0, 0, 0, 0), p2=(2, 2, 2, 2), n=(2, 2, 2, 2)), nvdim=3,
                                              value=(1.0, 2.0, 3.0))))
    out.append(("map-empty", lambda: df.Field(m3(), nvdim=3, value=(1.0, 2.0, 3.0), vdim_mapping={})))
    out.append(("map-custom-labels-none", lambda: df.Field(m3(), nvdim=3, value=(1.0, 2.0, 3.0), vdims=["a", "b", "c"])))
    out.append(("map-non-axis", lambda: df.Field(m3(), nvdim=3, value=(1.0, 2.0, 3.0),
                                                 vdim_mapping={"x": "x", "y": "y", "z": "w"})))
    out.append(("map-none-target", lambda: df.Field(m3(), nvdim=3, value=(1.0, 2.0, 3.0),
                                                    vdim_mapping={"x": "x", "y": "y", "z": None})))
    out.append(("map-two-components-one-axis", lambda: df.Field(m3(), nvdim=3, value=(1.0, 2.0, 3.0),
                                                                vdim_mapping={"x": "x", "y": "x", "z": "z"})))
    return out


def unit_refuse(ctx):
    cases = _wrong_inputs()
    name, mk = ctx.choose("case", cases)
    form = ctx.choose("then", ["euler", "matrix"])
    raised, f = C.raises(mk)
    if raised:
        ctx.note("field-constructor-refuses:" + name)
        raise engine.Skip()
    mapping_complete = True
    if f.nvdim == 3 and f.mesh.region.ndim == 3:
        vm = f.vdim_mapping or {}
        targets = [vm.get(v) for v in f.vdims]
        mapping_complete = sorted(str(t) for t in targets) == sorted(f.mesh.region.dims)
    if f.nvdim in (1, 3) and f.mesh.region.ndim == 3 and mapping_complete:
        ctx.note("not-a-wrong-input:" + name)  # e.g. custom labels get a default mapping
        raise engine.Skip()
    before = C.field_snap(f)
    ctx.step(1, f"FieldRotator({name})")
    ctx.check()
    raised, rot = C.raises(df.FieldRotator, f)
    if raised:
        ctx.note("refused-by-constructor")
        ctx.observe("ctor", type(rot).__name__)
    else:
        ctx.step(1)
        raised2, e = C.raises(do_rotate, rot, _quarter_args("z", 1, form))
        ctx.observe("rotate", raised2, type(e).__name__)
        if not raised2:
            ctx.fail("FieldRotator/wrong-field-accepted", f"{name}: constructor and rotate both accepted the field; result "
                     f"n={tuple(rot.field.mesh.n)} nvdim={rot.field.nvdim}", instance=f"case={name}")
        else:
            ctx.note("refused-by-rotate")
            ctx.check()
            if C.raises(lambda: C.field_snap(rot.field))[0] or C.field_snap(rot.field) != before:
                ctx.fail("FieldRotator.rotate/refusal-left-a-changed-field", f"{name}: rotate raised but .field is no longer "
                         "the original", instance=f"case={name}")
    ctx.check()
    if C.field_snap(f) != before:
        ctx.fail("FieldRotator/original-field-modified", f"{name}: the refused field was modified", instance=f"case={name}")


def unit_accept(ctx):
    """positive controls for the refusal unit: what must NOT be refused"""
    mname = ctx.choose("mesh", list(LATTICE_MESHES))
    kind = ctx.choose("field", ["s-tracer", "v-tracer"])
    perm = ctx.choose("mapping", PERMS) if kind.startswith("v-") else (0, 1, 2)
    mesh = make_mesh(LATTICE_MESHES[mname])
    f, comp_axis = make_field(mesh, kind, perm, ctx.seed, renamed=mname.endswith("abc"))
    o = Orig(f, comp_axis)
    ctx.step(1)
    rot = df.FieldRotator(f)
    ctx.check()
    if C.field_snap(rot.field) != o.snap:
        ctx.fail("FieldRotator/initial-field-not-original", "a new rotator does not show the original field")
    ctx.observe(tuple(int(k) for k in rot.field.mesh.n))


def unit_aborted(ctx):
    """a rotate() call that raises (bad target n, unknown method, malformed rotation) - the statement says nothing about
    such calls themselves, but the NEXT rotation must not depend on them (sequences compose from the original field)."""
    bad = ctx.choose("bad-call", ["n-zero", "n-negative", "unknown-method", "malformed-quat", "n-float", "n-wrong-length",
                                  "n-string", "n-none-entries"])
    kind = ctx.choose("field", ["s-tracer", "v-tracer"])
    prior = ctx.choose("accepted-before", [None, ("y", 1), ("z", -1)])
    mesh = make_mesh(LATTICE_MESHES["n432-c1"])
    f, comp_axis = make_field(mesh, kind, (0, 1, 2), ctx.seed)
    o = Orig(f, comp_axis)
    rot = df.FieldRotator(f)
    M0 = np.eye(3, dtype=int)
    if prior is not None:
        ctx.step(1)
        do_rotate(rot, _quarter_args(prior[0], prior[1], "matrix"))
        M0 = GENS[prior]
    zq = _quarter_args("z", 1, "euler")
    ctx.step(1)
    if bad == "n-zero":
        r, e = C.raises(do_rotate, rot, zq, (0, 3, 2))
    elif bad == "n-negative":
        r, e = C.raises(do_rotate, rot, zq, (4, -3, 2))
    elif bad == "n-float":
        r, e = C.raises(do_rotate, rot, zq, (3.0, 4.0, 2.0))
    elif bad == "n-wrong-length":
        r, e = C.raises(do_rotate, rot, zq, (3, 4))
    elif bad == "n-string":
        r, e = C.raises(do_rotate, rot, zq, "342")
    elif bad == "n-none-entries":
        r, e = C.raises(do_rotate, rot, zq, (None, 4, 2))
    elif bad == "unknown-method":
        r, e = C.raises(rot.rotate, "from_nothing", [0, 0, 1])
    else:
        r, e = C.raises(rot.rotate, "from_quat", [0.0, 0.0, 0.0, 0.0])
    ctx.observe(bad, r, type(e).__name__)
    if not r:
        ctx.note("bad-call-accepted:" + bad)
        return
    ctx.check()
    if prior is None and C.field_snap(rot.field) != o.snap:
        ctx.note("aborted-rotate-changed-field:" + bad)
    ctx.step(1)
    do_rotate(rot, _quarter_args("x", 1, "matrix"))
    p1, p2, n, arr = lattice_expect(o, GENS[("x", 1)] @ M0)
    ctx.check()
    same = tuple(int(k) for k in rot.field.mesh.n) == n and np.abs(np.asarray(rot.field.array, float) - arr).max() <= TOL * o.vmax
    ctx.note(("next-rotation-unaffected:" if same else "next-rotation-composed-with-the-aborted-one:") + bad)
    # "successive rotations compose, always starting from the original field": a call that was refused is not a
    # rotation, so the next one must give what a fresh rotator gives (history-dependence = violation)
    if not same:
        ctx.fail("FieldRotator.rotate/refused-call-takes-part-in-later-rotations",
                 f"after a refused rotate ({bad}) a quarter turn about x gives n={tuple(int(k) for k in rot.field.mesh.n)}, "
                 f"the accepted rotations alone give n={n}", instance=f"bad={bad};field={kind};before={prior}")
    if C.field_snap(rot.field) is None:
        pass


def units(tier):
    return [
        {"name": "group", "fn": unit_group, "bound": None},
        {"name": "edges", "fn": unit_edges, "bound": None},
        {"name": "quarter_default_n", "fn": unit_quarter_default_n, "bound": None},
        {"name": "interp", "fn": unit_interp, "bound": None},
        {"name": "seq", "fn": unit_seq, "bound": None},
        {"name": "refuse", "fn": unit_refuse, "bound": None},
        {"name": "accept", "fn": unit_accept, "bound": None},
        {"name": "aborted", "fn": unit_aborted, "bound": None},
    ]
