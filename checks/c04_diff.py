"""C04 - derivatives: exact on low-degree polynomials, linear, blind across gaps.

Stateless exploration: ALL 2^L validity patterns for every line length L up to
the bound, x order x periodic/open x restrict2valid x cell size, on the real
``Field.diff``; plus an n-D embedding unit (every axis of 2-4-D meshes, a
different pattern on every parallel line and component) that is compared with
the 1-D result line by line.
"""
import numpy as np

import discretisedfield as df
from mc import common as C

PROPERTY = "C04"
RULE = ("unit line: full product L x all 2^L patterns x order x periodic x restrict2valid x cell; "
        "unit embed: full product ndim x axis x L x all 2^L base patterns x order x periodic; unit reuse: L x order x periodic x "
        "restrict2valid x route by which validity / values are changed between two diff calls on the same object x ndim. "
        "An execution is non-trivial when at least one oracle comparison ran.")
ASSUMPTIONS = [
    "scope: line length <= 8 (quick) / 13 (thorough); n-D embedding L <= 4 / 6 with 2 cells on the other axes",
    "all real field values are covered by linearity: the operator has no value-dependent branch, it is evaluated on the "
    "complete impulse basis and additivity is re-checked on monomials and a tracer combination",
    "polynomial exactness is compared with relative tolerance 1e-9 (scaled by max|f|/cell^order)",
    "result validity must equal the operand's validity; dtype of validity is C08's business",
    "value types: float64 everywhere; in unit line additionally one complex128 and one int64 field per configuration, "
    "judged through linearity against the measured impulse responses (the result's storage type is not constrained)",
]

CELLS = [1.0, 0.25, 3e-9]
OFF = 0.25  # off-lattice origin in cell units


def _runs(valid, periodic):
    """list of runs; each run is the list of cell indices in unwrapped order.
    For a periodic all-valid line returns None (ring without ends)."""
    L = len(valid)
    if periodic:
        if all(valid):
            return None
        # start right after an invalid cell
        start = next(i for i in range(L) if not valid[i])
        order = [(start + 1 + j) % L for j in range(L)]
    else:
        order = list(range(L))
    runs, cur = [], []
    for i in order:
        if valid[i]:
            cur.append(i)
        else:
            if cur:
                runs.append(cur)
            cur = []
    if cur:
        runs.append(cur)
    return runs


def _build(L, valid, cellsize, periodic, probes, dims=("x",), bc=None, dtype=None):
    mesh = df.Mesh(region=df.Region(p1=(0.5 * cellsize,), p2=((0.5 + L) * cellsize,), dims=dims), n=(L,),
                   bc=bc if bc is not None else (dims[0] if periodic else ""))
    nv = probes.shape[1]
    return df.Field(mesh, nvdim=nv, value=probes, valid=np.array(valid, dtype=bool),
                    vdims=[f"c{i}" for i in range(nv)], unit="A/m", **({} if dtype is None else {"dtype": dtype}))


def unit_line(ctx):
    Lmax = 8 if ctx.tier == "quick" else 13
    L = ctx.choose("L", list(range(1, Lmax + 1)))
    pat = ctx.choose("pattern", list(range(2 ** L - 1, -1, -1)))  # all-valid first
    order = ctx.choose("order", [1, 2])
    periodic = ctx.choose("periodic", [False, True])
    restrict = ctx.choose("restrict2valid", [True, False])
    cs = ctx.choose("cell", CELLS)
    valid = [bool((pat >> i) & 1) for i in range(L)]
    # probes: monomials d=0..3 in the plain index coordinate, L impulses, one combination
    idx = np.arange(L, dtype=float)
    x = (idx + 0.5 + OFF) * cs  # cell centres (mesh starts at 0.5*cs) ... any affine coordinate works
    mono = [x ** d for d in range(4)]
    imp = [np.eye(L)[j] for j in range(L)]
    coef = C.tracer((L,), 1, ctx.seed)[:, 0]
    comb = coef.copy()
    probes = np.stack(mono + imp + [comb], axis=1)
    f = _build(L, valid, cs, periodic, probes)
    before = C.field_snap(f)
    ctx.step(1, f"diff(x, order={order}, restrict2valid={restrict})")
    d = f.diff("x", order=order, restrict2valid=restrict)
    out = d.array
    ctx.observe(np.round(out / (np.abs(out).max() or 1.0), 9))
    inst = ctx.key(drop=("cell",))
    # (v) metadata and operand untouched
    ctx.check()
    if C.field_snap(f) != before:
        ctx.fail("diff/operand-modified", "operand changed by diff", instance=inst)
    if not (d.mesh == f.mesh and d.mesh.bc == f.mesh.bc and d.vdims == f.vdims and d.unit == f.unit
            and d.nvdim == f.nvdim and np.array_equal(d.valid, f.valid)):
        ctx.fail("diff/metadata", f"mesh/labels/unit/validity not kept: vdims={d.vdims} unit={d.unit} "
                 f"valid={d.valid.tolist()}", instance=inst)
    eff = valid if restrict else [True] * L
    runs = _runs(eff, periodic)
    scale_all = 1.0 / cs ** order
    M = out[:, 4:4 + L]  # impulse response: M[i, j] = D(e_j)[i]
    rel = 1e-9

    def bad(a, b, s):
        return abs(a - b) > rel * (s + abs(b))

    if runs is None:
        # all-valid ring: centred difference with wrap-around, every L >= 1
        for c in range(probes.shape[1]):
            v = probes[:, c]
            if order == 1:
                exp = (np.roll(v, -1) - np.roll(v, 1)) / (2 * cs)
            else:
                exp = (np.roll(v, -1) - 2 * v + np.roll(v, 1)) / cs ** 2
            ctx.check()
            s = np.abs(v).max() * scale_all
            if C.gt(np.abs(out[:, c] - exp), rel * (s + np.abs(exp))):
                ctx.fail("diff/periodic-allvalid/not-centred-difference",
                         f"ring of {L} cells, probe {c}: got {out[:, c].tolist()} expected {exp.tolist()}",
                         instance=inst)
                break
    else:
        in_run = {}
        for r in runs:
            for i in r:
                in_run[i] = r
        # (ii) zeros
        for i in range(L):
            r = in_run.get(i)
            if r is None or len(r) <= order:
                ctx.check()
                if np.any(out[i, :] != 0):
                    ctx.fail("diff/nonzero-on-invalid-or-short-run",
                             f"cell {i} ({'invalid' if r is None else 'run of %d' % len(r)}) has {out[i, :].tolist()}",
                             instance=inst)
                    break
        # (iii) no leakage across gaps
        for i in range(L):
            for j in range(L):
                if M[i, j] != 0 and (in_run.get(i) is None or in_run.get(i) is not in_run.get(j)):
                    ctx.check()
                    ctx.fail("diff/leak-across-gap", f"D(e_{j})[{i}] = {M[i, j]} but cells are in different runs",
                             instance=inst)
                    break
            else:
                continue
            break
        ctx.check(L)
        # (i) polynomial exactness on each run, polynomial in the UNWRAPPED coordinate of the run
        for r in runs:
            n = len(r)
            if n <= order:
                continue
            if order == 1:
                dmax = 2 if n >= 3 else 1
            else:
                dmax = 3 if n >= 4 else 2
            # unwrapped coordinate: continue counting after the seam
            u = []
            prev = None
            for t, i in enumerate(r):
                u.append(r[0] + t)
            u = (np.array(u, dtype=float) + 0.5 + OFF) * cs
            for dg in range(dmax + 1):
                vals = u ** dg
                # D acting on this run only (locality was checked) -> sum_j M[i,j] vals_j
                got = M[np.ix_(r, r)] @ vals
                if order == 1:
                    exp = dg * u ** (dg - 1) if dg >= 1 else np.zeros(n)
                else:
                    exp = dg * (dg - 1) * u ** (dg - 2) if dg >= 2 else np.zeros(n)
                s = np.abs(vals).max() * scale_all
                ctx.check()
                if C.gt(np.abs(got - exp), rel * (s + np.abs(exp))):
                    ctx.fail(f"diff/polynomial-inexact/order{order}",
                             f"run {r} degree {dg}: got {got.tolist()} expected {exp.tolist()}", instance=inst)
                    break
            # the monomial components themselves, when the run does not wrap (same coordinate)
            if r == list(range(r[0], r[0] + n)):
                for dg in range(dmax + 1):
                    got = out[r, dg]
                    xx = x[r]
                    if order == 1:
                        exp = dg * xx ** (dg - 1) if dg >= 1 else np.zeros(n)
                    else:
                        exp = dg * (dg - 1) * xx ** (dg - 2) if dg >= 2 else np.zeros(n)
                    s = np.abs(xx ** dg).max() * scale_all
                    ctx.check()
                    if C.gt(np.abs(got - exp), rel * (s + np.abs(exp))):
                        ctx.fail(f"diff/polynomial-inexact/order{order}",
                                 f"run {r} monomial x^{dg}: got {got.tolist()} expected {exp.tolist()}",
                                 instance=inst)
                        break
    # (iv) linearity: D(sum c_j e_j) = sum c_j M[:, j]; monomials likewise
    for c, v in [(4 + L, comb)] + [(dg, mono[dg]) for dg in range(4)]:
        exp = M @ v
        s = (np.abs(M) @ np.abs(v)).max() + 1e-300
        ctx.check()
        if C.gt(np.abs(out[:, c] - exp), rel * s):
            ctx.fail("diff/not-linear", f"probe {c}: D(f)={out[:, c].tolist()} but sum of impulse responses {exp.tolist()}",
                     instance=inst)
            break
    # (viii) storage type of the values: a complex field a + ib must give D(a) + i D(b), an integer-typed field the
    # same derivative as the float field with the same (integer) values - "linear in the field values", no truncation
    comb2 = C.tracer((L,), 2, ctx.seed + 1)[:, 1]
    for kind, vals, dt, exp in (("complex", (comb + 1j * comb2)[:, None], complex, M @ comb + 1j * (M @ comb2)),
                                ("int", comb[:, None].astype(int), int, M @ comb)):
        fk = _build(L, valid, cs, periodic, vals, dtype=dt)
        ctx.step(1, f"diff of a {kind}-typed field")
        got = fk.diff("x", order=order, restrict2valid=restrict).array[:, 0]
        s = (np.abs(M) @ (np.abs(comb) + np.abs(comb2))).max() + 1e-300
        ctx.check()
        if C.gt(np.abs(got - exp), rel * s):
            ctx.fail(f"diff/value-type/{kind}", f"{kind}-typed values {vals[:, 0].tolist()}: D(f)={got.tolist()} expected "
                     f"{exp.tolist()} (from the impulse responses)", instance=inst)
    # (ix) a large constant added to the data does not change the derivative (linearity + D(const) = 0 on every run /
    # ring): the variation may be tiny RELATIVE to the values (1e6 + x, 1e7 + x^2)
    big = np.stack([1e6 + mono[1], 1e7 + mono[2], -3e5 + comb], axis=1)
    fb = _build(L, valid, cs, periodic, big)
    ctx.step(1, "diff of data with a large constant offset")
    gb = fb.diff("x", order=order, restrict2valid=restrict).array
    for c, v in enumerate((mono[1], mono[2], comb)):
        exp = M @ v
        s = (np.abs(M) @ np.abs(big[:, c])).max() + 1e-300   # rounding of the large values enters with |M|
        ctx.check()
        if C.gt(np.abs(gb[:, c] - exp), 1e-12 * s + rel * (np.abs(M) @ np.abs(v)).max()):
            ctx.fail("diff/not-linear/large-constant-offset",
                     f"D(c + g) differs from D(g) for c={big[0, c] - v[0]:g}: {gb[:, c].tolist()} vs {exp.tolist()}", instance=inst)
            break
    # (vi) restrict2valid=False == all-valid pattern (bit for bit), validity kept
    if not restrict and not all(valid):
        g = _build(L, [True] * L, cs, periodic, probes)
        ctx.step(1)
        d2 = g.diff("x", order=order)
        ctx.check()
        if not C.same_bytes(d2.array, out):
            ctx.fail("diff/restrict2valid-off-differs-from-allvalid", "restrict2valid=False does not treat the line as one run",
                     instance=inst)
    # (vii) periodic: D o shift = shift o D (data and validity shifted together)
    if periodic and L > 1:
        fs = _build(L, list(np.roll(valid, 1)), cs, True, np.roll(probes, 1, axis=0))
        ctx.step(1, "diff of cyclically shifted field")
        ds = fs.diff("x", order=order, restrict2valid=restrict)
        exp = np.roll(out, 1, axis=0)
        s = np.abs(probes).max(axis=0) * scale_all
        ctx.check()
        if C.gt(np.abs(ds.array - exp), rel * (s[None, :] + np.abs(exp))):
            w = np.argwhere(~(np.abs(ds.array - exp) <= rel * (s[None, :] + np.abs(exp))))[0]
            ctx.fail("diff/periodic/not-shift-invariant",
                     f"shift by one cell: cell {int(w[0])} probe {int(w[1])}: D(shift f)={ds.array[tuple(w)]} "
                     f"shift(D f)={exp[tuple(w)]}", instance=inst)


def unit_keyword_bc(ctx):
    """bc = 'neumann' / 'dirichlet' are keywords, not lists of periodic axes: a dimension whose name is a letter of the
    keyword ('e' occurs in both) is still an OPEN direction.  Differential oracle: same result as bc=''."""
    Lmax = 6 if ctx.tier == "quick" else 9
    L = ctx.choose("L", list(range(1, Lmax + 1)))
    pat = ctx.choose("pattern", list(range(2 ** L - 1, -1, -1)))
    order = ctx.choose("order", [1, 2])
    bc = ctx.choose("bc", ["neumann", "dirichlet"])
    dim = ctx.choose("dim", ["e", "x"])
    valid = [bool((pat >> i) & 1) for i in range(L)]
    probes = C.tracer((L,), 2, ctx.seed)
    f = _build(L, valid, 0.5, False, probes, dims=(dim,), bc=bc)
    g = _build(L, valid, 0.5, False, probes, dims=(dim,), bc="")
    ctx.step(2, f"diff on bc={bc} dims=({dim},)")
    a = f.diff(dim, order=order)
    b = g.diff(dim, order=order)
    ctx.observe(a.array)
    ctx.check()
    if not C.same_bytes(a.array, b.array):
        ctx.fail("diff/keyword-bc-treated-as-periodic-axis", f"bc={bc!r}, dimension {dim!r}: {a.array[:, 0].tolist()} but open "
                 f"direction gives {b.array[:, 0].tolist()}", instance=ctx.key())
    if a.mesh.bc != bc:
        ctx.fail("diff/metadata", f"bc {bc!r} became {a.mesh.bc!r}", instance=ctx.key())


def unit_embed(ctx):
    """every axis of 2-4-D meshes; different pattern per parallel line; nvdim=2;
    compared line by line with the 1-D operator (which unit 'line' decides)."""
    Lmax = 4 if ctx.tier == "quick" else 6
    ndim = ctx.choose("ndim", [2, 3, 4])
    axis = ctx.choose("axis", list(range(ndim)))
    L = ctx.choose("L", list(range(1, Lmax + 1)))
    pat = ctx.choose("pattern", list(range(2 ** L - 1, -1, -1)))
    order = ctx.choose("order", [1, 2])
    periodic = ctx.choose("periodic", [False, True])
    dims = ctx.choose("dims", [C.DIMSETS[ndim][1 if ndim == 4 else 0], C.DIMSETS[ndim][2]])  # bc wants one-letter names
    n = [2] * ndim
    n[axis] = L
    cell = [1.0, 0.5, 2.0, 0.25][:ndim]
    pmin = [0.3, -1.0, 5.0, 0.0][:ndim]
    pmax = [p + c * k for p, c, k in zip(pmin, cell, n)]
    d = dims[axis]
    mesh = df.Mesh(region=df.Region(p1=pmin, p2=pmax, dims=dims), n=n, bc=d if periodic else "")
    arr = C.tracer(n, 2, ctx.seed)
    valid = np.zeros(n, dtype=bool)
    others = [k for k in range(ndim) if k != axis]
    lines = list(np.ndindex(*[n[k] for k in others]))
    linepat = {}
    for li, lidx in enumerate(lines):
        p = pat ^ ((li * 5) % (2 ** L)) if li else pat
        linepat[lidx] = p
        for i in range(L):
            full = [0] * ndim
            for k, v in zip(others, lidx):
                full[k] = v
            full[axis] = i
            valid[tuple(full)] = bool((p >> i) & 1)
    f = df.Field(mesh, nvdim=2, value=arr, valid=valid, vdims=["p", "q"], unit="T")
    before = C.field_snap(f)
    ctx.step(1, f"diff({d}, order={order}) on {n}")
    out = f.diff(d, order=order)
    ctx.observe(out.array)
    ctx.check()
    if C.field_snap(f) != before:
        ctx.fail("diff/operand-modified", "operand changed by diff")
    if not (out.mesh == f.mesh and out.vdims == f.vdims and out.unit == f.unit and np.array_equal(out.valid, f.valid)
            and out.mesh.region.dims == f.mesh.region.dims):
        ctx.fail("diff/metadata", "mesh/labels/unit/validity not kept")
    for lidx in lines:
        sl = [0] * ndim
        for k, v in zip(others, lidx):
            sl[k] = v
        sl[axis] = slice(None)
        sl = tuple(sl)
        for comp in range(2):
            line = arr[sl + (comp,)]
            v1 = valid[sl]
            m1 = df.Mesh(region=df.Region(p1=(pmin[axis],), p2=(pmax[axis],)), n=(L,), bc="x" if periodic else "")
            f1 = df.Field(m1, nvdim=1, value=line.reshape(L, 1), valid=v1)
            ctx.step(1)
            exp = f1.diff("x", order=order).array[:, 0]
            got = out.array[sl + (comp,)]
            ctx.check()
            s = np.abs(line).max() / cell[axis] ** order
            if C.gt(np.abs(got - exp), 1e-9 * (s + np.abs(exp))):
                ctx.fail("diff/nd-line-differs-from-1d",
                         f"line {lidx} comp {comp} pattern {linepat[lidx]:b}: got {got.tolist()} 1-D gives {exp.tolist()}")
                return

def unit_reuse(ctx):
    """Non-initial states: the SAME field object is differentiated, then its validity or its values are changed through
    every public route (valid setter, in-place writes into field.valid / field.array, array setter), then it is
    differentiated again with the same arguments.  The second result must be the derivative of the field as it is now:
    equal to what a fresh field with the current values and validity gives."""
    L = ctx.choose("L", [4, 6, 7] if ctx.tier == "quick" else [3, 4, 5, 6, 7, 9, 12])
    order = ctx.choose("order", [1, 2])
    periodic = ctx.choose("periodic", [False, True])
    restrict = ctx.choose("restrict2valid", [True, False])
    change = ctx.choose("change", ["valid = new mask", "valid[...] in place", "array[...] in place", "array = new", "nothing"])
    nd = ctx.choose("ndim", [1, 2])
    pat0 = (1 << L) - 1
    valid0 = [True] * L
    valid1 = [bool((0b110111011011 >> i) & 1) for i in range(L)]   # runs of length 2, 2, 3 ...
    probes = np.stack([C.tracer((L,), 1, ctx.seed)[:, 0], (np.arange(L) + 0.25) ** 2], axis=1)
    if nd == 1:
        f = _build(L, valid0, 0.5, periodic, probes)
        mk = lambda v, a: _build(L, v, 0.5, periodic, a)  # noqa: E731
    else:
        mesh = df.Mesh(p1=(0.0, -1.0), p2=(0.5 * L, 1.0), n=(L, 2), bc="x" if periodic else "")
        arr2 = np.stack([probes, probes[::-1] * 2.0], axis=1)
        f = df.Field(mesh, nvdim=2, value=arr2, valid=np.stack([valid0, valid0], axis=1))
        mk = lambda v, a: df.Field(mesh, nvdim=2, value=a, valid=v)  # noqa: E731
    inst = ctx.key()
    ctx.step(1, "first diff")
    f.diff("x", order=order, restrict2valid=restrict)
    newv = np.array(valid1) if nd == 1 else np.stack([valid1, valid1[::-1]], axis=1)
    if change == "valid = new mask":
        f.valid = newv.copy()
    elif change == "valid[...] in place":
        f.valid[...] = newv
    elif change == "array[...] in place":
        f.array[...] = f.array[::-1] * 3.0 + 1.0
    elif change == "array = new":
        f.array = (f.array[::-1] * 3.0 + 1.0).copy()
    ctx.step(2, f"{change}; second diff; diff of a fresh field with the current state")
    again = f.diff("x", order=order, restrict2valid=restrict)
    fresh = mk(np.array(f.valid), np.array(f.array)).diff("x", order=order, restrict2valid=restrict)
    ctx.observe(np.round(again.array, 9))
    ctx.check(2)
    if not C.same_bytes(again.array, fresh.array):
        ctx.fail("diff/reuse/second-call-differs-from-fresh-field", f"after '{change}': {again.array.ravel().tolist()[:10]} "
                 f"but a fresh field with the same values and validity gives {fresh.array.ravel().tolist()[:10]}", instance=inst)
    if not np.array_equal(again.valid, f.valid):
        ctx.fail("diff/reuse/validity-of-result-is-not-the-current-validity", f"after '{change}'", instance=inst)

def unit_periodic_geometry(ctx):
    """The derivative in a periodic direction on lattices whose faces are not representable (cell 0.1, 0.3, 0.7, 1/3,
    3e-9 ...) and that start at the origin or far from it.  Differential oracle: the same values on a reference ring
    with unit cells starting at 0.5 give D_ref; on the lattice under test the result must be D_ref / cell^order (the
    stencils are translation invariant and homogeneous in the cell size) - in particular not shifted by a cell."""
    L = ctx.choose("L", [5, 8, 10, 3])
    cs = ctx.choose("cell", [0.3, 0.7, 0.1, 1.0 / 3.0, 3e-9, 2.5])
    org = ctx.choose("origin-in-cells", [0.0, 1.0, -3.0, 77.0, 1e4 + 1])
    order = ctx.choose("order", [1, 2])
    pat = ctx.choose("validity", ["all", "one-hole", "two-runs"])
    nd = ctx.choose("ndim", [1, 3])
    valid = [True] * L
    if pat == "one-hole":
        valid[1] = False
    elif pat == "two-runs":
        valid[0] = False
        valid[L // 2] = False
    vals = C.tracer((L,), 2, ctx.seed)
    vals[:, 1] = (np.arange(L) + 0.25) ** 2

    def mk(cell, start):
        if nd == 1:
            mesh = df.Mesh(region=df.Region(p1=(start,), p2=(start + L * cell,)), n=(L,), bc="x")
            return df.Field(mesh, nvdim=2, value=vals, valid=np.array(valid))
        mesh = df.Mesh(region=df.Region(p1=(0.0, start, -1.0), p2=(2.0, start + L * cell, 1.0)), n=(2, L, 1), bc="y")
        a = np.broadcast_to(vals[None, :, None, :], (2, L, 1, 2)).copy()
        a[1] *= -2.0
        return df.Field(mesh, nvdim=2, value=a, valid=np.broadcast_to(np.array(valid)[None, :, None], (2, L, 1)).copy())

    d = "x" if nd == 1 else "y"
    ctx.step(2, f"diff({d}, order={order}) on the lattice and on the unit reference ring")
    got = mk(cs, org * cs).diff(d, order=order).array
    ref = mk(1.0, 0.5).diff(d, order=order).array / cs ** order
    ctx.observe(np.round(got * cs ** order, 9))
    ctx.check()
    scale = np.abs(vals).max() / cs ** order
    if got.shape != ref.shape or C.gt(np.abs(got - ref), 1e-9 * (scale + np.abs(ref))):
        w = tuple(int(i) for i in np.argwhere(~(np.abs(got - ref) <= 1e-9 * (scale + np.abs(ref))))[0]) if got.shape == ref.shape else ()
        ctx.fail("diff/periodic/depends-on-where-the-lattice-sits", f"cell {cs!r}, lattice starting at {org} cells: at {w} got "
                 f"{got[w] if w else got.shape!r}, the unit reference ring gives {ref[w] if w else ref.shape!r} (scaled)", instance=ctx.key())


FLAG_FORMS = {"False": False, "numpy.False_": np.bool_(False), "0": 0, "numpy.int64(0)": np.int64(0),
              "True": True, "numpy.True_": np.bool_(True), "1": 1}


def unit_flags(ctx):
    """argument representations: ``restrict2valid`` as a Python bool, a numpy bool (what ``mask.all()`` returns), an
    integer; ``order`` as a numpy integer.  The derivative must be, bit for bit, what the plain Python values give
    ("with the validity restriction switched off treats the whole line as one run" does not depend on how off is
    spelled)."""
    L = ctx.choose("L", [3, 4, 6])
    pat = ctx.choose("pattern", sorted({(1 << L) - 1, 0b101101 & ((1 << L) - 1), 0b011011 & ((1 << L) - 1), 1}))
    order = ctx.choose("order", [1, 2])
    periodic = ctx.choose("periodic", [False, True])
    flag = ctx.choose("restrict2valid", list(FLAG_FORMS))
    oform = ctx.choose("order-form", ["int", "numpy.int64", "numpy.int8"])
    valid = [bool((pat >> i) & 1) for i in range(L)]
    probes = np.stack([C.tracer((L,), 1, ctx.seed)[:, 0], (np.arange(L) + 0.5) ** 2], axis=1)
    f = _build(L, valid, 0.5, periodic, probes)
    g = _build(L, valid, 0.5, periodic, probes)
    ref = g.diff("x", order=order, restrict2valid=bool(FLAG_FORMS[flag]))
    o = {"int": order, "numpy.int64": np.int64(order), "numpy.int8": np.int8(order)}[oform]
    ctx.step(1, f"diff(x, order={o!r}, restrict2valid={FLAG_FORMS[flag]!r})")
    raised, d = C.raises(f.diff, "x", order=o, restrict2valid=FLAG_FORMS[flag])
    ctx.check()
    inst = ctx.key()
    if raised:
        if oform != "int" and isinstance(d, TypeError):
            ctx.note("numpy-integer-order-refused")  # refusing a representation loses nothing
            return
        ctx.fail("diff/flags/raises", f"{type(d).__name__}: {str(d)[:140]}", instance=inst)
        return
    ctx.observe(flag, np.round(d.array, 9))
    if not C.same_bytes(np.asarray(d.array), np.asarray(ref.array)) or not np.array_equal(d.valid, ref.valid):
        ctx.fail("diff/flags/result-depends-on-the-representation-of-an-argument",
                 f"restrict2valid={FLAG_FORMS[flag]!r} ({type(FLAG_FORMS[flag]).__name__}), order={o!r}: "
                 f"{np.asarray(d.array)[:, 0].tolist()} but with Python values {np.asarray(ref.array)[:, 0].tolist()}", instance=inst)


def units(tier):
    return [
        {"name": "line", "fn": unit_line, "bound": None},
        {"name": "embed", "fn": unit_embed, "bound": None},
        {"name": "keyword_bc", "fn": unit_keyword_bc, "bound": None},
        {"name": "reuse", "fn": unit_reuse, "bound": None},
        {"name": "flags", "fn": unit_flags, "bound": None},
        {"name": "periodic_geometry", "fn": unit_periodic_geometry, "bound": None},
    ]
