"""C07 - sub-selection, extraction by name/region, region2slices, padding and
resampling keep every value at its physical position.

Stateless exploration.  The deciding oracle is *position agreement*: the
result's cell centres are computed exactly (fractions.Fraction) from the float
corners of the RESULT mesh, located on the exact lattice of the SOURCE mesh and
the tracer values / validity bits found there must be the ones the result
carries.  The extents (which cells were kept) are compared with the cells that
the exact lattice assigns to the request; a request coordinate inside the
ambiguity band of a cell face may resolve to either neighbour (R2) - except for
extraction by an *aligned* box, whose faces are lattice faces by construction
and which must give exactly the j-i cells between them.

Units
  box1      1-D axis alphabet x ALL aligned boxes [i,j) x face formula, all
            quarter-point boxes, boxes reaching outside: mesh[R], field[R],
            region2slices
  boxnd     2-4-D meshes: all boxes on one axis x box selector on the others
  range1    1-D axis alphabet x ALL pairs of probes (faces, centres, quarter
            points), reversed pairs, pairs with a bound outside: Field.sel
  rangesub  1-3-D meshes x subregion layout x axis x ALL pairs of centres and
            faces: Field.sel and Mesh.sel (ranges that end on subregion faces)
  plane     2-4-D meshes x axis x every probe coordinate / no coordinate
  plane1d   the only axis of a 1-D mesh
  int_region  integer-typed region corners (negative corners, fractional cells): planes and ranges on every axis
  name      field[name] / mesh[name] for every subregion of every layout
  pad       all width combinations 0..2 per side and axis x 5 modes
  resample  all target resolutions from {1,2,3,5,n,2n} per axis
"""
import itertools
import math
from fractions import Fraction as Fr

import numpy as np

import discretisedfield as df
from mc import common as C
from mc.engine import Skip

PROPERTY = "C07"
RULE = ("every unit is the full product of its choice points (mesh/lattice parameters x axis x request x variant); "
        "requests are ALL aligned boxes / ALL probe pairs / ALL width combinations / ALL target resolutions of the "
        "stated alphabets. An execution is non-trivial when at least one library call was made and one oracle "
        "comparison ran; executions that repeat an identical request (same float corners as an earlier face formula) "
        "or ask for a layout that the mesh cannot hold are skipped and counted under notes.")
ASSUMPTIONS = [
    "scope: 1-D axis alphabet offsets x cell widths x counts<=10 (quick) / <=13 (thorough) x scales; 2-4-D meshes are "
    "products of 9 reference axes (incl. a single-cell axis, a thin axis, integer corners, non-representable faces); "
    "tolerance_factor is the default 1e-12",
    "all real field values are covered because selection/padding/resampling only move cells: tracer values are "
    "pairwise distinct exact integers, so any moved, duplicated or dropped cell/component is visible (bit equality)",
    "a request coordinate closer to a cell face than tau = tolerance_factor*(min(edges)+|x|) + 16 ulp may resolve to "
    "either adjacent cell; coordinates outside the region by less than max(1e-6 cell, 100 tau) may be accepted or "
    "rejected; only coordinates further out must be rejected",
    "extraction by an ALIGNED box (both faces of every axis within tau of lattice faces i<j) must return exactly the "
    "cells i..j-1 (statement: smallest block of whole cells containing the region; the box IS a block of whole cells)",
    "result lattice alignment: every result cell centre within 64 ulp(M) + 1e-9 cell of a source cell centre",
    "region2slices must return exactly the cells i..j-1 for aligned boxes; for boxes that are not whole cells it is "
    "only required to lie between the cells wholly inside the box and the cells intersecting it (its documentation "
    "speaks of cells contained in the region) and may refuse; slices returned for a box that reaches outside the "
    "mesh region are recorded (notes) but not flagged - the statement's refusal clause is applied to the extraction "
    "and selection operations only",
    "reversed range pairs may be refused or must equal the ordered pair; result labels/units of the value dimension "
    "are not part of this property; content of clipped subregions after sel is C14's business (here: no refusal)",
    "padding reference = numpy.pad with the same mode on data and on the mask (statement: padding cells follow the "
    "padding mode); the statistic modes are used with the numpy.pad option stat_length (1 or 2 cells next to the face), which must reach values and validity alike; for mode 'constant' the validity of the "
    "filled cells is not prescribed (a constant fill copies no source cell), only their value 0",
    "plane selection along the only axis of a 1-D mesh cannot return a field on a 0-D mesh: the returned value must "
    "be the one of the selected cell; the missing field/validity is reported under its own signatures",
]

# --------------------------------------------------------------------------
# alphabets (quick lists are prefixes / value-subsets of the thorough lists)

OFFS_Q = [0.0, 0.1, -0.3, 7.7]
OFFS_T = OFFS_Q + [1.0 / 3.0, -123.456, 1e4 + 0.1]
WID_Q = [1.0, 0.1, 0.3]
WID_T = WID_Q + [1.0 / 3.0, 0.7, 2.5]
CNT_Q = [1, 2, 3, 5, 10]
CNT_T = [1, 2, 3, 5, 10, 7, 13]
SCL_Q = [1.0, 1e-9, 1e3]
SCL_T = SCL_Q + [1e-12, 1e-6, 1e-3, 1e6]

# reference axes for n-D meshes: (lower corner, cell width, count)
AXR = [
    (0.0, 1.0, 3),  # 0 plain
    (0.0, 0.1, 5),  # 1 non-representable faces
    (-0.3, 0.3, 2),  # 2 straddles zero
    (1.0 / 3.0, 1.0 / 3.0, 3),  # 3
    (7.7, 0.7, 1),  # 4 single cell
    (0.1, 1e-3, 4),  # 5 thin
    (-123.456, 2.5, 2),  # 6 offset >> cell
    (0.0, 0.1, 10),  # 7 ten cells on [0, 1]
    (0, 1, 4),  # 8 integer corners (int64 region)
]
M1_Q = [(0,), (1,), (7,), (4,)]
M1_T = M1_Q + [(2,), (3,), (5,), (6,), (8,)]
M2_Q = [(0, 1), (1, 2), (7, 4), (5, 6), (3, 8)]
M2_T = M2_Q + [p for p in itertools.product(range(9), repeat=2) if p not in M2_Q]
M2_M = M2_Q + [p for p in [(i, (i + k) % 9) for k in (1, 2, 4) for i in range(9)] if p not in M2_Q]
M3_Q = [(0, 1, 2), (1, 4, 5), (6, 3, 8)]
M3_S = M3_Q + [(2, 1, 0), (4, 4, 1), (8, 5, 2), (3, 6, 4), (1, 1, 1)]  # small 3-D family
M3_T = M3_S + [p for p in itertools.product([0, 1, 2, 4, 5, 8], repeat=3) if p not in M3_S]
M4_Q = [(0, 1, 2, 4)]
M4_T = M4_Q + [(1, 5, 4, 6), (8, 2, 1, 0), (3, 4, 4, 2), (2, 1, 0, 3), (4, 4, 4, 1), (1, 2, 8, 5)]

MODES = ["constant", "edge", "wrap", "symmetric", "reflect", "maximum+stat_length=1", "minimum+stat_length=2"]
LAYOUTS = ["none", "one", "touching", "disjoint", "overlap", "cover"]


def _tier(ctx, q, t):
    return q if ctx.tier == "quick" else t


# --------------------------------------------------------------------------
# construction


def _axis1(ctx, counts, scales):
    off = ctx.choose("off", _tier(ctx, OFFS_Q, OFFS_T))
    w = ctx.choose("width", _tier(ctx, WID_Q, WID_T))
    cnt = ctx.choose("count", counts)
    scl = ctx.choose("scale", scales)
    return [(off * scl, (off + w * cnt) * scl, cnt)]


def _axes_nd(idx, scale=1.0, swap=False):
    out = []
    for k in idx:
        lo, w, cnt = AXR[k]
        if isinstance(lo, int) and scale == 1.0:
            out.append((lo, lo + w * cnt, cnt))
        else:
            out.append((float(lo) * scale, (float(lo) + float(w) * cnt) * scale, cnt))
    return out


def _mesh(axes, dims=None, subregions=None, swap=False, units=None):
    p1 = tuple(a[0] for a in axes)
    p2 = tuple(a[1] for a in axes)
    if swap:
        p1, p2 = tuple(p2[:1] + p1[1:]), tuple(p1[:1] + p2[1:])
    n = tuple(a[2] for a in axes)
    return df.Mesh(region=df.Region(p1=p1, p2=p2, dims=dims, units=units), n=n, subregions=subregions)


_CACHE = {}


def _cached(fn, *key):
    k = (fn.__name__,) + key
    if k not in _CACHE:
        if len(_CACHE) > 4000:
            _CACHE.clear()
        _CACHE[k] = fn(*key)
    return _CACHE[k].copy()


def _field(ctx, mesh, nvdim=2, mask_k=0):
    n = tuple(int(i) for i in mesh.n)
    arr = _cached(C.tracer, n, nvdim, ctx.seed)
    valid = _cached(C.coded_mask, n, mask_k)
    vd = None if nvdim == 1 else [f"c{i}" for i in range(nvdim)]
    return df.Field(mesh, nvdim=nvdim, value=arr, valid=valid.copy(), vdims=vd, unit="A/m")


# --------------------------------------------------------------------------
# exact geometry


class Geo:
    """exact lattice of the source mesh + tolerance bands"""

    def __init__(self, mesh):
        self.L = C.Lattice.of(mesh)
        self.n = self.L.n
        self.ndim = self.L.ndim
        self.tf = Fr(float(mesh.region.tolerance_factor))
        self.minedge = min(b - a for a, b in zip(self.L.pmin, self.L.pmax))
        self.fcell = [float(c) for c in np.asarray(mesh.cell, dtype=float)]
        self.fpmin = [float(x) for x in mesh.region.pmin]
        self.fpmax = [float(x) for x in mesh.region.pmax]
        self.M = [max(abs(a), abs(b)) for a, b in zip(self.fpmin, self.fpmax)]

    def tau(self, x):
        return self.tf * (self.minedge + abs(Fr(float(x))))

    def band(self, ax, x):
        return self.tau(x) + 16 * Fr(C.ulp(max(self.M[ax], abs(float(x)))))

    def margin(self, ax, x):
        return max(self.L.cell[ax] / 1000000, 100 * self.tau(x))

    def classify(self, ax, x):
        """('in'|'edge'|'out', candidate cell indices, face index or None)
        'in': inside the closed region; 'edge': outside by less than the
        rejection margin (either accepted as the edge cell or refused);
        'out': must be refused."""
        L = self.L
        X = Fr(float(x))
        lo, hi, c, n = L.pmin[ax], L.pmax[ax], L.cell[ax], L.n[ax]
        if X < lo:
            return ("out" if lo - X > self.margin(ax, x) else "edge"), {0}, 0
        if X > hi:
            return ("out" if X - hi > self.margin(ax, x) else "edge"), {n - 1}, n
        i0 = min(math.floor((X - lo) / c), n - 1)
        cand = {i0}
        b = self.band(ax, x)
        face = None
        if X - L.face(ax, i0) <= b:
            face = i0
            if i0 > 0:
                cand.add(i0 - 1)
        if L.face(ax, i0 + 1) - X <= b:
            face = i0 + 1
            if i0 + 1 < n:
                cand.add(i0 + 1)
        return "in", cand, face

    # probe coordinates (floats) ------------------------------------------
    def centre(self, ax, i):
        return float(self.L.centre(ax, i))

    def face(self, ax, i, variant="near"):
        if variant == "near":
            return float(self.L.face(ax, i))
        if variant == "mul":
            return self.fpmin[ax] + i * self.fcell[ax]
        if variant == "lin":
            return float(np.linspace(self.fpmin[ax], self.fpmax[ax], self.n[ax] + 1)[i])
        if variant == "dn":
            return float(np.nextafter(float(self.L.face(ax, i)), -np.inf))
        if variant == "up":
            return float(np.nextafter(float(self.L.face(ax, i)), np.inf))
        raise KeyError(variant)

    def quarter(self, ax, i, q):
        return float(self.L.face(ax, i) + self.L.cell[ax] * Fr(q, 4))

    def outside(self, ax, side, how):
        c = self.L.cell[ax]
        edge = self.L.pmin[ax] if side < 0 else self.L.pmax[ax]
        if how == "half":
            d = c / 2
        else:  # just beyond the rejection margin
            d = 3 * max(c / 1000000, 100 * self.tau(float(edge))) + 64 * Fr(C.ulp(self.M[ax]))
        return float(edge + side * d)


def _axis_map(geo, src_ax, res_mesh, res_ax):
    """for every cell k of the result along res_ax: (source index on the
    infinite extension of the source lattice, aligned?)"""
    Ls = geo.L
    Lr = C.Lattice.of(res_mesh)
    cs = Ls.cell[src_ax]
    Mres = max(abs(float(Lr.pmin[res_ax])), abs(float(Lr.pmax[res_ax])), geo.M[src_ax])
    tol = 64 * Fr(C.ulp(Mres)) + cs / 1000000000
    out = []
    ok = True
    for k in range(Lr.n[res_ax]):
        t = (Lr.centre(res_ax, k) - Ls.pmin[src_ax]) / cs - Fr(1, 2)
        j = math.floor(t + Fr(1, 2))
        if abs(t - j) * cs > tol:
            ok = False
        out.append(j)
    if abs(Lr.cell[res_ax] - cs) > 2 * tol:
        ok = False
    return out, ok


def _gather(arr, maps):
    """maps: per source axis an int (axis removed at that index) or a list of
    source indices; returns arr restricted accordingly (value axis kept)"""
    ix = [np.array([m] if isinstance(m, int) else m, dtype=int) for m in maps]
    sub = arr[np.ix_(*ix)] if arr.ndim == len(maps) else arr[np.ix_(*ix, np.arange(arr.shape[-1]))]
    drop = tuple(i for i, m in enumerate(maps) if isinstance(m, int))
    return np.squeeze(sub, axis=drop) if drop else sub


def _agree(ctx, site, src, res, maps, inst=None):
    """value and validity of the result equal the source's at the same cells"""
    ctx.check(2)
    exp = _gather(src.array, maps)
    if res.array.shape != exp.shape or not np.array_equal(res.array, exp):
        w = ""
        if res.array.shape == exp.shape:
            i = tuple(int(v) for v in np.argwhere(res.array != exp)[0])
            w = f" first at result index {i}: got {res.array[i]!r} source has {exp[i]!r}"
        ctx.fail(f"{site}/value-not-at-its-position", f"result array {res.array.shape} differs from the source cells "
                 f"at the same physical positions {exp.shape}{w}", instance=inst)
    expv = _gather(src.valid, maps)
    if res.valid.shape != expv.shape or not np.array_equal(res.valid, expv):
        ctx.fail(f"{site}/validity-not-at-its-position", f"result validity {np.asarray(res.valid).astype(int).tolist()} "
                 f"but the source has {expv.astype(int).tolist()} at the same positions", instance=inst)


def _unchanged(ctx, site, obj, before, inst=None):
    ctx.check()
    if C.snap(obj) != before:
        ctx.fail(f"{site}/source-modified", "the source object changed", instance=inst)


def _contig(m):
    return all(b == a + 1 for a, b in zip(m, m[1:]))


# --------------------------------------------------------------------------
# generic checker for results that keep all axes (range, box, name)


def _check_block(ctx, site, geo, src, res_mesh, res_field, want, cls="", inst=None):
    """want[ax] = (set of admissible first indices, set of admissible last indices).
    Checks alignment, extents, and (if res_field) position agreement."""
    ctx.check()
    if res_mesh.region.ndim != geo.ndim or tuple(res_mesh.region.dims) != tuple(src.mesh.region.dims):
        ctx.fail(f"{site}/axes-changed", f"result dims {res_mesh.region.dims} source {src.mesh.region.dims}", instance=inst)
        return False
    maps = []
    good = True
    for ax in range(geo.ndim):
        m, ok = _axis_map(geo, ax, res_mesh, ax)
        ctx.check(2)
        if not ok:
            ctx.fail(f"{site}/result-not-cell-aligned", f"axis {ax}: result region {res_mesh.region.pmin.tolist()}.."
                     f"{res_mesh.region.pmax.tolist()} n={res_mesh.n.tolist()} is not on the source lattice "
                     f"(cell {geo.fcell[ax]!r}, origin {geo.fpmin[ax]!r})", instance=inst)
            good = False
            continue
        lo_ok, hi_ok = want[ax]
        cl = cls[ax] if isinstance(cls, dict) else (cls, cls)
        if not _contig(m):
            ctx.fail(f"{site}/wrong-cells", f"axis {ax}: source cells {m} are not a contiguous run", instance=inst)
            good = False
        else:
            for end, got, adm, c in (("lower", m[0], lo_ok, cl[0]), ("upper", m[-1], hi_ok, cl[1])):
                if got in adm:
                    continue
                if end == "lower":
                    kind = "extra-cells" if got < min(adm) else "missing-cells" if got > max(adm) else "wrong-cells"
                else:
                    kind = "extra-cells" if got > max(adm) else "missing-cells" if got < min(adm) else "wrong-cells"
                ctx.fail(f"{site}/{kind}{c}", f"axis {ax}: result covers source cells {m[0]}..{m[-1]} "
                         f"(region {float(res_mesh.region.pmin[ax])!r}..{float(res_mesh.region.pmax[ax])!r}); "
                         f"the {end} end of the request lies in cell {sorted(adm)}", instance=inst)
                good = False
        maps.append(m)
    if res_field is not None and len(maps) == geo.ndim and all(
            0 <= m[0] and m[-1] < geo.n[a] for a, m in enumerate(maps)):
        _agree(ctx, site, src, res_field, maps, inst)
    return good


def _full(geo, skip=()):
    return {ax: ({0}, {geo.n[ax] - 1}) for ax in range(geo.ndim) if ax not in skip}


# --------------------------------------------------------------------------
# boxes


def _box_want(geo, ax, lo, hi):
    """admissible first/last index for extraction by a region with corners
    lo<hi on axis ax, the class of the box, and the region2slices bounds"""
    kl, cl, fl = geo.classify(ax, lo)
    kh, ch, fh = geo.classify(ax, hi)
    L = geo.L
    Xl, Xh = Fr(float(lo)), Fr(float(hi))
    n = geo.n[ax]
    if fl is not None:
        first = {min(fl, n - 1)}
    else:
        first = cl
    if fh is not None:
        last = {max(fh - 1, 0)}
    else:
        last = ch
    aligned = (fl is not None, fh is not None)
    # region2slices: between wholly-contained and intersecting cells
    b = geo.band(ax, lo)
    inner_first = min([i for i in range(n + 1) if L.face(ax, i) >= Xl - b], default=n)
    inner_last = max([i for i in range(-1, n) if L.face(ax, i + 1) <= Xh + geo.band(ax, hi)], default=-1)
    return first, last, aligned, (min(first), inner_first, inner_last, max(last)), (kl, kh)


def _do_box(ctx, geo, mesh, field, corners, tag):
    """corners: per axis (lo, hi) floats.  Runs mesh[R], field[R], region2slices."""
    lo = tuple(c[0] for c in corners)
    hi = tuple(c[1] for c in corners)
    region = df.Region(p1=lo, p2=hi, dims=mesh.region.dims)
    want, r2s, aligned, status, ccls = {}, {}, True, [], {}
    for ax in range(geo.ndim):
        f, l, (al_lo, al_hi), rs, (kl, kh) = _box_want(geo, ax, lo[ax], hi[ax])
        want[ax] = (f, l)
        r2s[ax] = rs
        aligned = aligned and al_lo and al_hi
        ccls[ax] = tuple("/corner-on-lattice-face" if a else "/corner-inside-cell" for a in (al_lo, al_hi))
        status += [kl, kh]
    cls = "/aligned-box" if aligned else "/arbitrary-box"
    must_reject = "out" in status
    may_reject = must_reject or "edge" in status
    bm, bf = C.mesh_snap(mesh), C.field_snap(field)
    for site, obj in (("Mesh.__getitem__[Region]", mesh), ("Field.__getitem__[Region]", field)):
        ctx.step(1, f"{site} {tag}")
        raised, res = C.raises(obj.__getitem__, region)
        ctx.check()
        ctx.observe(site, raised)
        if raised:
            ctx.note("refused:" + site)
            if not may_reject:
                ctx.fail(f"{site}/rejected-inside-request{cls}", f"region {lo}..{hi} lies inside the mesh region but "
                         f"{type(res).__name__}: {res}")
            continue
        if must_reject:
            ctx.fail(f"{site}/accepted-outside-request", f"region {lo}..{hi} reaches outside the mesh region "
                     f"{geo.fpmin}..{geo.fpmax} but a result was returned")
            continue
        rm = res if isinstance(res, df.Mesh) else res.mesh
        ctx.observe(rm.region.pmin, rm.region.pmax, rm.n)
        if isinstance(res, df.Field):
            ctx.observe(res.array, res.valid)
        _check_block(ctx, site, geo, field, rm, res if isinstance(res, df.Field) else None, want, ccls)
    _unchanged(ctx, "Mesh.__getitem__[Region]", mesh, bm)
    _unchanged(ctx, "Field.__getitem__[Region]", field, bf)
    # region2slices
    site = "Mesh.region2slices"
    ctx.step(1, f"{site} {tag}")
    raised, sl = C.raises(mesh.region2slices, region)
    ctx.check()
    ctx.observe(site, raised, None if raised else tuple((s.start, s.stop, s.step) for s in sl))
    if raised:
        ctx.note("refused:" + site)
        if not may_reject and aligned:  # boxes that are not whole cells: documentation leaves it open
            ctx.fail(f"{site}/rejected-inside-request{cls}", f"region {lo}..{hi}: {type(sl).__name__}: {sl}")
    elif may_reject:
        # index slices of a box that reaches outside: the statement's last sentence is read for the extraction
        # operations; whether the bare index computation must refuse is left open (recorded, not flagged)
        ctx.note("observed:region2slices-returned-slices-for-box-reaching-outside")
    else:
        for ax in range(geo.ndim):
            s = sl[ax]
            outer_first, inner_first, inner_last, outer_last = r2s[ax]
            a, b_ = s.start, s.stop - 1
            ctx.check()
            okstep = s.step in (None, 1)
            if aligned:
                ok = okstep and a in want[ax][0] and b_ in want[ax][1]
            else:
                ok = okstep and outer_first <= a <= max(inner_first, outer_first) and \
                    min(inner_last, outer_last) <= b_ <= outer_last
                if inner_first > inner_last:  # no cell wholly inside: anything within the covering block
                    ok = okstep and outer_first <= a and b_ <= outer_last and a <= b_ + 1
            if not ok:
                ctx.fail(f"{site}/wrong-cells{cls}", f"axis {ax}: slice {s} for region {lo[ax]!r}..{hi[ax]!r}; covering "
                         f"block is {outer_first}..{outer_last}, wholly contained cells {inner_first}..{inner_last}")


def _pick(ctx, name, pts, start, stop):
    """choose one of pts[start:stop] (tuples (kind, cell, value)) by its label; returns the index"""
    labels = [f"{p[0]}@{p[1]}" for p in pts[start:stop]]
    return start + labels.index(ctx.choose(name, labels))


def unit_box1(ctx):
    kind = ctx.choose("kind", ["aligned", "arbitrary", "outside"])
    if kind == "aligned":  # rounding of the faces decides: every scale
        axes = _axis1(ctx, _tier(ctx, CNT_T[:6], CNT_T), _tier(ctx, SCL_Q, SCL_T))
    else:
        axes = _axis1(ctx, _tier(ctx, CNT_Q[:4], CNT_T), _tier(ctx, SCL_Q[:2], SCL_Q))
    mesh = _mesh(axes)
    geo = Geo(mesh)
    n = geo.n[0]
    field = _field(ctx, mesh, nvdim=1)
    if kind == "aligned":
        i = ctx.choose("i", list(range(n)))
        j = ctx.choose("j", list(range(i + 1, n + 1)))
        variants = _tier(ctx, ["near", "mul"], ["near", "mul", "dn", "up"])
        var = ctx.choose("face", variants)
        lo, hi = geo.face(0, i, var), geo.face(0, j, var)
        for v in variants[:variants.index(var)]:
            if (geo.face(0, i, v), geo.face(0, j, v)) == (lo, hi):
                ctx.note("skipped:same-floats-as-earlier-face-formula")
                raise Skip()
        _do_box(ctx, geo, mesh, field, [(lo, hi)], f"aligned [{i},{j}) {var}")
    elif kind == "arbitrary":
        # corners from faces (near) and quarter points, at least one corner off the lattice
        pts = []
        for c in range(n):
            pts += [("f", c, geo.face(0, c)), ("q1", c, geo.quarter(0, c, 1)), ("q3", c, geo.quarter(0, c, 3))]
        pts.append(("f", n, geo.face(0, n)))
        a = _pick(ctx, "lo", pts, 0, len(pts) - 1)
        b = _pick(ctx, "hi", pts, a + 1, len(pts))
        if pts[a][0] == "f" and pts[b][0] == "f":
            raise Skip()  # aligned boxes are enumerated above
        _do_box(ctx, geo, mesh, field, [(pts[a][2], pts[b][2])], f"arbitrary {pts[a][:2]}..{pts[b][:2]}")
    else:
        side = ctx.choose("side", ["low", "high", "both"])
        how = ctx.choose("how", ["half", "margin"])
        inner = ctx.choose("inner", ["centre", "far-corner"])
        lo = geo.outside(0, -1, how) if side in ("low", "both") else (
            geo.centre(0, 0) if inner == "centre" else geo.fpmin[0])
        hi = geo.outside(0, +1, how) if side in ("high", "both") else (
            geo.centre(0, n - 1) if inner == "centre" else geo.fpmax[0])
        _do_box(ctx, geo, mesh, field, [(lo, hi)], f"outside {side} {how}")


def _nd_mesh(ctx, fam_q, fam_t, with_dims=True, scales=(1.0, 1e-9), dims_quick=None, dims_max=None,
             scale_choice=False):
    idx = ctx.choose("mesh", _tier(ctx, fam_q, fam_t))
    nd = len(idx)
    D = C.DIMSETS[nd]
    dimsets = [D[0], D[2], D[1]] if len(D) > 2 else list(D)  # default, permuted defaults, renamed
    if dims_max is not None:
        dimsets = dimsets[:dims_max]
    if dims_quick is not None and ctx.tier == "quick":
        dimsets = dimsets[:dims_quick]
    dims = ctx.choose("dims", dimsets) if with_dims else C.DIMSETS[nd][0]
    scale = ctx.choose("scale", list(scales)) if (len(scales) > 1 or scale_choice) else scales[0]
    return idx, dims, _axes_nd(idx, scale)


def unit_boxnd(ctx):
    nd = ctx.choose("ndim", [2, 3, 4])
    fam = {2: (M2_Q, M2_M), 3: (M3_Q, M3_S), 4: (M4_Q, M4_T[:3])}[nd]
    idx, dims, axes = _nd_mesh(ctx, fam[0], fam[1], dims_quick=1, dims_max=2,
                               scales=_tier(ctx, (1.0,), (1.0, 1e-9)), scale_choice=True)
    mesh = _mesh(axes, dims)
    geo = Geo(mesh)
    field = _field(ctx, mesh, nvdim=2)
    act = ctx.choose("axis", list(range(nd)))
    n = geo.n[act]
    others = ctx.choose("others", _tier(ctx, ["full", "first-cell", "quarter-box", "outside"],
                                        ["full", "first-cell", "quarter-box", "outside", "last-cell"]))
    kind = ctx.choose("kind", ["aligned", "arbitrary"])
    if kind == "aligned":
        i = ctx.choose("i", list(range(n)))
        j = ctx.choose("j", list(range(i + 1, n + 1)))
        var = ctx.choose("face", ["near", "mul"])
        lo, hi = geo.face(act, i, var), geo.face(act, j, var)
        if var == "mul" and (geo.face(act, i), geo.face(act, j)) == (lo, hi) and others in ("quarter-box", "outside"):
            ctx.note("skipped:same-floats-as-earlier-face-formula")
            raise Skip()
    else:
        pts = []
        for c in range(n):
            pts += [("f", c, geo.face(act, c)), ("q1", c, geo.quarter(act, c, 1)), ("q3", c, geo.quarter(act, c, 3))]
        pts.append(("f", n, geo.face(act, n)))
        a = _pick(ctx, "lo", pts, 0, len(pts) - 1)
        b = _pick(ctx, "hi", pts, a + 1, len(pts))
        if pts[a][0] == "f" and pts[b][0] == "f":
            raise Skip()
        lo, hi = pts[a][2], pts[b][2]
        var = "near"
    corners = []
    for ax in range(nd):
        m = geo.n[ax]
        if ax == act:
            corners.append((lo, hi))
        elif others == "full":
            corners.append((geo.face(ax, 0, var), geo.face(ax, m, var)))
        elif others == "first-cell":
            corners.append((geo.face(ax, 0, var), geo.face(ax, 1, var)))
        elif others == "last-cell":
            corners.append((geo.face(ax, m - 1, var), geo.face(ax, m, var)))
        elif others == "quarter-box":
            corners.append((geo.quarter(ax, 0, 1), geo.quarter(ax, m - 1, 3)))
        else:
            corners.append((geo.centre(ax, 0), geo.outside(ax, +1, "margin")))
    _do_box(ctx, geo, mesh, field, corners, f"{kind} axis {act} others {others}")


# --------------------------------------------------------------------------
# ranges


def _range_want(geo, ax, a, b):
    ka, ca, fa = geo.classify(ax, a)
    kb, cb, fb = geo.classify(ax, b)
    return (ca, cb), (ka, kb), (fa, fb)


def _do_range(ctx, geo, mesh, field, ax, a, b, tag, reverse=False, with_mesh=False, subclass=""):
    """sel(ax=(a,b)) with a<=b (or the reversed pair if reverse)"""
    dim = mesh.region.dims[ax]
    (ca, cb), status, _ = _range_want(geo, ax, a, b)
    must_reject = "out" in status
    may_reject = must_reject or "edge" in status or reverse
    want = _full(geo)
    want[ax] = (ca, cb)
    arg = [b, a] if reverse else (a, b)
    targets = [("Field.sel", field)] + ([("Mesh.sel", mesh)] if with_mesh else [])
    snaps = [C.snap(o) for _, o in targets]
    for (site0, obj), before in zip(targets, snaps):
        site = site0 + "/range"
        ctx.step(1, f"{site} {tag}")
        raised, res = C.raises(obj.sel, **{dim: arg})
        ctx.check()
        ctx.observe(site, raised)
        if raised:
            ctx.note("refused:" + site)
            if not may_reject:
                ctx.fail(f"{site}/rejected-inside-request{subclass}", f"{dim}=({a!r}, {b!r}) lies inside "
                         f"{geo.fpmin[ax]!r}..{geo.fpmax[ax]!r} but {type(res).__name__}: {res}")
        elif must_reject:
            ctx.fail(f"{site}/accepted-outside-request", f"{dim}=({a!r}, {b!r}) reaches outside "
                     f"{geo.fpmin[ax]!r}..{geo.fpmax[ax]!r} but a result was returned")
        elif not isinstance(res, (df.Field, df.Mesh)):
            ctx.fail(f"{site}/not-a-field", f"returned {type(res).__name__}")
        else:
            rm = res if isinstance(res, df.Mesh) else res.mesh
            ctx.observe(rm.region.pmin, rm.region.pmax, rm.n)
            if isinstance(res, df.Field):
                ctx.observe(res.array, res.valid)
            _check_block(ctx, site, geo, field, rm, res if isinstance(res, df.Field) else None, want,
                         "/reversed-pair" if reverse else "")
        _unchanged(ctx, site, obj, before)


def _probe_list(geo, ax, quarters=True, variants=("near",)):
    n = geo.n[ax]
    pts = []
    for c in range(n):
        for v in variants:
            pts.append((f"f{v}", c, geo.face(ax, c, v)))
        if quarters:
            pts.append(("q1", c, geo.quarter(ax, c, 1)))
        pts.append(("c", c, geo.centre(ax, c)))
        if quarters:
            pts.append(("q3", c, geo.quarter(ax, c, 3)))
    for v in variants:
        pts.append((f"f{v}", n, geo.face(ax, n, v)))
    # drop repeated floats (another face formula giving the same number), keep order
    seen, out = set(), []
    for p in pts:
        if p[2] in seen:
            continue
        seen.add(p[2])
        out.append(p)
    out.sort(key=lambda p: p[2])
    return out


def unit_range1(ctx):
    axes = _axis1(ctx, _tier(ctx, CNT_Q[:4], CNT_T), SCL_Q[:2])
    mesh = _mesh(axes)
    geo = Geo(mesh)
    n = geo.n[0]
    field = _field(ctx, mesh, nvdim=1)
    kind = ctx.choose("kind", ["inside", "reversed", "outside"])
    if kind == "inside":
        pts = _probe_list(geo, 0)
        a = _pick(ctx, "lo", pts, 0, len(pts))
        b = _pick(ctx, "hi", pts, a, len(pts))
        _do_range(ctx, geo, mesh, field, 0, pts[a][2], pts[b][2], f"{pts[a][:2]}..{pts[b][:2]}")
    elif kind == "reversed":
        if n < 2:
            raise Skip()
        a = ctx.choose("lo", list(range(n - 1)))
        b = ctx.choose("hi", list(range(a + 1, n)))
        _do_range(ctx, geo, mesh, field, 0, geo.centre(0, a), geo.centre(0, b), f"reversed c{a}..c{b}", reverse=True, with_mesh=True)
    else:
        side = ctx.choose("side", ["low", "high", "both"])
        how = ctx.choose("how", ["half", "margin"])
        inner = ctx.choose("inner", list(range(n)))
        lo = geo.outside(0, -1, how) if side in ("low", "both") else geo.centre(0, inner)
        hi = geo.outside(0, +1, how) if side in ("high", "both") else geo.centre(0, inner)
        _do_range(ctx, geo, mesh, field, 0, lo, hi, f"outside {side} {how}")


# subregion layouts ---------------------------------------------------------


def _layout_boxes(name, n, ax):
    """index boxes {name: [(i,j) per axis]} of a layout split along axis ax"""
    nd = len(n)
    m = n[ax]
    h = m // 2

    def box(i, j, partial):
        b = []
        for k in range(nd):
            if k == ax:
                b.append((i, j))
            elif partial:
                b.append((0, max(1, n[k] // 2)))
            else:
                b.append((0, n[k]))
        return b

    if name == "none":
        return {}
    if name == "one":
        return {"A": box(1, m - 1, False)} if m >= 3 else None
    if name == "touching":
        return {"A": box(0, h, False), "B": box(h, m, True)} if m >= 2 else None
    if name == "disjoint":
        return {"A": box(0, 1, False), "B": box(m - 1, m, True)} if m >= 3 else None
    if name == "overlap":
        return {"A": box(0, h + 1, False), "B": box(h, m, True)} if m >= 2 else None
    if name == "cover":
        return {"A": box(0, m, False)}
    raise KeyError(name)


def _sub_mesh(ctx, axes, dims, layout, ax, var):
    plain = _mesh(axes, dims)
    g = Geo(plain)
    boxes = _layout_boxes(layout, g.n, ax)
    if boxes is None:
        ctx.note("skipped:layout-needs-more-cells")
        raise Skip()
    sub = {}
    for name, b in boxes.items():
        sub[name] = df.Region(p1=[g.face(k, i, var) for k, (i, j) in enumerate(b)],
                              p2=[g.face(k, j, var) for k, (i, j) in enumerate(b)])
    raised, mesh = C.raises(_mesh, axes, dims, sub)
    if raised:
        ctx.note("skipped:subregion-refused-by-constructor(C14)")
        raise Skip()
    return mesh, boxes


def unit_rangesub(ctx):
    nd = ctx.choose("ndim", [2, 1, 3])
    fam = {1: (M1_Q, M1_T), 2: (M2_Q, M2_M), 3: (M3_Q, M3_S)}[nd]
    idx, dims, axes = _nd_mesh(ctx, fam[0], fam[1], with_dims=False, scales=_tier(ctx, (1.0,), (1.0, 1e-9, 1e3)),
                               scale_choice=True)
    ax = ctx.choose("axis", list(range(nd)))
    layout = ctx.choose("layout", _tier(ctx, LAYOUTS[1:4], LAYOUTS[1:]))
    var = ctx.choose("subface", ["near", "mul"])
    mesh, boxes = _sub_mesh(ctx, axes, dims, layout, ax, var)
    geo = Geo(mesh)
    field = _field(ctx, mesh, nvdim=2)
    pts = _probe_list(geo, ax, quarters=False, variants=("near", "mul"))
    a = _pick(ctx, "lo", pts, 0, len(pts))
    b = _pick(ctx, "hi", pts, a, len(pts))
    # input class for a refusal: does the selected block start/end on a subregion face?
    (ca, cb), _, _ = _range_want(geo, ax, pts[a][2], pts[b][2])
    ends = {j for bx in boxes.values() for j in (bx[ax][1],)}
    starts = {bx[ax][0] for bx in boxes.values()}
    touch = bool(ca & ends) or bool({c + 1 for c in cb} & starts)
    _do_range(ctx, geo, mesh, field, ax, pts[a][2], pts[b][2], f"{pts[a][:2]}..{pts[b][:2]} layout {layout}",
              with_mesh=True, subclass="/block-touches-subregion-face" if touch else "/other")


# --------------------------------------------------------------------------
# planes


def _plane_probes(geo, ax):
    pts = [("none", 0, None)] + _probe_list(geo, ax, quarters=True, variants=("near", "mul"))
    for side in (-1, 1):
        for how in ("half", "margin"):
            pts.append((f"out{'-' if side < 0 else '+'}{how}", 0, geo.outside(ax, side, how)))
    return pts


def _do_plane(ctx, geo, mesh, field, ax, probe, with_mesh=True):
    kind, _, v = probe
    dim = mesh.region.dims[ax]
    if v is None:
        cen = (geo.L.pmin[ax] + geo.L.pmax[ax]) / 2
        status, cand, _ = geo.classify(ax, float(cen))
        # the exact mid point may be a face even if its float is not within the band (never the case in practice)
        if geo.n[ax] % 2 == 0:
            cand = {geo.n[ax] // 2 - 1, geo.n[ax] // 2}
        args, kw = (dim,), {}
    else:
        status, cand, _ = geo.classify(ax, v)
        if float(v).is_integer() and np.asarray(mesh.region.pmin).dtype.kind == "i":
            v = int(v)  # integer corners: hand integral coordinates over as Python ints
        args, kw = (), {dim: v}
    must_reject = status == "out"
    may_reject = status != "in"
    rest = [k for k in range(geo.ndim) if k != ax]
    targets = [("Field.sel", field)] + ([("Mesh.sel", mesh)] if with_mesh else [])
    snaps = [C.snap(o) for _, o in targets]
    for (site0, obj), before in zip(targets, snaps):
        site = site0 + "/plane"
        ctx.step(1, f"{site} {dim}={v!r}")
        raised, res = C.raises(obj.sel, *args, **kw)
        ctx.check()
        ctx.observe(site, raised)
        if raised:
            ctx.note("refused:" + site)
            if not may_reject:
                ctx.fail(f"{site}/rejected-inside-request", f"{dim}={v!r} lies inside {geo.fpmin[ax]!r}.."
                         f"{geo.fpmax[ax]!r} but {type(res).__name__}: {res}")
        elif must_reject:
            ctx.fail(f"{site}/accepted-outside-request", f"{dim}={v!r} is outside {geo.fpmin[ax]!r}.."
                     f"{geo.fpmax[ax]!r} but a result was returned")
        elif not isinstance(res, (df.Field, df.Mesh)):
            ctx.fail(f"{site}/not-a-field", f"returned {type(res).__name__}")
        else:
            rm = res if isinstance(res, df.Mesh) else res.mesh
            ctx.observe(rm.region.pmin, rm.region.pmax, rm.n)
            if isinstance(res, df.Field):
                ctx.observe(res.array, res.valid)
            ctx.check()
            exp_dims = tuple(mesh.region.dims[k] for k in rest)
            if rm.region.ndim != len(rest) or tuple(rm.region.dims) != exp_dims:
                ctx.fail(f"{site}/wrong-axis-removed", f"result dims {tuple(rm.region.dims)} expected {exp_dims}")
            elif tuple(rm.region.units) != tuple(mesh.region.units[k] for k in rest):
                ctx.fail(f"{site}/remaining-axes-lost-their-units", f"result units {tuple(rm.region.units)}, the remaining axes "
                         f"{exp_dims} have units {tuple(mesh.region.units[k] for k in rest)}")
            else:
                maps, good = [None] * geo.ndim, True
                for r_ax, s_ax in enumerate(rest):
                    m, ok = _axis_map(geo, s_ax, rm, r_ax)
                    ctx.check(2)
                    if not ok:
                        ctx.fail(f"{site}/result-not-cell-aligned", f"axis {s_ax}: result {rm.region.pmin.tolist()}.."
                                 f"{rm.region.pmax.tolist()} n={rm.n.tolist()} not on the source lattice")
                        good = False
                    elif m != list(range(geo.n[s_ax])):
                        ctx.fail(f"{site}/perpendicular-axis-changed", f"axis {s_ax}: result covers source cells "
                                 f"{m[0]}..{m[-1]} of 0..{geo.n[s_ax] - 1}")
                        good = False
                    maps[s_ax] = m
                if good and isinstance(res, df.Field):
                    # the removed axis must sit at ONE admissible cell for data and validity alike
                    hit = None
                    for c in sorted(cand):
                        maps[ax] = int(c)
                        if np.array_equal(res.array, _gather(field.array, maps)):
                            hit = c
                            break
                    ctx.check()
                    if hit is None:
                        # where do the values come from?
                        origin = [c for c in range(geo.n[ax])
                                  if np.array_equal(res.array, _gather(field.array, maps[:ax] + [c] + maps[ax + 1:]))]
                        ctx.fail(f"{site}/wrong-cell", f"{dim}={v!r}: values come from cell(s) {origin} along the axis; "
                                 f"the coordinate lies in cell {sorted(cand)}")
                    else:
                        maps[ax] = int(hit)
                        _agree(ctx, site, field, res, maps)
        _unchanged(ctx, site, obj, before)


def unit_plane(ctx):
    nd = ctx.choose("ndim", [2, 3, 4])
    fam = {2: (M2_Q, M2_T), 3: (M3_Q, M3_T), 4: (M4_Q, M4_T)}[nd]
    idx, dims, axes = _nd_mesh(ctx, fam[0], fam[1], dims_quick=1 if nd == 4 else None,
                               scales=(1.0,) if nd == 4 else (1.0, 1e-9))
    ax = ctx.choose("axis", list(range(nd)))
    layout = ctx.choose("layout", ["none", "touching"])
    swap = ctx.choose("swapped-corners", [False, True]) if nd == 2 else False
    if layout == "none":
        # pairwise distinct units: the remaining axes keep THEIR units (a unit taken by position shows)
        un = ctx.choose("units", ["default", "distinct"])
        mesh = _mesh(axes, dims, swap=swap, units=None if un == "default" else C.UNITS_DISTINCT[:nd])
    else:
        if swap:
            raise Skip()
        mesh, _ = _sub_mesh(ctx, axes, dims, layout, ax, "near")
    geo = Geo(mesh)
    field = _field(ctx, mesh, nvdim=2)
    probes = _plane_probes(geo, ax)
    p = _pick(ctx, "probe", probes, 0, len(probes))
    _do_plane(ctx, geo, mesh, field, ax, probes[p])


# integer-typed regions -------------------------------------------------------------------------------------------
INT_AXES = [(-2, 2, 4), (-5, 5, 4), (0, 3, 6), (-3, 0, 2), (1, 4, 3)]  # (lo, hi, n) as Python ints; cells 1, 2.5, 0.5, 1.5, 1


def unit_int_region(ctx):
    """Meshes whose region corners were given as integers (the corner arrays are integer-typed) with negative lower
    corners and fractional cell sizes: plane selection at every probe coordinate and range selection for all probe
    pairs along every axis.  Any integer arithmetic on the requested (non-integer) coordinate shows up here."""
    nd = ctx.choose("ndim", [2, 3, 1])
    combos = {1: [(0,), (1,), (2,), (3,)], 2: [(0, 2), (1, 3), (3, 0), (2, 4)], 3: [(0, 1, 2), (3, 4, 0)]}[nd]
    idx = ctx.choose("axes", combos)
    axes = [INT_AXES[k] for k in idx]
    mesh = _mesh(axes)
    if np.asarray(mesh.region.pmin).dtype.kind != "i":
        ctx.note("int-region:corners-not-integer-typed")  # the library converted them: nothing special to see
    geo = Geo(mesh)
    field = _field(ctx, mesh, nvdim=2)
    ax = ctx.choose("axis", list(range(nd)))
    op = ctx.choose("op", ["plane", "range"] if nd > 1 else ["range"])
    if op == "plane":
        probes = _plane_probes(geo, ax)
        p = _pick(ctx, "probe", probes, 0, len(probes))
        _do_plane(ctx, geo, mesh, field, ax, probes[p])
    else:
        pts = _probe_list(geo, ax)
        a = _pick(ctx, "lo", pts, 0, len(pts))
        b = _pick(ctx, "hi", pts, a, len(pts))
        # how the two bounds are typed: as floats, or as Python ints wherever the coordinate is integral (so that an
        # integer bound meets a fractional one in the same call)
        typed = ctx.choose("bound-types", ["float", "int-where-integral"])
        lo, hi = pts[a][2], pts[b][2]
        if typed == "int-where-integral":
            lo = int(lo) if float(lo).is_integer() else lo
            hi = int(hi) if float(hi).is_integer() else hi
        _do_range(ctx, geo, mesh, field, ax, lo, hi, f"{pts[a][:2]}..{pts[b][:2]}", with_mesh=True)



def unit_plane1d(ctx):
    """the only axis of a 1-D mesh: the value at the selected cell must still be
    the source's; what is returned cannot be a field on a 0-D mesh - reported
    under its own signature (one instance per lattice)."""
    idx = ctx.choose("mesh", _tier(ctx, M1_Q, M1_T))
    axes = _axes_nd(idx)
    mesh = _mesh(axes)
    geo = Geo(mesh)
    nv = ctx.choose("nvdim", [1, 2])
    field = _field(ctx, mesh, nvdim=nv)
    probes = _plane_probes(geo, 0)
    p = _pick(ctx, "probe", probes, 0, len(probes))
    kind, _, v = probes[p]
    inst = ctx.key(drop=("probe",))
    if v is None:
        cand = {geo.n[0] // 2 - 1, geo.n[0] // 2} if geo.n[0] % 2 == 0 else {geo.n[0] // 2}
        status, args, kw = "in", ("x",), {}
    else:
        status, cand, _ = geo.classify(0, v)
        args, kw = (), {"x": v}
    bf = C.field_snap(field)
    ctx.step(1, f"Field.sel x={v!r}")
    raised, res = C.raises(field.sel, *args, **kw)
    ctx.check()
    ctx.observe(raised, type(res).__name__)
    if raised:
        if status == "in":
            ctx.fail("Field.sel/plane-1d/rejected-inside-request", f"x={v!r}: {type(res).__name__}: {res}", instance=inst)
    elif status == "out":
        ctx.fail("Field.sel/plane-1d/accepted-outside-request", f"x={v!r} is outside but a result was returned")
    else:
        val = res.array if isinstance(res, df.Field) else np.asarray(res)
        ctx.observe(val)
        ctx.check()
        if not any(val.size == nv and np.array_equal(np.ravel(val), field.array[c]) for c in cand):
            ctx.fail("Field.sel/plane-1d/wrong-cell", f"x={v!r}: got {np.ravel(val).tolist()}, cell(s) {sorted(cand)} "
                     f"hold {[field.array[c].tolist() for c in sorted(cand)]}")
        ctx.check()
        if not isinstance(res, df.Field):
            ctx.fail("Field.sel/plane-1d/returns-bare-array-not-a-field", f"plane selection on a 1-D mesh returned "
                     f"{type(res).__name__} (no validity, no mesh)", instance=inst)
    _unchanged(ctx, "Field.sel/plane-1d", field, bf)
    ctx.step(1, f"Mesh.sel x={v!r}")
    raised, res = C.raises(mesh.sel, *args, **kw)
    ctx.check()
    ctx.observe(raised)
    if raised and status == "in":
        ctx.fail("Mesh.sel/plane-1d/rejected-inside-request", f"x={v!r}: {type(res).__name__}: {res}", instance=inst)
    elif not raised and status == "out":
        ctx.fail("Mesh.sel/plane-1d/accepted-outside-request", f"x={v!r} is outside but a result was returned")


# --------------------------------------------------------------------------
# extraction by name


def unit_name(ctx):
    nd = ctx.choose("ndim", [2, 1, 3])
    fam = {1: (M1_Q, M1_T), 2: (M2_Q, M2_T), 3: (M3_Q, M3_T)}[nd]
    idx, dims, axes = _nd_mesh(ctx, fam[0], fam[1], with_dims=True, scales=(1.0, 1e-9, 1e3))
    ax = ctx.choose("axis", list(range(nd)))
    layout = ctx.choose("layout", LAYOUTS[1:])
    var = ctx.choose("subface", ["near", "mul"])
    mesh, boxes = _sub_mesh(ctx, axes, dims, layout, ax, var)
    geo = Geo(mesh)
    field = _field(ctx, mesh, nvdim=2)
    bm, bf = C.mesh_snap(mesh), C.field_snap(field)
    for name, bx in boxes.items():
        want = {k: ({i}, {j - 1}) for k, (i, j) in enumerate(bx)}
        for site, obj in (("Field.__getitem__[name]", field), ("Mesh.__getitem__[name]", mesh)):
            ctx.step(1, f"{site} {name}")
            raised, res = C.raises(obj.__getitem__, name)
            ctx.check()
            ctx.observe(site, raised)
            if raised:
                ctx.fail(f"{site}/refused", f"subregion {name} = index box {bx}: {type(res).__name__}: {res}")
                continue
            rm = res if isinstance(res, df.Mesh) else res.mesh
            ctx.observe(rm.region.pmin, rm.region.pmax, rm.n)
            if isinstance(res, df.Field):
                ctx.observe(res.array, res.valid)
            _check_block(ctx, site, geo, field, rm, res if isinstance(res, df.Field) else None, want)
    _unchanged(ctx, "Mesh.__getitem__[name]", mesh, bm)
    _unchanged(ctx, "Field.__getitem__[name]", field, bf)


# --------------------------------------------------------------------------
# padding


def unit_pad(ctx):
    nd = ctx.choose("ndim", [1, 2, 3, 4])
    fam = {1: (M1_Q, M1_T), 2: (M2_Q, M2_T[:20]), 3: (M3_Q[:2], M3_S[:5]), 4: (M4_Q, M4_T[:3])}[nd]
    idx, dims, axes = _nd_mesh(ctx, fam[0], fam[1], with_dims=True, scales=_tier(ctx, (1.0,), (1.0, 1e-9)),
                               scale_choice=True, dims_max=1 if nd == 4 else None)
    mesh = _mesh(axes, dims)
    geo = Geo(mesh)
    nv = ctx.choose("nvdim", [1, 3]) if nd == 1 else 2
    field = _field(ctx, mesh, nvdim=nv)
    mode = ctx.choose("mode", MODES)
    wmax = 1 if (nd == 4 or (nd == 3 and ctx.tier == "quick")) else 2
    widths = []
    for ax in range(nd):
        widths.append((ctx.choose(f"w{ax}-", list(range(wmax + 1))), ctx.choose(f"w{ax}+", list(range(wmax + 1)))))
    omit = ctx.choose("zero-widths", ["omitted", "explicit"])
    pw = {dims[ax]: w for ax, w in enumerate(widths) if w != (0, 0) or omit == "explicit"}
    if omit == "explicit" and all(w != (0, 0) for w in widths):
        raise Skip()  # same request as 'omitted'
    _do_pad(ctx, geo, mesh, field, widths, pw, mode, dims)


def _do_pad(ctx, geo, mesh, field, widths, pw, mode, dims):
    nd = len(widths)
    bf = C.field_snap(field)
    # a mode may come with keyword options of numpy.pad ("maximum+stat_length=1"): they apply to the values AND to the
    # validity of the padding cells (a cell that copies an edge value copies that edge cell's validity)
    mode, _, opt = mode.partition("+")
    kwargs = {opt.split("=")[0]: int(opt.split("=")[1])} if opt else {}
    ctx.step(1, f"Field.pad {pw} {mode} {kwargs}")
    res = field.pad(pw, mode=mode, **kwargs)
    ctx.step(1, "Mesh.pad")
    rmesh = mesh.pad(pw)
    _unchanged(ctx, "Field.pad", field, bf)
    ctx.observe(res.mesh.region.pmin, res.mesh.region.pmax, res.mesh.n, res.array, res.valid)
    for site, rm in (("Field.pad", res.mesh), ("Mesh.pad", rmesh)):
        ctx.check()
        if tuple(rm.region.dims) != tuple(dims) or rm.region.ndim != nd:
            ctx.fail(f"{site}/axes-changed", f"{rm.region.dims}")
            return
        for ax in range(nd):
            m, ok = _axis_map(geo, ax, rm, ax)
            ctx.check(2)
            if not ok:
                ctx.fail(f"{site}/result-not-cell-aligned", f"axis {ax}: region {float(rm.region.pmin[ax])!r}.."
                         f"{float(rm.region.pmax[ax])!r} n={int(rm.n[ax])} vs source cell {geo.fcell[ax]!r}")
                continue
            exp = list(range(-widths[ax][0], geo.n[ax] + widths[ax][1]))
            if m != exp:
                ctx.fail(f"{site}/wrong-number-of-cells", f"axis {ax}: widths {widths[ax]} requested, result covers "
                         f"lattice cells {m[0]}..{m[-1]} (source 0..{geo.n[ax] - 1})")
    # data and mask: interior = source at the same position, outside = numpy.pad of the mode
    seq = [tuple(w) for w in widths]
    exp_a = np.pad(field.array, seq + [(0, 0)], mode=mode, **kwargs)
    exp_v = np.pad(field.valid, seq, mode=mode, **kwargs)
    inner = tuple(slice(w[0], w[0] + n) for w, n in zip(widths, geo.n))
    ctx.check(4)
    if res.array.shape != exp_a.shape:
        ctx.fail("Field.pad/wrong-number-of-cells", f"array shape {res.array.shape} expected {exp_a.shape}")
        return
    if not np.array_equal(res.array[inner], field.array):
        ctx.fail("Field.pad/value-not-at-its-position", "cells inside the source region changed their values")
    elif not np.array_equal(res.array, exp_a):
        ctx.fail("Field.pad/padding-values-do-not-follow-mode", f"mode {mode}: padded data differ from numpy.pad")
    rv = np.asarray(res.valid)
    if rv.shape != exp_v.shape or not np.array_equal(rv[inner], field.valid):
        ctx.fail("Field.pad/validity-not-at-its-position", "validity inside the source region changed")
    elif mode == "constant":
        # a constant fill has no source cell; whether the filled cells count as valid is left open
        outside = np.ones(rv.shape, dtype=bool)
        outside[inner] = False
        if outside.any():
            ctx.note("observed:constant-padding-cells-" + ("valid" if rv[outside].any() else "invalid"))
    elif not np.array_equal(rv, exp_v):
        ctx.fail("Field.pad/padding-validity-does-not-follow-mode", f"mode {mode}: padded validity "
                 f"{rv.astype(int).tolist()} differs from numpy.pad of the mask {exp_v.astype(int).tolist()}")


# --------------------------------------------------------------------------
# resampling


def unit_resample(ctx):
    nd = ctx.choose("ndim", [1, 2, 3, 4])
    fam = {1: (M1_Q, M1_T), 2: (M2_Q, M2_M), 3: (M3_Q[:2], M3_S), 4: (M4_Q, M4_T[:3])}[nd]
    idx, dims, axes = _nd_mesh(ctx, fam[0], fam[1], with_dims=(nd < 3), scales=(1.0, 1e-9))
    mesh = _mesh(axes, dims)
    geo = Geo(mesh)
    nv = ctx.choose("nvdim", [1, 3] if nd < 3 else [2])
    field = _field(ctx, mesh, nvdim=nv)
    target = []
    for ax in range(nd):
        n = geo.n[ax]
        dom = []
        for t in ([n, 1, 2 * n] if nd == 4 else [n, 1, 2, 3, 5, 2 * n]):
            if t not in dom:
                dom.append(t)
        target.append(ctx.choose(f"n{ax}", dom))
    _do_resample(ctx, geo, field, target, dims, nv)


def _do_resample(ctx, geo, field, target, dims, nv):
    nd = len(target)
    bf = C.field_snap(field)
    ctx.step(1, f"Field.resample {tuple(target)}")
    res = field.resample(tuple(target))
    _unchanged(ctx, "Field.resample", field, bf)
    ctx.observe(res.mesh.region.pmin, res.mesh.region.pmax, res.mesh.n, res.array, res.valid)
    rm = res.mesh
    ctx.check(2)
    if tuple(int(i) for i in rm.n) != tuple(target) or tuple(rm.region.dims) != tuple(dims):
        ctx.fail("Field.resample/wrong-resolution", f"n={rm.n.tolist()} dims={rm.region.dims} requested {target}")
        return
    for ax in range(nd):
        tol = 4 * C.ulp(geo.M[ax])
        if abs(float(rm.region.pmin[ax]) - geo.fpmin[ax]) > tol or abs(float(rm.region.pmax[ax]) - geo.fpmax[ax]) > tol:
            ctx.fail("Field.resample/region-not-kept", f"axis {ax}: {float(rm.region.pmin[ax])!r}.."
                     f"{float(rm.region.pmax[ax])!r} source {geo.fpmin[ax]!r}..{geo.fpmax[ax]!r}")
            return
    # nearest source cell of every target centre (two candidates when the centre is on a source face)
    Lr = C.Lattice.of(rm)
    cands = []
    for ax in range(nd):
        per = []
        for k in range(target[ax]):
            _, cand, _ = geo.classify(ax, float(Lr.centre(ax, k)))
            # exact test as well (a centre exactly on a face in exact arithmetic)
            t = (Lr.centre(ax, k) - geo.L.pmin[ax]) / geo.L.cell[ax]
            if t.denominator == 1 and 0 < t < geo.n[ax]:
                cand = cand | {int(t) - 1, int(t)}
            per.append(sorted(cand))
        cands.append(per)
    rv = np.asarray(res.valid)
    ctx.check(2)
    if res.array.shape != tuple(target) + (nv,) or rv.shape != tuple(target):
        ctx.fail("Field.resample/wrong-shape", f"array {res.array.shape} valid {rv.shape}")
        return
    bad_v = bad_m = None
    for cell in np.ndindex(*target):
        options = list(itertools.product(*[cands[ax][cell[ax]] for ax in range(nd)]))
        ctx.check(2)
        if bad_v is None and not any(np.array_equal(res.array[cell], field.array[o]) for o in options):
            bad_v = (cell, res.array[cell].tolist(), [field.array[o].tolist() for o in options])
        if bad_m is None and not any(bool(rv[cell]) == bool(field.valid[o]) for o in options):
            bad_m = (cell, bool(rv[cell]), [bool(field.valid[o]) for o in options])
    if bad_v is not None:
        ctx.fail("Field.resample/value-not-from-nearest-cell", f"target cell {bad_v[0]}: {bad_v[1]}; the source cell(s) "
                 f"containing its centre hold {bad_v[2]}")
    if bad_m is not None:
        ctx.fail("Field.resample/validity-not-from-nearest-cell", f"target cell {bad_m[0]}: valid={bad_m[1]}; the source "
                 f"cell(s) containing its centre have {bad_m[2]}")


def unit_reuse(ctx):
    """Non-initial states: a field whose mesh has already been described / resampled once is moved or resized IN PLACE
    (field.mesh.translate / scale), then selected from, extracted from, padded and resampled.  Every result must agree
    with the source at the positions the source has NOW."""
    nd = ctx.choose("ndim", [1, 2, 3])
    idx = {1: (7,), 2: (1, 2), 3: (0, 1, 2)}[nd]
    axes = _axes_nd(idx)
    mesh = _mesh(axes)
    field = _field(ctx, mesh, nvdim=2)
    first = ctx.choose("first-use", ["resample", "cells+to_xarray", "nothing"])
    step = ctx.choose("then-in-place", [("translate", 1.0), ("translate", -37.5), ("scale", 0.5), ("scale", 3.0)])
    op = ctx.choose("op", ["resample", "range", "plane", "region", "pad"] if nd > 1 else ["resample", "range", "region", "pad"])
    n0 = tuple(int(k) for k in mesh.n)
    if first == "resample":
        ctx.step(1)
        field.resample(tuple(max(1, k - 1) for k in n0))
    elif first == "cells+to_xarray":
        field.mesh.cells, field.mesh.vertices, field.to_xarray()
    ctx.step(1, f"in place: {step}")
    edges = np.asarray(field.mesh.region.edges, dtype=float)
    if step[0] == "translate":
        field.mesh.translate(list(step[1] * edges), inplace=True)
    else:
        field.mesh.scale(step[1], inplace=True)
    mesh = field.mesh
    geo = Geo(mesh)
    dims = tuple(mesh.region.dims)
    if op == "resample":
        target = ctx.choose("target", [tuple(2 * k for k in n0), tuple(max(1, k - 1) for k in n0), n0])
        _do_resample(ctx, geo, field, list(target), dims, 2)
    elif op == "range":
        ax = ctx.choose("axis", list(range(nd)))
        n = geo.n[ax]
        a = ctx.choose("lo", list(range(n)))
        b = ctx.choose("hi", list(range(a, n)))
        _do_range(ctx, geo, mesh, field, ax, geo.centre(ax, a), geo.centre(ax, b), f"c{a}..c{b}", with_mesh=True)
    elif op == "plane":
        ax = ctx.choose("axis", list(range(nd)))
        probes = _plane_probes(geo, ax)
        p = _pick(ctx, "probe", probes, 0, len(probes))
        _do_plane(ctx, geo, mesh, field, ax, probes[p])
    elif op == "region":
        ax = ctx.choose("axis", list(range(nd)))
        n = geo.n[ax]
        i = ctx.choose("i", list(range(n)))
        j = ctx.choose("j", list(range(i + 1, n + 1)))
        corners = []
        for k in range(nd):
            lo, hi = (i, j) if k == ax else (0, geo.n[k])
            corners.append((float(mesh.vertices[k][lo]), float(mesh.vertices[k][hi])))
        _do_box(ctx, geo, mesh, field, corners, f"aligned[{i},{j})@{ax}")
    else:
        ax = ctx.choose("axis", list(range(nd)))
        mode = ctx.choose("mode", ["constant", "wrap", "reflect"])
        widths = [(1, 2) if k == ax else (0, 0) for k in range(nd)]
        _do_pad(ctx, geo, mesh, field, widths, {dims[ax]: (1, 2)}, mode, dims)


NONFINITE = {"nan": float("nan"), "+inf": float("inf"), "-inf": float("-inf"), "numpy-nan": np.float64("nan"),
             "numpy-float32-nan": np.float32("nan")}


def unit_nonfinite(ctx):
    """A coordinate that is not a number, or infinite, is not in the region: a plane request at it, a range with it as
    one bound (the other bound inside), and a region box with such a corner must be rejected, and source mesh and field
    stay untouched."""
    nd = ctx.choose("ndim", [3, 2, 1])
    ax = ctx.choose("axis", list(range(nd)))
    what = ctx.choose("request", ["plane", "range-lower", "range-upper", "range-both"])
    bad = ctx.choose("value", list(NONFINITE))
    scale = ctx.choose("scale", [1.0, 1e-9])
    if nd == 1 and what == "plane":
        raise Skip()  # plane selection on the only axis is judged by plane1d
    n = [4, 3, 2][:nd]
    pmin = [-1.0 * scale, 0.5 * scale, 2.0 * scale][:nd]
    cell = [0.5 * scale, 1.0 * scale, 0.25 * scale][:nd]
    pmax = [a + c * k for a, c, k in zip(pmin, cell, n)]
    mesh = df.Mesh(region=df.Region(p1=tuple(pmin), p2=tuple(pmax)), n=n)
    field = df.Field(mesh, nvdim=2, value=C.tracer(n, 2, ctx.seed), valid=C.coded_mask(tuple(n), 2))
    dim = mesh.region.dims[ax]
    v = NONFINITE[bad]
    inside = pmin[ax] + 1.25 * cell[ax]
    arg = {"plane": v, "range-lower": (v, inside), "range-upper": (inside, v), "range-both": (v, v)}[what]
    for site, obj in (("Field.sel", field), ("Mesh.sel", mesh)):
        before = C.snap(obj)
        ctx.step(1, f"{site}({dim}={arg!r})")
        with np.errstate(all="ignore"):
            raised, res = C.raises(obj.sel, **{dim: arg})
        ctx.check()
        ctx.observe(site, raised, type(res).__name__)
        if not raised:
            rm = res if isinstance(res, df.Mesh) else getattr(res, "mesh", None)
            ctx.fail(f"{site}/accepted-non-finite-request/{'plane' if what == 'plane' else 'range'}",
                     f"{dim}={arg!r} returned {type(res).__name__}" + (f" with n={rm.n.tolist()}" if rm is not None else ""),
                     instance=ctx.key(drop=("scale",)))
        ctx.check()
        if C.snap(obj) != before:
            ctx.fail(f"{site}/source-modified", f"{dim}={arg!r}: the source changed", instance=ctx.key(drop=("scale",)))


def units(tier):
    return [
        {"name": "box1", "fn": unit_box1, "bound": None},
        {"name": "boxnd", "fn": unit_boxnd, "bound": None},
        {"name": "range1", "fn": unit_range1, "bound": None},
        {"name": "rangesub", "fn": unit_rangesub, "bound": None},
        {"name": "plane", "fn": unit_plane, "bound": None},
        {"name": "plane1d", "fn": unit_plane1d, "bound": None},
        {"name": "int_region", "fn": unit_int_region, "bound": None},
        {"name": "nonfinite", "fn": unit_nonfinite, "bound": None},
        {"name": "reuse", "fn": unit_reuse, "bound": None},
        {"name": "name", "fn": unit_name, "bound": None},
        {"name": "pad", "fn": unit_pad, "bound": None},
        {"name": "resample", "fn": unit_resample, "bound": None},
    ]
