"""C19 - topological and demagnetisation tools obey their physical invariances.

Stateless exploration, every transformation applied in INPUT space (new mesh /
new array built by the harness, never by the library's own transform methods),
the library's tools evaluated on the original and on the transformed input:

  charge   compact-support skyrmions (winding x helicity x polarity) on
           anisotropic 2-D meshes x validity mask x both methods x the whole
           transformation alphabet: the 24 lattice rotations and 6 generic
           rotations of all vectors, reversal, constant and position dependent
           positive rescaling of the vector lengths, mesh rescaling and
           translation, the three quarter turns of the sample.  Berg-Luescher:
           integer (= winding*polarity) for the textures that wrap the sphere.
  coarse   skyrmions 1.2 - 2.6 cells in radius, centred off the cell centres: Berg-Luescher still an integer,
           sign flip on reversal, unchanged by a lattice rotation of the vectors.
  uniform  uniform fields: both methods give zero.
  bps      hedgehogs centred in 3-D meshes, every n-tuple over the count
           alphabet x cell shapes x direction x reversed: exactly one Bloch
           point, tail-to-tail (head-to-head when reversed).
  angles   neighbouring-cell angles against the angle of the two unit vectors
           on fields containing parallel, antiparallel and generic neighbours.
  demag    cuboids x cell shapes: trace of the tensor, the two implementations,
           mean demagnetising field sum rule (-M/3 each for a cube).
  refuse   every tool x every (ndim, nvdim) outside its domain is refused.
"""
import itertools
import warnings

import numpy as np

import discretisedfield as df
from discretisedfield import tools as dft
from discretisedfield.tools import tools as dft_mod
from mc import common as C
from mc import engine

PROPERTY = "C19"
RULE = ("unit charge: full product mesh x cell x texture (winding, helicity, polarity) x mask x method x transformation; "
        "uniform: direction x mesh x cell x mask x method; bps: every n-tuple x cell x direction x reversed; angles: "
        "n x cell x dims x direction x pattern x units; demag: n x cell x implementation (|M| in {1, 8e5} inside); refuse: tool x ndim x "
        "nvdim. An execution is non-trivial when a value returned by the library was compared with the oracle.")
ASSUMPTIONS = [
    "scope: 2-D meshes 20x14 (quick) and 16x16, 20x14 (thorough) with cells (1,1), (1,2), (0.5e-9,2e-9); skyrmion "
    "radius 0.33 of the edge lengths (elliptic in anisotropic meshes), windings -2,-1,1,2; hedgehog meshes n in "
    "{8,10} (quick) / {8,10,12} (thorough) per axis; demag cuboids up to 3x3x3 / 4 cells per axis",
    "invariances are compared with 1e-9*max(1,|Q|): every transformation is an exact symmetry of both discrete "
    "formulas (proper rotation of all vectors, per-cell positive rescaling, similarity of the mesh, quarter turn of "
    "the index lattice), only rounding differs",
    "vector lengths stay inside [1e-3, 8e5*3.5]: Field.orientation treats lengths below its absolute 1e-8 threshold "
    "as zero (C15 grants this), so smaller rescalings are outside the scope",
    "Berg-Luescher integer: only for masks whose boundary lies >= 2 cells inside the uniform rim (all-valid, disk); "
    "the integer is the degree winding*polarity of the map (charge convention n.(dx n x dy n)/4pi named in the "
    "statement's anchors); the textures are resolved with neighbour angles < 1.4 rad so that the lattice degree is "
    "the continuum degree",
    "Bloch points: resolution precondition n >= 8 cells per axis (the counter rounds a finite-difference flux; "
    "measured distance of the un-rounded flux from the rounding threshold >= 0.09 over the whole alphabet); "
    "hedgehog centred in the mesh, even counts (no cell centre at the singularity)",
    "angles: cos(returned angle) is compared with the dot product of the unit vectors (1e-12) and the angle itself "
    "with atan2(|a x b|, a.b) (1e-7: arccos loses half the digits at 0 and pi); zero vectors are not used; the "
    "position and names of the result mesh are not constrained beyond 'one cell shorter in that direction, same cell'",
    "demagnetisation tensor: 'trace -1 at every frequency' is demanded in the form that does not depend on the DFT "
    "origin convention of C11: |trace| = 1 in every k-cell and the inverse transform of the trace is -1 in the "
    "centre cell and 0 elsewhere (1e-8)",
]

warnings.filterwarnings("ignore")

# --------------------------------------------------------------------------
# textures and transformations (input space)

R_SKY = 0.33
R_DISK = 0.49


def _norm_coords(n):
    x = (np.arange(n[0]) + 0.5) / n[0] - 0.5
    y = (np.arange(n[1]) + 0.5) / n[1] - 0.5
    return np.meshgrid(x, y, indexing="ij")


def skyrmion(n, w, h, p):
    """n = (sin T cos P, sin T sin P, p cos T), T = pi*r/R inside r < R (so n_z = p at the centre), (0,0,-p) outside;
    P = w*phi + h.  Degree = w*p."""
    X, Y = _norm_coords(n)
    r = np.hypot(X, Y) / R_SKY
    th = np.pi * np.minimum(r, 1.0)
    ph = w * np.arctan2(Y, X) + h
    v = np.stack([np.sin(th) * np.cos(ph), np.sin(th) * np.sin(ph), p * np.cos(th)], axis=-1)
    v[r >= 1.0] = (0.0, 0.0, -float(p))
    return v


def mask_of(kind, n):
    X, Y = _norm_coords(n)
    if kind == "all":
        return np.ones(n, dtype=bool)
    if kind == "disk":
        return np.hypot(X, Y) <= R_DISK
    if kind == "holes":
        m = np.ones(n, dtype=bool)
        m[n[0] // 2 - 2, n[1] // 2 + 1] = False
        m[n[0] // 2 + 1, n[1] // 2 - 2] = False
        m[n[0] // 2 + 2, n[1] // 2 - 2] = False
        m[1, 2] = False
        return m
    raise AssertionError(kind)


def _lattice_rotations():
    out = []
    for perm in itertools.permutations(range(3)):
        for signs in itertools.product((1, -1), repeat=3):
            M = np.zeros((3, 3))
            for i in range(3):
                M[i, perm[i]] = signs[i]
            if round(np.linalg.det(M)) == 1:
                out.append(M)
    out.sort(key=lambda M: (not np.array_equal(M, np.eye(3)), tuple(M.ravel().tolist())))
    return out


def _rodrigues(axis, angle):
    a = np.asarray(axis, dtype=float)
    a = a / np.linalg.norm(a)
    K = np.array([[0, -a[2], a[1]], [a[2], 0, -a[0]], [-a[1], a[0], 0]])
    return np.eye(3) + np.sin(angle) * K + (1 - np.cos(angle)) * (K @ K)


LATTICE = _lattice_rotations()
GENERIC = [((1, 0, 0), 0.7), ((0, 1, 0), 1.9), ((0, 0, 1), 2.6), ((1, 1, 1), 1.234), ((1, 2, 3), 4.1), ((-2, 1, 0.5), 5.5)]

TRANSFORMS = (["base"] + [f"lattice-rot:{i}" for i in range(1, 24)] + [f"generic-rot:{i}" for i in range(6)]
              + ["reverse", "length*2.5", "length*1e-3", "length*8e5", "length*s(p)",
                 "mesh*1e-9", "mesh*3", "translate:a", "translate:b", "turn:1", "turn:2", "turn:3"])


def _length_field(n):
    i, j = np.meshgrid(np.arange(n[0]), np.arange(n[1]), indexing="ij")
    return 0.5 + ((3 * i + 5 * j) % 7) / 2.0  # 0.5 .. 3.5, not symmetric


def apply_transform(t, n, cell, origin, arr, mask):
    """returns (n, cell, origin, arr, mask, sign) with sign = expected factor of the charge"""
    n, cell, origin = tuple(n), tuple(cell), tuple(origin)
    if t == "base":
        return n, cell, origin, arr, mask, 1
    k, _, a = t.partition(":")
    if k == "lattice-rot":
        return n, cell, origin, arr @ LATTICE[int(a)].T, mask, 1
    if k == "generic-rot":
        ax, ang = GENERIC[int(a)]
        return n, cell, origin, arr @ _rodrigues(ax, ang).T, mask, 1
    if t == "reverse":
        return n, cell, origin, -arr, mask, -1
    if t.startswith("length*"):
        f = t[len("length*"):]
        if f == "s(p)":
            return n, cell, origin, arr * _length_field(n)[..., None], mask, 1
        return n, cell, origin, arr * float(f), mask, 1
    if t.startswith("mesh*"):
        f = float(t[len("mesh*"):])
        return n, tuple(c * f for c in cell), tuple(o * f for o in origin), arr, mask, 1
    if k == "translate":
        sh = {"a": (7.7, -123.456), "b": (-1e3 - 0.1, 0.3)}[a]
        return n, cell, tuple(o + s * c for o, s, c in zip(origin, sh, cell)), arr, mask, 1
    if k == "turn":
        for _ in range(int(a)):
            arr = np.rot90(arr, 1, axes=(0, 1))
            arr = np.stack([-arr[..., 1], arr[..., 0], arr[..., 2]], axis=-1)
            mask = np.rot90(mask, 1, axes=(0, 1))
            n, cell, origin = (n[1], n[0]), (cell[1], cell[0]), (-origin[1] - n[1] * cell[1], origin[0])
        return n, cell, origin, np.ascontiguousarray(arr), np.ascontiguousarray(mask), 1
    raise AssertionError(t)


def field2d(n, cell, origin, arr, mask):
    p2 = tuple(o + k * c for o, k, c in zip(origin, n, cell))
    mesh = df.Mesh(region=df.Region(p1=origin, p2=p2), n=n)
    return df.Field(mesh, nvdim=3, value=arr, valid=mask)


def _charge(ctx, fld, method):
    ctx.step(1)
    return float(dft.topological_charge(fld, method=method))


MESHES2 = [(20, 14), (16, 16)]
CELLS2 = [(1.0, 2.0), (0.5e-9, 2e-9), (1.0, 1.0)]


def _textures(tier):
    ws = [1, -2] if tier == "quick" else [1, -2, -1, 2]
    hs = [np.pi / 2] if tier == "quick" else [np.pi / 2, 0.0]
    return [(w, h, p) for w in ws for h in hs for p in (1, -1)]


def unit_charge(ctx):
    n = ctx.choose("n", MESHES2[:1] if ctx.tier == "quick" else MESHES2)
    cell = ctx.choose("cell", CELLS2[:2] if ctx.tier == "quick" else CELLS2)
    w, h, p = ctx.choose("texture(w,h,p)", _textures(ctx.tier))
    mk = ctx.choose("mask", ["all", "disk", "holes"])
    method = ctx.choose("method", ["continuous", "berg-luescher"])
    t = ctx.choose("transform", TRANSFORMS)
    origin = (0.0, 0.0)
    arr = skyrmion(n, w, h, p)
    mask = mask_of(mk, n)
    q0 = _charge(ctx, field2d(n, cell, origin, arr, mask), method)
    inst = ctx.key()
    if t == "base":
        ctx.observe(round(q0, 9))
        if method == "berg-luescher" and mk in ("all", "disk"):
            ctx.check(2)
            if C.gt(abs(q0 - round(q0)), 1e-9):
                ctx.fail("topological_charge/berg-luescher/not-an-integer",
                         f"texture wrapping the sphere {w * p} times: charge {q0!r}", instance=inst)
            elif round(q0) != w * p:
                ctx.fail("topological_charge/berg-luescher/integer-differs-from-degree",
                         f"degree {w * p}, returned {q0!r}", instance=inst)
        elif abs(q0) < 0.5:
            # vacuity guard for the invariance tests (not a demand of the statement): recorded in the evidence
            ctx.note("vacuity:base-charge-below-0.5")
        return
    n2, cell2, origin2, arr2, mask2, sign = apply_transform(t, n, cell, origin, arr, mask)
    f2 = field2d(n2, cell2, origin2, arr2, mask2)
    before = C.field_snap(f2)
    q1 = _charge(ctx, f2, method)
    ctx.observe(round(q1, 9))
    ctx.check()
    if C.gt(abs(q1 - sign * q0), 1e-9 * max(1.0, abs(q0))):
        cls = t.split(":")[0].split("*")[0]
        what = {"lattice-rot": "rotation of all vectors", "generic-rot": "rotation of all vectors",
                "reverse": "reversal of all vectors (sign must flip)", "length": "rescaling of the vector lengths",
                "mesh": "rescaling of the mesh", "translate": "translation of the mesh",
                "turn": "quarter turn of the sample"}[cls]
        ctx.fail(f"topological_charge/{method}/not-invariant/{cls}",
                 f"{what} [{t}]: charge {q0!r} -> {q1!r} (expected {sign * q0!r})", instance=inst)
    ctx.check()
    if C.field_snap(f2) != before:
        ctx.fail("topological_charge/operand-modified", "the field was changed", instance=inst)


# coarse textures ----------------------------------------------------------------------------------------------------
COARSE_N = [(11, 11), (9, 12)]
COARSE_R = [1.5, 1.2, 2.0, 2.6]                      # skyrmion radius in cells
COARSE_C = [(0.3, 0.4), (0.25, 0.25), (0.0, 0.0), (-0.45, 0.1)]  # centre offset from the mesh centre, in cells


def coarse_skyrmion(n, R, c, w, p):
    x = np.arange(n[0]) + 0.5 - n[0] / 2.0 - c[0]
    y = np.arange(n[1]) + 0.5 - n[1] / 2.0 - c[1]
    X, Y = np.meshgrid(x, y, indexing="ij")
    r = np.hypot(X, Y) / R
    th = np.pi * np.minimum(r, 1.0)
    ph = w * np.arctan2(Y, X) + np.pi / 2
    v = np.stack([np.sin(th) * np.cos(ph), np.sin(th) * np.sin(ph), p * np.cos(th)], axis=-1)
    v[r >= 1.0] = (0.0, 0.0, -float(p))
    return v


def unit_coarse(ctx):
    """Textures only one to three cells wide (single lattice triangles cover a large part of the sphere): the lattice
    method still returns an integer - every spin configuration with a uniform rim is a map of the closed lattice to the
    sphere - and the integer changes sign when all vectors are reversed and is the same for the rotated vectors.
    (Which integer is not demanded here: under-resolved textures need not keep the continuum degree.)"""
    n = ctx.choose("n", COARSE_N)
    R = ctx.choose("radius-in-cells", COARSE_R)
    c = ctx.choose("centre-offset", COARSE_C)
    w = ctx.choose("winding", [1, -1])
    p = ctx.choose("polarity", [1, -1])
    cell = ctx.choose("cell", [(1.0, 1.0), (0.5e-9, 2e-9)])
    arr = coarse_skyrmion(n, R, c, w, p)
    mask = np.ones(n, dtype=bool)
    inst = ctx.key(drop=("cell",))
    # exceptional configurations (three vectors of a lattice triangle in one plane through the origin, the triangle
    # covering half the sphere) have no defined solid angle: they are outside the statement.  All four triangles of
    # every plaquette are examined, so the guard does not depend on which diagonal the library uses.
    a, b, cc, dd = arr[:-1, :-1], arr[1:, :-1], arr[1:, 1:], arr[:-1, 1:]
    rho = np.inf
    for t in ((a, b, cc), (a, cc, dd), (a, b, dd), (b, cc, dd)):
        re = 1.0 + np.sum(t[0] * t[1], -1) + np.sum(t[1] * t[2], -1) + np.sum(t[2] * t[0], -1)
        im = np.sum(t[0] * np.cross(t[1], t[2]), -1)
        rho = min(rho, float(np.min(np.hypot(re, im))))
    if rho < 0.05:
        ctx.note("coarse:exceptional-configuration-skipped")
        raise engine.Skip()
    ctx.note("coarse:triangles-with-negative-real-part", int(np.sum(1.0 + np.sum(a * b, -1) + np.sum(b * cc, -1) + np.sum(cc * a, -1) < 0)))
    q0 = _charge(ctx, field2d(n, cell, (0.0, 0.0), arr, mask), "berg-luescher")
    ctx.observe(round(q0, 9))
    ctx.check()
    if C.gt(abs(q0 - round(q0)), 1e-9):
        ctx.fail("topological_charge/berg-luescher/not-an-integer/coarse-texture",
                 f"skyrmion of radius {R} cells centred {c} off the mesh centre on {n}: charge {q0!r}", instance=inst)
        return
    if round(q0) != w * p:
        ctx.note("coarse:integer-differs-from-continuum-degree(not-demanded)")
    q1 = _charge(ctx, field2d(n, cell, (0.0, 0.0), -arr, mask), "berg-luescher")
    ctx.check()
    if C.gt(abs(q1 + q0), 1e-9):
        ctx.fail("topological_charge/berg-luescher/not-invariant/reverse", f"coarse texture: {q0!r} -> {q1!r} on reversal",
                 instance=inst)
    M = _lattice_rotations()[5]
    q2 = _charge(ctx, field2d(n, cell, (0.0, 0.0), arr @ M.T, mask), "berg-luescher")
    ctx.check()
    if C.gt(abs(q2 - q0), 1e-9):
        ctx.fail("topological_charge/berg-luescher/not-invariant/lattice-rot", f"coarse texture: {q0!r} -> {q2!r} after a "
                 f"proper lattice rotation of all vectors", instance=inst)



def unit_reuse(ctx):
    """Non-initial states: a tool is evaluated on a field, the field's values are then changed IN PLACE (reversed,
    overwritten with a uniform field, one component flipped, written through field.array[...] or numpy's out=), and the
    tool is evaluated again on the same object: the answer must be the one for the values the field holds now (what a
    fresh field with these values gives)."""
    tool = ctx.choose("tool", ["charge-continuous", "charge-berg-luescher", "angles", "bps"])
    change = ctx.choose("change", ["array[...] = -array", "np.negative(array, out=array)", "array[...] = uniform",
                                   "array[..., 0] *= -1", "array = -array (setter)", "nothing"])
    first = ctx.choose("first-use", ["same-tool", "orientation", "nothing"])
    if tool.startswith("charge"):
        n, cell = (20, 14), (1.0, 2.0)
        arr0 = skyrmion(n, 1, np.pi / 2, 1)
        mk = lambda a: field2d(n, cell, (0.0, 0.0), a, np.ones(n, dtype=bool))  # noqa: E731
        run = lambda fld: float(dft.topological_charge(fld, method=tool.split("-", 1)[1]))  # noqa: E731
    elif tool == "angles":
        n = (3, 2, 4)
        arr0 = _angle_field("generic", n, 0)
        mesh = df.Mesh(p1=(0, 0, 0), p2=(3.0, 2.0, 4.0), n=n)
        mk = lambda a: df.Field(mesh, nvdim=3, value=a)  # noqa: E731
        run = lambda fld: np.asarray(dft.neighbouring_cell_angle(fld, "z").array)  # noqa: E731
    else:
        n = (8, 8, 8)
        ax = [np.arange(k) + 0.5 - k / 2 for k in n]
        P = np.stack(np.meshgrid(*ax, indexing="ij"), axis=-1)
        arr0 = P / np.linalg.norm(P, axis=-1, keepdims=True)
        mesh = df.Mesh(p1=(0, 0, 0), p2=(8.0, 8.0, 8.0), n=n)
        mk = lambda a: df.Field(mesh, nvdim=3, value=a)  # noqa: E731

        def run(fld):
            r = dft.count_bps(fld, "x")
            return (float(r["bp_number"]), float(r["bp_number_tt"]), float(r["bp_number_hh"]))
    f = mk(arr0.copy())
    inst = ctx.key()
    ctx.step(1, f"first use: {first}")
    if first == "same-tool":
        run(f)
    elif first == "orientation":
        f.orientation, f.norm
    if change == "array[...] = -array":
        f.array[...] = -f.array
    elif change == "np.negative(array, out=array)":
        np.negative(f.array, out=f.array)
    elif change == "array[...] = uniform":
        f.array[...] = (0.0, 0.6, 0.8)
    elif change == "array[..., 0] *= -1":
        f.array[..., 0] *= -1.0
    elif change == "array = -array (setter)":
        f.array = -f.array
    ctx.step(2, f"{change}; {tool} again; {tool} on a fresh field with the current values")
    again = run(f)
    ref = run(mk(np.array(f.array)))
    ctx.observe(np.round(np.asarray(again, dtype=float), 9))
    ctx.check()
    if not np.allclose(np.asarray(again, dtype=float), np.asarray(ref, dtype=float), rtol=0, atol=1e-12, equal_nan=True):
        ctx.fail(f"{tool.split('-')[0]}/reuse/answer-belongs-to-earlier-values",
                 f"after '{change}' (first use: {first}): {np.asarray(again).ravel()[:4].tolist()} but a fresh field with the same "
                 f"values gives {np.asarray(ref).ravel()[:4].tolist()}", instance=inst)



def unit_library_transforms(ctx):
    """The same invariances with the transformation carried out by the LIBRARY's own operations on the field object
    (-f, f * c, Field.rotate90, in-place mesh scale / translate), on meshes with and without periodic directions, with the
    texture sitting across the periodic seam and with invalid cells that hold non-zero vectors."""
    n = (20, 14)
    cell = ctx.choose("cell", [(1.0, 2.0), (0.5e-9, 2e-9)])
    bc = ctx.choose("bc", ["", "x", "y", "xy"])
    mk = ctx.choose("mask", ["all", "holes", "half"])
    method = ctx.choose("method", ["continuous", "berg-luescher"])
    t = ctx.choose("transform", ["-f", "f * 2.5", "f * 1e-3", "rotate90 k=1", "rotate90 k=2", "rotate90 k=3", "rotate90 k=-1",
                                 "mesh.scale(3) in place", "mesh.translate in place", "np.negative(f)", "(-f) * (-1)"])
    arr = np.roll(skyrmion(n, 1, np.pi / 2, 1), n[0] // 2, axis=0)      # the texture sits across the seam in x
    if mk == "half":
        mask = np.ones(n, dtype=bool)
        mask[: n[0] // 2] = False
    else:
        mask = mask_of(mk, n)
    p2 = tuple(k * c for k, c in zip(n, cell))
    mesh = df.Mesh(region=df.Region(p1=(0.0, 0.0), p2=p2), n=n, bc=bc)
    f = df.Field(mesh, nvdim=3, value=arr, valid=mask, vdim_mapping={"x": "x", "y": "y", "z": None})
    inst = ctx.key(drop=("cell",))
    q0 = _charge(ctx, f, method)
    sign = 1
    ctx.step(1, t)
    if t == "-f":
        g, sign = -f, -1
    elif t == "np.negative(f)":
        g, sign = np.negative(f), -1
    elif t == "(-f) * (-1)":
        g = (-f) * (-1)
    elif t.startswith("f * "):
        g = f * float(t[4:])
    elif t.startswith("rotate90"):
        g = f.rotate90("x", "y", k=int(t.split("=")[1]))
    elif t.startswith("mesh.scale"):
        g = df.Field(df.Mesh(region=df.Region(p1=(0.0, 0.0), p2=p2), n=n, bc=bc), nvdim=3, value=arr, valid=mask,
                     vdim_mapping={"x": "x", "y": "y", "z": None})
        g.mesh.scale(3.0, inplace=True)
    else:
        g = df.Field(df.Mesh(region=df.Region(p1=(0.0, 0.0), p2=p2), n=n, bc=bc), nvdim=3, value=arr, valid=mask,
                     vdim_mapping={"x": "x", "y": "y", "z": None})
        g.mesh.translate((7.7 * cell[0], -123.456 * cell[1]), inplace=True)
    q1 = _charge(ctx, g, method)
    ctx.observe(round(q0, 9), round(q1, 9))
    ctx.check()
    if abs(q0) < 0.3:
        ctx.note("vacuity:base-charge-below-0.3")
    if C.gt(abs(q1 - sign * q0), 1e-9 * max(1.0, abs(q0))):
        ctx.fail(f"topological_charge/{method}/not-invariant/library-{t.split(' ')[0].split('(')[0]}",
                 f"{t} on a mesh with bc={bc!r}, mask {mk}: charge {q0!r} -> {q1!r} (expected {sign * q0!r})", instance=inst)



UNIFORM = [(0, 0, 1), (0, 0, -1), (1, 0, 0), (0, 1, 0), (1, 1, 0), (1, 2, 3), (-2e5, 1e5, 0.5e5)]


def unit_uniform(ctx):
    v = ctx.choose("vector", UNIFORM)
    n = ctx.choose("n", MESHES2[:1] if ctx.tier == "quick" else MESHES2)
    cell = ctx.choose("cell", CELLS2[:2] if ctx.tier == "quick" else CELLS2)
    mk = ctx.choose("mask", ["all", "disk", "holes"])
    method = ctx.choose("method", ["continuous", "berg-luescher"])
    arr = np.broadcast_to(np.asarray(v, dtype=float), tuple(n) + (3,)).copy()
    f = field2d(n, cell, (0.3 * cell[0], -1.0 * cell[1]), arr, mask_of(mk, n))
    q = _charge(ctx, f, method)
    ctx.observe(q)
    ctx.check()
    if C.gt(abs(q), 1e-12):
        ctx.fail(f"topological_charge/{method}/uniform-field-has-charge", f"uniform {v}: charge {q!r}")


# --------------------------------------------------------------------------
# Bloch points

CELLS3 = [(1.0, 1.0, 1.0), (1.0, 2.0, 3.0), (2e-9, 1e-9, 1e-9)]


def unit_bps(ctx):
    counts = [8, 10] if ctx.tier == "quick" else [8, 10, 12]
    n = ctx.choose("n", sorted(itertools.product(counts, repeat=3), key=lambda t: (sum(t), t)))
    cell = ctx.choose("cell", CELLS3)
    d = ctx.choose("direction", [0, 1, 2])
    rev = ctx.choose("reversed", [False, True])
    # the sample need not fill the mesh: cells outside an ellipsoid hold zero and are not valid.  (A cuboid sample one cell
    # smaller than an 8-cell mesh was tried and withdrawn: with 6 cells across, the un-rounded cumulative flux comes within
    # 0.01 of the rounding threshold - an under-resolved input, not a statement about the library.)
    sample = ctx.choose("sample", ["whole-mesh", "ellipsoid"])
    origin = (0.3 * cell[0], -1.0 * cell[1], 5.0 * cell[2])
    ax = [origin[a] + (np.arange(n[a]) + 0.5) * cell[a] - (origin[a] + 0.5 * n[a] * cell[a]) for a in range(3)]
    X, Y, Z = np.meshgrid(*ax, indexing="ij")
    P = np.stack([X, Y, Z], axis=-1)
    arr = P / np.linalg.norm(P, axis=-1, keepdims=True)
    if rev:
        arr = -arr
    p2 = tuple(o + k * c for o, k, c in zip(origin, n, cell))
    mesh = df.Mesh(region=df.Region(p1=origin, p2=p2), n=n)
    if sample == "whole-mesh":
        f = df.Field(mesh, nvdim=3, value=arr)
    else:
        if sample == "ellipsoid":
            half = [0.5 * n[a] * cell[a] for a in range(3)]
            keep = (X / half[0]) ** 2 + (Y / half[1]) ** 2 + (Z / half[2]) ** 2 <= 0.81
        else:
            keep = np.zeros(n, dtype=bool)
            keep[1:-1, 1:-1, 1:-1] = True
        arr = np.where(keep[..., None], arr, 0.0)
        f = df.Field(mesh, nvdim=3, value=arr, valid="norm")
    ctx.step(1, f"count_bps(hedgehog {n}, {mesh.region.dims[d]}, {sample})")
    r = dft.count_bps(f, mesh.region.dims[d])
    got = (float(r["bp_number"]), float(r["bp_number_tt"]), float(r["bp_number_hh"]))
    ctx.observe(got)
    exp = (1.0, 0.0, 1.0) if rev else (1.0, 1.0, 0.0)
    # evidence only: distance of the un-rounded cumulative flux (same library primitives) from the rounding threshold
    try:
        dims = list(mesh.region.dims)
        av = [x for x in dims if x != dims[d]]
        fi = dft.emergent_magnetic_field(f.orientation).div.integrate(direction=av[0]).integrate(direction=av[1])
        q = np.asarray((fi.integrate(direction=dims[d], cumulative=True) / (4 * np.pi)).array).squeeze()
        margin = 0.5 - float(np.abs(q - np.round(q)).max())
        ctx.note("flux-margin-from-rounding-threshold>=%.2f" % (np.floor(margin * 20) / 20))
    except Exception:  # noqa - the note is not part of the oracle
        ctx.note("flux-margin-not-measurable")
    ctx.check()
    if got != exp:
        ctx.fail("count_bps/hedgehog-not-one-bloch-point/" + ("head-to-head" if rev else "tail-to-tail"),
                 f"(number, tail-to-tail, head-to-head) = {got}, expected {exp}; pattern "
                 f"{r.get('bp_pattern_' + mesh.region.dims[d])}")


# --------------------------------------------------------------------------
# neighbouring cell angles

VECS = [(0, 0, 1), (0, 0, -2), (1, 0, 0), (-3, 0, 0), (1, 2, 3), (2, 4, 6), (-1, -2, -3), (0.5, -1, 0.25), (1e-3, 0, 0),
        (0, 8e5, 0), (3, 4, 0), (-2, 1, 0.5)]
DIMS3 = [None, ("a", "b", "c"), ("z", "x", "y")]


def _angle_field(pattern, n, d):
    idx = np.stack(np.meshgrid(*[np.arange(k) for k in n], indexing="ij"), axis=-1)
    i, j, k = idx[..., 0], idx[..., 1], idx[..., 2]
    if pattern == "coded":
        code = (i + 3 * j + 5 * k + i * j) % len(VECS)
        return np.asarray(VECS, dtype=float)[code]
    flat = (i * n[1] + j) * n[2] + k
    if pattern in ("parallel", "antiparallel"):
        # several directions (one per grid line along d): for some of them the dot product of the two normalised vectors
        # rounds to 1.0000000000000002 / -1.0000000000000002, for others to 0.9999999999999999 or exactly 1
        bases = np.asarray([(1.0, 2.0, 3.0), (1.0, 1.0, 1.0), (2.0, -1.0, 0.5), (-1.0, -1.0, -1.0), (0.5, -1.0, 0.25),
                            (3.0, -7.0, 11.0), (0.0, 0.0, 1.0), (1e-3, 1e-3, -1e-3)])
        line = (i + j + k - idx[..., d]) % len(bases)
        sign = (-1.0) ** idx[..., d] if pattern == "antiparallel" else 1.0
        return bases[line] * ((1.0 + flat) * sign)[..., None]
    if pattern == "generic":
        t = 0.37 * flat + 0.11 * i * i
        u = 0.9 * j - 0.23 * k + 0.05 * flat
        return np.stack([np.sin(t) * np.cos(u), np.sin(t) * np.sin(u) + 0.1, np.cos(t)], axis=-1) * (1 + flat % 3)[..., None]
    if pattern in ("slow-spiral", "slow-spiral-fine", "near-antiparallel"):
        # slowly varying texture: neighbours differ by a few 1e-3 ... 1e-5 rad (or by pi minus that)
        a = {"slow-spiral": (4e-3, 1e-3, 2e-4), "slow-spiral-fine": (3e-5, 5e-6, 1e-4), "near-antiparallel": (4e-3, 1e-3, 2e-4)}[pattern]
        phi = a[0] * i + a[1] * j + a[2] * k + 0.3
        if pattern == "near-antiparallel":
            phi = phi + np.pi * idx[..., d]
        return np.stack([np.cos(phi), np.sin(phi), 0.0 * phi], axis=-1) * (1.0 + flat % 3)[..., None]
    raise AssertionError(pattern)


def unit_angles(ctx):
    ns = [(2, 2, 2), (3, 2, 4)] if ctx.tier == "quick" else [(2, 2, 2), (3, 2, 4), (4, 3, 2), (2, 5, 3), (2, 1, 3)]
    n = ctx.choose("n", ns)
    cell = ctx.choose("cell", CELLS3)
    dims = ctx.choose("dims", DIMS3)
    d = ctx.choose("direction", [a for a in range(3) if n[a] >= 2])
    pattern = ctx.choose("pattern", ["coded", "parallel", "antiparallel", "generic", "slow-spiral", "slow-spiral-fine",
                                     "near-antiparallel"])
    un = ctx.choose("units", ["rad", "deg"])
    corners = ctx.choose("corners", ["float", "int-typed", "int-typed-negative-half-cells"] if pattern in ("coded", "generic") else ["float"])
    if corners == "float":
        origin = (0.3 * cell[0], -1.0 * cell[1], 5.0 * cell[2])
        p2 = tuple(o + k * c for o, k, c in zip(origin, n, cell))
    elif corners == "int-typed":
        origin = (0, 0, 0)                    # Python ints, unit cells: half a cell is not an integer
        p2 = tuple(int(k) for k in n)
    else:
        origin = (-3, -1, 2)                  # negative integer corner, cells of 0.5
        p2 = tuple(int(o + k) for o, k in zip(origin, n))
        n = tuple(2 * k for k in n)
    mesh = df.Mesh(region=df.Region(p1=origin, p2=p2, dims=dims), n=n)
    arr = _angle_field(pattern, n, d)
    f = df.Field(mesh, nvdim=3, value=arr)
    before = C.field_snap(f)
    dname = mesh.region.dims[d]
    ctx.step(1, f"neighbouring_cell_angle({dname}, {un})")
    res = dft.neighbouring_cell_angle(f, dname, units=un)
    got = np.asarray(res.array)
    ctx.observe(np.round(got, 6))
    inst = ctx.key(drop=("cell",))
    sl1 = tuple(slice(0, -1) if a == d else slice(None) for a in range(3))
    sl2 = tuple(slice(1, None) if a == d else slice(None) for a in range(3))
    a_, b_ = arr[sl1], arr[sl2]
    ua = a_ / np.linalg.norm(a_, axis=-1, keepdims=True)
    ub = b_ / np.linalg.norm(b_, axis=-1, keepdims=True)
    dot = np.sum(ua * ub, axis=-1)
    ref = np.arctan2(np.linalg.norm(np.cross(ua, ub), axis=-1), dot)
    nexp = tuple(k - 1 if a == d else k for a, k in enumerate(n))
    ctx.check(2)
    if tuple(int(x) for x in res.mesh.n) != nexp or got.shape != nexp + (1,) or int(res.nvdim) != 1:
        ctx.fail("neighbouring_cell_angle/mesh-not-one-cell-shorter",
                 f"result counts {res.mesh.n.tolist()}, array {got.shape}; expected {nexp}", instance=inst)
        return
    inside = all(float(res.mesh.region.pmin[a]) >= float(mesh.region.pmin[a]) - 1e-9 * mesh.cell[a]
                 and float(res.mesh.region.pmax[a]) <= float(mesh.region.pmax[a]) + 1e-9 * mesh.cell[a] for a in range(3))
    ctx.check()
    if not inside:
        ctx.fail("neighbouring_cell_angle/result-mesh-reaches-outside-the-field", f"{res.mesh.region.pmin.tolist()} .. "
                 f"{res.mesh.region.pmax.tolist()} for a field on {mesh.region.pmin.tolist()} .. {mesh.region.pmax.tolist()}",
                 instance=inst)
    ctx.note("angle-mesh:" + ("centred-between-the-cell-pairs" if abs(float(res.mesh.region.center[d]) - float(mesh.region.center[d]))
                              <= 1e-9 * mesh.cell[d] else "not-centred(not-demanded)"))
    if any(abs(res.mesh.cell[a] - mesh.cell[a]) > 1e-9 * mesh.cell[a] for a in range(3)):
        ctx.fail("neighbouring_cell_angle/cell-changed", f"cell {res.mesh.cell.tolist()} vs {mesh.cell.tolist()}",
                 instance=ctx.key())
    g = got[..., 0]
    grad = np.radians(g) if un == "deg" else g
    top = 180.0 if un == "deg" else np.pi
    ctx.check(3)
    if not (np.all(g >= 0) and np.all(g <= top * (1 + 1e-15))):
        ctx.fail("neighbouring_cell_angle/out-of-range", f"angles outside [0, {top}]: min {g.min()!r} max {g.max()!r}",
                 instance=inst)
    if C.gt(np.abs(np.cos(grad) - dot).max(), 1e-12) or C.gt(np.abs(grad - ref).max(), 1e-7):
        wch = np.unravel_index(int(np.argmax(np.abs(grad - ref))), ref.shape)
        ctx.fail("neighbouring_cell_angle/not-angle-between-unit-vectors",
                 f"pair at {tuple(int(x) for x in wch)} along axis {d}: {a_[wch].tolist()} / {b_[wch].tolist()}: got "
                 f"{grad[wch]!r} rad, angle is {ref[wch]!r}", instance=inst)
    ctx.check()
    if C.field_snap(f) != before:
        ctx.fail("neighbouring_cell_angle/operand-modified", "the field was changed", instance=inst)
    if pattern == "parallel":
        ctx.note("pairs:parallel", int(ref.size))
    elif pattern == "antiparallel":
        ctx.note("pairs:antiparallel", int(ref.size))


# --------------------------------------------------------------------------
# demagnetisation


def _is_cubic(cell):
    return max(cell) - min(cell) <= 1e-12 * max(cell)


def unit_demag(ctx):
    if ctx.tier == "quick":
        ns = [(1, 1, 1), (2, 2, 2), (3, 2, 1), (4, 1, 2), (3, 3, 3)]
    else:
        ns = sorted(set(itertools.product((1, 2, 3), repeat=3)) | {(4, 1, 2), (2, 4, 1), (1, 3, 4)},
                    key=lambda t: (int(np.prod(t)), t))
    cells = [(1.0, 1.0, 1.0), (2e-9, 2e-9, 2e-9), (1.0, 2.0, 3.0), (5e-9, 1e-9, 2e-9), (2.0, 3.0, 6.0), (1.0, 4.0, 2.0)]
    n = ctx.choose("n", ns)
    cell = ctx.choose("cell", cells if ctx.tier == "thorough" else cells[:5])
    impl = ctx.choose("implementation", ["demag_tensor", "_demag_tensor_field_based"])
    cls = "cubic-cell" if _is_cubic(cell) else "anisotropic-cell"
    origin = (0.3 * cell[0], -1.0 * cell[1], 5.0 * cell[2])
    p2 = tuple(o + k * c for o, k, c in zip(origin, n, cell))
    mesh = df.Mesh(region=df.Region(p1=origin, p2=p2), n=n)
    ctx.step(1, f"{impl}({n}, {cell})")
    if impl == "demag_tensor":
        T = dft.demag_tensor(mesh)
    else:
        fb = getattr(dft_mod, "_demag_tensor_field_based", None)
        if fb is None:
            ctx.note("field-based-implementation-absent")
            return
        T = fb(mesh)
    tarr = np.asarray(T.array)
    ctx.observe(np.round(tarr, 9))
    nk = tuple(2 * k - 1 for k in n)
    ctx.check()
    if tarr.shape != nk + (6,):
        ctx.fail(f"{impl}/shape", f"tensor array {tarr.shape}, expected {nk + (6,)}")
        return
    # (a) trace: |trace| = 1 in every k-cell; its inverse transform is -delta at the centre cell
    tr = tarr[..., 0] + tarr[..., 1] + tarr[..., 2]
    dev = np.abs(np.abs(tr) - 1.0).max()
    ctx.step(1)
    real = np.asarray(T.ifftn().array)
    rtr = real[..., 0] + real[..., 1] + real[..., 2]
    delta = np.zeros(nk)
    delta[tuple(k - 1 for k in n)] = -1.0
    ctx.check(2)
    if C.gt(dev, 1e-8) or C.gt(np.abs(rtr - delta).max(), 1e-8):
        w = np.unravel_index(int(np.argmax(np.abs(rtr - delta))), nk)
        ctx.fail(f"{impl}/trace-not-minus-one/{cls}",
                 f"|trace| in [{np.abs(tr).min():.6g}, {np.abs(tr).max():.6g}] over the k-cells (must be 1); trace of the "
                 f"real-space tensor at offset {tuple(int(a) - (k - 1) for a, k in zip(w, n))} cells is "
                 f"{complex(rtr[w])!r}, expected {delta[w]!r}")
    # (b) the two implementations agree
    if impl == "_demag_tensor_field_based":
        ctx.step(1)
        T1 = np.asarray(dft.demag_tensor(mesh).array)
        ctx.check()
        if T1.shape != tarr.shape or C.gt(np.abs(T1 - tarr).max(), 1e-9 * max(1.0, np.abs(T1).max())):
            ctx.fail("demag_tensor/implementations-disagree", f"max difference {np.abs(T1 - tarr).max():.3g}")
    # (c) mean demagnetising field of the uniformly magnetised cuboid
    edges = [k * c for k, c in zip(n, cell)]
    cube = max(edges) - min(edges) <= 1e-12 * max(edges)
    if cube:
        ctx.note("cubes")
    for M in (1.0, 8e5):
        means = []
        for a in range(3):
            v = [0.0, 0.0, 0.0]
            v[a] = M
            m = df.Field(mesh, nvdim=3, value=tuple(v))
            ctx.step(1)
            H = dft.demag_field(m, T)
            hm = np.asarray(H.array).reshape(-1, 3).mean(axis=0)
            means.append(float(hm[a]))
        ctx.observe(np.round(np.array(means) / M, 9))
        ctx.check()
        if C.gt(abs(sum(means) + M), 1e-8 * M):
            ctx.fail(f"demag_field/sum-rule/{cls}", f"|M|={M}: mean H_x/M, H_y/M, H_z/M = {[x / M for x in means]} sum to "
                     f"{sum(means) / M!r}, expected -1")
        if cube:
            ctx.check()
            if C.gt(np.array([abs(x / M + 1.0 / 3.0) for x in means]), 1e-8):
                ctx.fail(f"demag_field/cube-not-one-third/{cls}", f"cube {edges}, |M|={M}: mean H_a/M = "
                         f"{[x / M for x in means]}, expected -1/3 each")


# --------------------------------------------------------------------------
# refusals


def _tools():
    return {
        "topological_charge_density:continuous": (lambda f: dft.topological_charge_density(f), {2}, {3}),
        "topological_charge_density:berg-luescher": (lambda f: dft.topological_charge_density(f, method="berg-luescher"),
                                                      {2}, {3}),
        "topological_charge:continuous": (lambda f: dft.topological_charge(f), {2}, {3}),
        "topological_charge:berg-luescher": (lambda f: dft.topological_charge(f, method="berg-luescher"), {2}, {3}),
        "emergent_magnetic_field": (lambda f: dft.emergent_magnetic_field(f), {3}, {3}),
        "count_bps": (lambda f: dft.count_bps(f, f.mesh.region.dims[0]), {3}, {3}),
        # the angle between neighbours is defined on any mesh: refusal is demanded for the component count only,
        # acceptance only on 3-D meshes (see unit_refuse)
        "neighbouring_cell_angle": (lambda f: dft.neighbouring_cell_angle(f, f.mesh.region.dims[0]), {1, 2, 3, 4}, {3}),
        "demag_tensor": (lambda f: dft.demag_tensor(f.mesh), {3}, {1, 2, 3, 4}),
        "demag_field": (lambda f: dft.demag_field(f, _TENSOR()), {3}, {3}),
    }


_T = {}


def _TENSOR():
    if "t" not in _T:
        _T["t"] = dft.demag_tensor(df.Mesh(p1=(0, 0, 0), p2=(3, 3, 3), n=(3, 3, 3)))
    return _T["t"]


def unit_refuse(ctx):
    tl = _tools()
    name = ctx.choose("tool", list(tl))
    ndim = ctx.choose("ndim", [1, 2, 3, 4])
    nv = ctx.choose("nvdim", [1, 2, 3, 4])
    fn, ok_ndim, ok_nv = tl[name]
    mesh = df.Mesh(p1=(0.0,) * ndim, p2=(3.0,) * ndim, n=(3,) * ndim)
    f = df.Field(mesh, nvdim=nv, value=C.tracer((3,) * ndim, nv, ctx.seed))
    before = C.field_snap(f)
    ctx.step(1, f"{name} on {ndim}-D mesh, {nv} components")
    r, v = C.raises(fn, f)
    ctx.observe(name, ndim, nv, r)
    inside = ndim in ok_ndim and nv in ok_nv
    ctx.check()
    if inside:
        if name == "neighbouring_cell_angle" and ndim != 3:
            ctx.note("angle-on-non-3d-mesh:" + ("refused" if r else "accepted"))  # the statement is silent
        elif r:
            ctx.fail(f"{name.split(':')[0]}/refuses-valid-input", f"{ndim}-D mesh, {nv} components: {type(v).__name__}: {v}")
    else:
        if not r:
            ctx.fail(f"{name.split(':')[0]}/accepts-wrong-dimension",
                     f"{ndim}-D mesh, {nv} components accepted (returned {type(v).__name__})")
        ctx.check()
        if C.field_snap(f) != before:
            ctx.fail(f"{name.split(':')[0]}/refusal-modified-operand", "the field was changed by the refused call")


def units(tier):
    return [
        {"name": "charge", "fn": unit_charge, "bound": None},
        {"name": "coarse", "fn": unit_coarse, "bound": None},
        {"name": "reuse", "fn": unit_reuse, "bound": None},
        {"name": "library_transforms", "fn": unit_library_transforms, "bound": None},
        {"name": "uniform", "fn": unit_uniform, "bound": None},
        {"name": "bps", "fn": unit_bps, "bound": None},
        {"name": "angles", "fn": unit_angles, "bound": None},
        {"name": "demag", "fn": unit_demag, "bound": None},
        {"name": "refuse", "fn": unit_refuse, "bound": None},
    ]
