"""C06 - integrals and means are cell sums times cell measure, consistent across axes.

Stateless exploration on the real ``Field.integrate`` / ``Field.mean`` /
``discretisedfield.integrate``:

* ``total``: integrate() = sum * dV and mean() = integrate()/volume on every
  impulse (cell x component) and a tracer, meshes {1,2,3}^ndim cells, 1-4-D.
* ``directional``: for every direction: integrate(d) (values + the mesh with
  that axis removed), integrate(d, cumulative=True) (half-cell rule, relation to
  the directional integral), mean(d) = integrate(d)/extent; every impulse.
* ``fubini``: every ordering of all directions, integrating one direction after
  the other; every partial result compared with the exact partial sum.
* ``mean_sets``: every non-empty ordered subset of the directions as list or
  tuple; result mesh and values.
* ``translation``: the same lattice at another (exactly representable) place
  gives the same numbers.
* ``reuse``: one field object used for every operation twice, real / complex /
  integer-typed values, optionally after an in-place transformation of its mesh
  (scale, translate, quarter turn) that follows a first use; operand snapshots.

The reference is exact rational arithmetic on the actual float corners.
"""
import itertools
from fractions import Fraction as Fr

import numpy as np

import discretisedfield as df
from mc import common as C

PROPERTY = "C06"
RULE = ("total / directional: full product ndim x cells-per-axis {1,2,3}^ndim x geometry x nvdim x (direction) x every "
        "impulse (cell x component) + tracer; fubini: ndim x cells x geometry x nvdim x every ordering of all directions; "
        "mean_sets: ndim x cells x geometry x nvdim x every ordered non-empty direction subset x list/tuple; "
        "translation: ndim x cells x dyadic geometry x shift x operation; reuse: ndim x shape x geometry x nvdim x value type "
        "x first use (all operations / none) x in-place transformation of the mesh (none / 2 scalings / translation / "
        "quarter turns), every operation evaluated twice on the same object. "
        "An execution is non-trivial when at least one oracle comparison ran.")
ASSUMPTIONS = [
    "scope: 1-4-D meshes with 1..3 cells per axis (4-D quick: cells per axis from {1,2}^4 plus the profiles containing a "
    "single 3), anisotropic cells (dyadic (1,0.5,2,0.25), non-dyadic (0.3,0.7,1/3,2.5) far from the origin, and "
    "3e-9 scaled), nvdim 1..4, distinct axis units and renamed axes",
    "all real field values are covered by linearity: integrate/mean have no value dependent branch (np.sum, np.cumsum, "
    "np.mean times a cell length); they are evaluated on the complete impulse basis (every cell x component) which also "
    "shows that they act per component; a tracer combination re-checks additivity",
    "fubini and mean_sets use tracer data only: each step of a chain is the directional operator decided on the full "
    "impulse basis by unit directional, applied to meshes of the same family",
    "numbers are compared with the exact rational value with relative tolerance 1e-12 (the library multiplies by the "
    "float cell = (pmax-pmin)/n, a few ulp from the exact rational cell); corners of reduced meshes within 4 ulp",
    "validity, unit, labels and bc of the results are not part of the statement and are not checked",
    "reuse: results for complex values are demanded through linearity (sums of the real and imaginary parts; the values "
    "are integers, so the sums are exact and the cell lengths are rounded once), tolerance 16e-12 relative; the field a "
    "result was computed from must be byte-identical afterwards (a later use of the same object must see the same values)",
    "translation: only translations that are exact in floating point (dyadic lattice) are demanded bit-equal; "
    "non-dyadic lattices are covered through the exact reference at each position",
]

CELLS = {
    "dyadic": ((1.0, 0.5, 2.0, 0.25), (0.5, -1.0, 5.0, 0.0), 1.0),
    "far": ((0.3, 0.7, 1.0 / 3.0, 2.5), (1e4 + 0.1, -123.456, 7.7, 1.0 / 3.0), 1.0),
    "nano": ((1.0, 0.5, 2.0, 0.25), (0.3, -1.0, 5.0, 0.1), 3e-9),
}
REL = 1e-12


def _profiles(ctx, ndim):
    allp = [list(p) for p in itertools.product([1, 2, 3], repeat=ndim)]
    allp.sort(key=lambda p: (int(np.prod(p)), p))
    if ctx.tier == "quick" and ndim == 4:
        allp = [p for p in allp if p.count(3) <= 1 and (3 not in p or p.count(2) <= 1)]
    return allp


def _mesh(n, geom, namesel):
    ndim = len(n)
    cell, org, sc = CELLS[geom]
    cell = [c * sc for c in cell[:ndim]]
    pmin = [o * sc for o in org[:ndim]]
    pmax = [p + c * k for p, c, k in zip(pmin, cell, n)]
    if namesel == "default":
        dims, units = C.DIMSETS[ndim][0], None
    else:  # renamed / permuted spelling, pairwise distinct units: a unit or name taken from the wrong axis shows
        dims, units = C.DIMSETS[ndim][2 if ndim > 1 else 1], C.UNITS_DISTINCT[:ndim]
    return df.Mesh(region=df.Region(p1=pmin, p2=pmax, dims=dims, units=units), n=n)


def _exact_cell(mesh):
    return [(Fr(float(b)) - Fr(float(a))) / int(k) for a, b, k in zip(mesh.region.pmin, mesh.region.pmax, mesh.n)]


def _probe_domain(n, nvdim):
    ncell = int(np.prod(n))
    return ["tracer"] + [(i, c) for i in range(ncell) for c in range(nvdim)]


def _values(ctx, n, nvdim, probe):
    if probe == "tracer":
        return C.tracer(n, nvdim, ctx.seed)
    v = np.zeros((int(np.prod(n)), nvdim))
    v[probe[0], probe[1]] = 1.0
    return v.reshape(list(n) + [nvdim])


def _num_ok(got, exact_arr, mag_arr):
    """got (float array) vs exact (object array of Fractions); mag = sum of |terms| (float array)"""
    got = np.asarray(got, dtype=float)
    exp = np.array([float(x) for x in exact_arr.ravel()]).reshape(exact_arr.shape)
    if got.shape != exp.shape:
        return False, f"shape {got.shape} expected {exp.shape}"
    err = np.abs(got - exp)
    tol = REL * np.asarray(mag_arr, dtype=float) + 5e-324
    if C.gt(err, tol):
        w = tuple(int(i) for i in np.argwhere(~(err <= tol))[0])
        return False, f"at {w}: got {got[w]!r} exact {exp[w]!r}"
    return True, ""


def _frac_sum(vals, axes):
    """exact sum of an integer valued float array over axes, as object array of Fractions"""
    s = np.sum(vals, axis=tuple(axes))  # integer valued, exact in float64
    out = np.empty(s.shape, dtype=object)
    for idx in np.ndindex(*s.shape):
        out[idx] = Fr(float(s[idx]))
    if s.shape == ():
        out = np.array(Fr(float(s)), dtype=object)
    return out


def _check_reduced_mesh(ctx, sig, res, mesh, removed, inst):
    """res.mesh must be ``mesh`` with the axes ``removed`` taken out (corners, n, names, units of the rest)"""
    keep = [k for k in range(mesh.region.ndim) if k not in removed]
    ctx.check()
    rm = res.mesh
    ok = (rm.region.ndim == len(keep) and [int(i) for i in rm.n] == [int(mesh.n[k]) for k in keep]
          and list(rm.region.dims) == [mesh.region.dims[k] for k in keep]
          and list(rm.region.units) == [mesh.region.units[k] for k in keep])
    if ok:
        for j, k in enumerate(keep):
            for got, ref in ((rm.region.pmin[j], mesh.region.pmin[k]), (rm.region.pmax[j], mesh.region.pmax[k])):
                if C.gt(abs(float(got) - float(ref)), 4 * C.ulp(max(abs(float(ref)), float(mesh.region.edges[k])))):
                    ok = False
    if not ok:
        ctx.fail(sig, f"axes {[mesh.region.dims[k] for k in removed]} removed from n={list(mesh.n)} dims={mesh.region.dims} "
                 f"units={mesh.region.units} pmin={list(mesh.region.pmin)} pmax={list(mesh.region.pmax)}: got n={list(rm.n)} "
                 f"dims={rm.region.dims} units={rm.region.units} pmin={list(rm.region.pmin)} pmax={list(rm.region.pmax)}",
                 instance=inst)
    return ok


def _setup(ctx, ndims=(1, 2, 3, 4), nvdims=(1, 2, 3, 4), geoms=("dyadic", "far", "nano")):
    ndim = ctx.choose("ndim", list(ndims))
    n = ctx.choose("n", _profiles(ctx, ndim))
    geom = ctx.choose("geom", list(geoms))
    names = ctx.choose("names", ["default", "distinct"])
    nvdim = ctx.choose("nvdim", list(nvdims))
    mesh = _mesh(n, geom, names)
    return ndim, n, geom, nvdim, mesh


# --------------------------------------------------------------------------------------------------------------------
def unit_total(ctx):
    quick = ctx.tier == "quick"
    ndim, n, geom, nvdim, mesh = _setup(ctx, geoms=("dyadic", "far") if quick else ("dyadic", "far", "nano"),
                                        nvdims=(1, 3) if quick else (1, 2, 3, 4))
    probe = ctx.choose("probe", _probe_domain(n, nvdim))
    vals = _values(ctx, n, nvdim, probe)
    f = df.Field(mesh, nvdim=nvdim, value=vals)
    inst = ctx.key(drop=("geom", "names"))
    cell = _exact_cell(mesh)
    dV = Fr(1)
    for c in cell:
        dV *= c
    vol = dV * int(np.prod(n))
    axes = range(ndim)
    ex = _frac_sum(vals, axes) * dV
    mag = np.sum(np.abs(vals), axis=tuple(axes)) * float(dV)
    ctx.step(1, "integrate()")
    tot = f.integrate()
    ctx.observe(np.asarray(tot))
    ctx.check()
    ok, why = _num_ok(tot, ex, mag)
    if not ok:
        ctx.fail("Field.integrate()/not-sum-times-cell-volume", why, instance=inst)
    ctx.step(1, "df.integrate(f)")
    tot2 = df.integrate(f)
    ctx.check()
    if not C.same_bytes(np.asarray(tot2), np.asarray(tot)):
        ctx.fail("discretisedfield.integrate/differs-from-method", f"{tot2!r} vs {tot!r}", instance=inst)
    ctx.step(1, "mean()")
    m = f.mean()
    ctx.observe(np.asarray(m))
    ctx.check()
    exm = ex / vol
    ok, why = _num_ok(m, exm, mag / float(vol))
    if not ok:
        ctx.fail("Field.mean()/not-integral-over-volume", why, instance=inst)


def unit_directional(ctx):
    quick = ctx.tier == "quick"
    ndim, n, geom, nvdim, mesh = _setup(ctx, geoms=("far",) if quick else ("dyadic", "far", "nano"),
                                        nvdims=(1, 3) if quick else (1, 2, 3, 4))
    ax = ctx.choose("direction", list(range(ndim)))
    probe = ctx.choose("probe", _probe_domain(n, nvdim))
    vals = _values(ctx, n, nvdim, probe)
    f = df.Field(mesh, nvdim=nvdim, value=vals)
    d = mesh.region.dims[ax]
    inst = ctx.key(drop=("geom", "names"))
    h = _exact_cell(mesh)[ax]
    extent = h * int(n[ax])
    ex = _frac_sum(vals, [ax]) * h
    mag = np.sum(np.abs(vals), axis=ax) * float(h)
    # --- directional integral
    ctx.step(1, f"integrate({d})")
    r = f.integrate(d)
    if ndim == 1:
        # no 0-dimensional mesh exists: the number(s) themselves
        got = np.asarray(r.array if isinstance(r, df.Field) else r)
        got = got.reshape(nvdim) if got.size == nvdim else got
    else:
        ctx.check()
        if not isinstance(r, df.Field):
            ctx.fail("Field.integrate(dir)/not-a-field", f"returned {type(r).__name__}", instance=inst)
            return
        _check_reduced_mesh(ctx, "Field.integrate(dir)/result-mesh-is-not-the-mesh-without-that-axis", r, mesh, [ax], inst)
        got = r.array
    ctx.observe(got)
    ctx.check()
    ok, why = _num_ok(got, ex, mag)
    if not ok:
        ctx.fail("Field.integrate(dir)/not-sum-along-axis-times-cell-length", why, instance=inst)
    ctx.step(1, "df.integrate(f, dir)")
    r2 = df.integrate(f, d)
    ctx.check()
    if not C.same_bytes(np.asarray(r2.array if isinstance(r2, df.Field) else r2), np.asarray(r.array if isinstance(r, df.Field) else r)):
        ctx.fail("discretisedfield.integrate/differs-from-method", "directional", instance=inst)
    # --- cumulative integral
    ctx.step(1, f"integrate({d}, cumulative=True)")
    c = f.integrate(d, cumulative=True)
    ctx.check()
    if not (isinstance(c, df.Field) and c.mesh == mesh and list(c.mesh.region.dims) == list(mesh.region.dims)
            and c.array.shape == vals.shape):
        ctx.fail("Field.integrate(cumulative)/result-not-on-the-same-mesh", f"{c!r}", instance=inst)
    else:
        ctx.observe(c.array)
        mv = np.moveaxis(vals, ax, 0)
        exc = np.empty(mv.shape, dtype=object)
        magc = np.zeros(mv.shape)
        run = np.zeros(mv.shape[1:])
        runabs = np.zeros(mv.shape[1:])
        for i in range(mv.shape[0]):
            cur = run + mv[i] / 2.0  # integer/half-integer valued: exact in float64
            for idx in np.ndindex(*cur.shape):
                exc[(i,) + idx] = Fr(float(cur[idx])) * h
            magc[i] = (runabs + np.abs(mv[i]) / 2.0) * float(h)
            run = run + mv[i]
            runabs = runabs + np.abs(mv[i])
        exc = np.moveaxis(exc, 0, ax)
        magc = np.moveaxis(magc, 0, ax)
        ctx.check()
        ok, why = _num_ok(c.array, exc, magc)
        if not ok:
            ctx.fail("Field.integrate(cumulative)/not-preceding-cells-plus-half-own-cell", why, instance=inst)
        # last entry + half the last cell = directional integral (both from the library)
        last = np.take(c.array, -1, axis=ax) + 0.5 * float(mesh.cell[ax]) * np.take(vals, -1, axis=ax)
        ctx.check()
        if C.gt(np.abs(last - np.asarray(got).reshape(last.shape)), 16 * REL * mag.reshape(last.shape) + 5e-324):
            ctx.fail("Field.integrate(cumulative)/last-entry-plus-half-cell-differs-from-directional-integral",
                     f"{last.ravel()[:4].tolist()} vs {np.asarray(got).ravel()[:4].tolist()}", instance=inst)
    # --- directional mean, string form and one-element list form
    exm = ex / extent
    for form, arg in (("str", d), ("list", [d]), ("tuple", (d,))):
        ctx.step(1, f"mean({arg!r})")
        raised, m = C.raises(f.mean, arg)
        ctx.check()
        if raised:
            ctx.fail(f"Field.mean({form})/raises" + ("/1-D-mesh" if ndim == 1 else ""),
                     f"mean({arg!r}) on n={list(n)}: {type(m).__name__}: {m}", instance=inst)
            continue
        if ndim == 1:
            gm = np.asarray(m.array if isinstance(m, df.Field) else m)
            gm = gm.reshape(nvdim) if gm.size == nvdim else gm
        else:
            ctx.check()
            if not isinstance(m, df.Field):
                ctx.fail(f"Field.mean({form})/not-a-field", f"returned {type(m).__name__}", instance=inst)
                continue
            _check_reduced_mesh(ctx, f"Field.mean({form})/result-mesh-is-not-the-mesh-without-that-axis", m, mesh, [ax], inst)
            gm = m.array
        ctx.observe(gm)
        ctx.check()
        ok, why = _num_ok(gm, exm, mag / float(extent))
        if not ok:
            ctx.fail(f"Field.mean({form})/not-directional-integral-over-extent", why, instance=inst)


def unit_fubini(ctx):
    quick = ctx.tier == "quick"
    ndim, n, geom, nvdim, mesh = _setup(ctx, nvdims=(1, 3) if quick else (1, 2, 3, 4),
                                        geoms=("far",) if quick else ("dyadic", "far", "nano"))
    order = ctx.choose("order", list(itertools.permutations(range(ndim))))
    vals = C.tracer(n, nvdim, ctx.seed)
    f = df.Field(mesh, nvdim=nvdim, value=vals)
    inst = ctx.key(drop=("geom", "names"))
    cell = _exact_cell(mesh)
    ctx.step(1, "integrate()")
    total = np.asarray(f.integrate())
    cur = f
    removed = []
    fac = Fr(1)
    for ax in order:
        d = mesh.region.dims[ax]
        ctx.step(1, f"integrate({d})")
        cur = cur.integrate(d)
        removed.append(ax)
        fac *= cell[ax]
        ex = _frac_sum(vals, removed) * fac
        mag = np.sum(np.abs(vals), axis=tuple(removed)) * float(fac)
        if len(removed) < ndim:
            ctx.check()
            if not isinstance(cur, df.Field):
                ctx.fail("Field.integrate(dir)/not-a-field", f"after {removed}: {type(cur).__name__}", instance=inst)
                return
            if not _check_reduced_mesh(ctx, "Field.integrate(dir)/result-mesh-is-not-the-mesh-without-that-axis", cur, mesh,
                                       removed, inst):
                return
            got = cur.array
        else:
            got = np.asarray(cur.array if isinstance(cur, df.Field) else cur)
            got = got.reshape(nvdim) if got.size == nvdim else got
        ctx.check()
        ok, why = _num_ok(got, ex, mag)
        if not ok:
            ctx.fail("Field.integrate(dir)/chain/partial-integral-wrong", f"after directions {[mesh.region.dims[k] for k in removed]}: {why}",
                     instance=inst)
            return
    ctx.observe(got)
    ctx.check()
    magt = np.sum(np.abs(vals), axis=tuple(range(ndim))) * float(fac)
    if got.shape != total.shape or C.gt(np.abs(got - total), 16 * REL * magt):
        ctx.fail("Field.integrate/direction-by-direction-differs-from-volume-integral",
                 f"order {[mesh.region.dims[k] for k in order]}: {got.tolist()} vs integrate() = {total.tolist()}", instance=inst)


def unit_mean_sets(ctx):
    quick = ctx.tier == "quick"
    ndim, n, geom, nvdim, mesh = _setup(ctx, nvdims=(1, 3) if quick else (1, 2, 3, 4),
                                        geoms=("far",) if quick else ("dyadic", "far"))
    subsets = [p for r in range(1, ndim + 1) for p in itertools.permutations(range(ndim), r)]
    sub = ctx.choose("directions", subsets)
    form = ctx.choose("form", ["list", "tuple"])
    # storage type of the values: an integer-typed field has non-integer means (the REAL part is what is judged below;
    # complex values are covered by unit reuse)
    dt = ctx.choose("dtype", ["float", "int"]) if (nvdim == 1 and ndim <= 3) or ctx.tier == "thorough" else "float"
    vals = C.tracer(n, nvdim, ctx.seed)
    f = df.Field(mesh, nvdim=nvdim, value=vals if dt == "float" else vals.astype(int), dtype=float if dt == "float" else int)
    inst = ctx.key(drop=("geom", "names"))
    cell = _exact_cell(mesh)
    names = [mesh.region.dims[k] for k in sub]
    arg = names if form == "list" else tuple(names)
    ctx.step(1, f"mean({arg!r})")
    raised, m = C.raises(f.mean, arg)
    ctx.check()
    if raised:
        ctx.fail(f"Field.mean({form})/raises", f"mean({arg!r}) on n={list(n)}: {type(m).__name__}: {m}", instance=inst)
        return
    cnt = 1
    for k in sub:
        cnt *= int(n[k])
    ex = _frac_sum(vals, sub) / cnt  # integral / extent = sum*prod(cell) / (prod(cell)*prod(n))
    mag = np.sum(np.abs(vals), axis=tuple(sub)) / cnt
    if len(sub) == ndim:
        gm = np.asarray(m.array if isinstance(m, df.Field) else m)
        gm = gm.reshape(nvdim) if gm.size == nvdim else gm
        ctx.step(1, "mean()")
        ctx.check()
        if not C.eq_nan(np.asarray(f.mean()).reshape(gm.shape), gm):
            ctx.fail("Field.mean(all directions named)/differs-from-mean()", f"{gm.tolist()} vs {np.asarray(f.mean()).tolist()}",
                     instance=inst)
    else:
        ctx.check()
        if not isinstance(m, df.Field):
            ctx.fail(f"Field.mean({form})/not-a-field", f"returned {type(m).__name__}", instance=inst)
            return
        if not _check_reduced_mesh(ctx, f"Field.mean({form})/result-mesh-is-not-the-mesh-without-those-axes", m, mesh,
                                   list(sub), inst):
            return
        gm = m.array
    ctx.observe(gm)
    ctx.check()
    ok, why = _num_ok(gm, ex, mag)
    if not ok:
        ctx.fail(f"Field.mean({form})/not-sum-over-those-axes-divided-by-count", why, instance=inst)
        return
    # the same number through the integrals: integrate direction by direction, divide by the extents
    cur = f
    ext = 1.0
    for k in sub:
        ctx.step(1)
        cur = cur.integrate(mesh.region.dims[k])
        ext *= float(mesh.region.edges[k])
    gi = np.asarray(cur.array if isinstance(cur, df.Field) else cur)
    gi = gi.reshape(gm.shape) if gi.size == gm.size else gi
    ctx.check()
    if gi.shape != gm.shape or C.gt(np.abs(gi / ext - gm), 16 * REL * mag + 5e-324):
        ctx.fail(f"Field.mean({form})/differs-from-integral-over-extent", f"{(gi / ext).ravel()[:4].tolist()} vs {gm.ravel()[:4].tolist()}",
                 instance=inst)


SHIFTS = [(1024.0, -512.0, 64.0, 4096.0), (-3.0, 0.5, 1e6, -0.25)]


def unit_translation(ctx):
    """dyadic lattice: a translation by dyadic amounts is exact in floating point (corners, edges, cells), so
    every number must be bit-identical at both places"""
    ndim = ctx.choose("ndim", [1, 2, 3, 4])
    n = ctx.choose("n", [[3, 2, 1, 2][:ndim], [2, 3, 3, 1][:ndim]])
    nvdim = ctx.choose("nvdim", [1, 3])
    shift = ctx.choose("shift", SHIFTS)[:ndim]
    ops = [("integrate", None, False), ("mean", None, False)]
    for k in range(ndim):
        ops += [("integrate", k, False), ("integrate", k, True), ("mean", k, False)]
    ops += [("mean", tuple(s), False) for r in range(2, ndim) for s in itertools.permutations(range(ndim), r)]
    name, arg, cum = ctx.choose("op", ops)
    m0 = _mesh(n, "dyadic", "default")
    pmin = [float(p) + s for p, s in zip(m0.region.pmin, shift)]
    pmax = [float(p) + s for p, s in zip(m0.region.pmax, shift)]
    # exactness of the translation, checked not assumed
    if any(Fr(a) - Fr(float(b)) != Fr(s) for a, b, s in zip(pmin, m0.region.pmin, shift)) or \
            any(Fr(a) - Fr(float(b)) != Fr(s) for a, b, s in zip(pmax, m0.region.pmax, shift)):
        raise RuntimeError("harness: translation not exact")
    m1 = df.Mesh(region=df.Region(p1=pmin, p2=pmax, dims=m0.region.dims), n=n)
    vals = C.tracer(n, nvdim, ctx.seed)
    res = []
    for mesh in (m0, m1):
        f = df.Field(mesh, nvdim=nvdim, value=vals)
        dims = mesh.region.dims
        ctx.step(1, f"{name}({arg}, cumulative={cum})")
        if name == "integrate":
            raised, r = C.raises(f.integrate, None if arg is None else dims[arg], cum)
        elif arg is None:
            raised, r = C.raises(f.mean)
        elif isinstance(arg, tuple):
            raised, r = C.raises(f.mean, [dims[k] for k in arg])
        else:
            raised, r = C.raises(f.mean, [dims[arg]])
        if raised:
            res.append(("raised", type(r).__name__))
        else:
            res.append(np.asarray(r.array if isinstance(r, df.Field) else r))
    ctx.check()
    a, b = res
    ctx.observe(a if not isinstance(a, tuple) else a[0])
    if isinstance(a, tuple) or isinstance(b, tuple):
        if isinstance(a, tuple) != isinstance(b, tuple):
            ctx.fail("integrate-mean/depends-on-mesh-position", f"{a!r} at the origin mesh, {b!r} at the translated one")
        else:
            ctx.fail("unexpected-exception/integrate-mean", f"{a!r}")
    elif not C.same_bytes(a, b):
        ctx.fail("integrate-mean/depends-on-mesh-position", f"{name}({arg}, cumulative={cum}): {a.ravel()[:4].tolist()} vs "
                 f"{b.ravel()[:4].tolist()} after an exact translation by {shift}")

# --------------------------------------------------------------------------------------------------------------------
def _raw(r, nvdim):
    a = np.asarray(r.array if isinstance(r, df.Field) else r)
    return a


def _ops_expected(arr, mesh, true=True):
    """every operation of the property on the CURRENT geometry of ``mesh`` for the values ``arr`` (integer-valued real
    or complex data: the sums are exact in floating point; the cell lengths are the exact rational ones rounded once).
    Returns {name: (call, expected array, magnitude array)}"""
    nd = len(mesh.n)
    dims = mesh.region.dims
    cell = [float(c) for c in _exact_cell(mesh)]
    n = [int(k) for k in mesh.n]
    dV = float(np.prod([Fr(c) for c in _exact_cell(mesh)]))
    vol = dV * int(np.prod(n))
    a = np.abs(arr)
    out = {}
    allax = tuple(range(nd))
    out["integrate()"] = (lambda f: f.integrate(), np.sum(arr, axis=allax) * dV, np.sum(a, axis=allax) * dV)
    out["mean()"] = (lambda f: f.mean(), np.sum(arr, axis=allax) * dV / vol, np.sum(a, axis=allax) * dV / vol)
    for k in range(nd):
        d, h = dims[k], cell[k]
        out[f"integrate({d})"] = (lambda f, d=d: f.integrate(d), np.sum(arr, axis=k) * h, np.sum(a, axis=k) * h)
        out[f"mean({d})"] = (lambda f, d=d: f.mean(d), np.sum(arr, axis=k) * h / (h * n[k]), np.sum(a, axis=k) / n[k])
        cum = (np.cumsum(arr, axis=k) - arr / 2.0) * h
        out[f"integrate({d},cumulative)"] = (lambda f, d=d: f.integrate(d, cumulative=true), cum,
                                             np.cumsum(a, axis=k) * h)
    return out


def unit_reuse(ctx):
    """The same field OBJECT is used again and again (every operation of the property, twice), its values may be
    complex or integer-typed, and its mesh may have been transformed in place after the first use: every number must
    be the one the exact formula gives for the geometry and values the field has at that moment, and no operation may
    change the field.  (Non-initial states: results must not depend on what was computed with the object before.)"""
    quick = ctx.tier == "quick"
    ndim = ctx.choose("ndim", [1, 2, 3])
    shapes = {1: [[1], [3]], 2: [[1, 3], [3, 2], [2, 1]], 3: [[2, 1, 3], [3, 2, 1], [1, 3, 2], [2, 3, 2]]}[ndim]
    n = ctx.choose("n", shapes if not quick else shapes[:3])
    geom = ctx.choose("geom", ["far", "nano"] if not quick else ["far"])
    nvdim = ctx.choose("nvdim", [1, 3 if ndim == 3 else 2])  # vector fields with a default component-to-axis mapping
    dt = ctx.choose("dtype", ["float", "complex", "int"])
    warm = ctx.choose("first-use", ["all-operations", "none"])
    mesh = _mesh(n, geom, "distinct")
    dims = mesh.region.dims
    L = float(np.max(mesh.region.edges))
    tr = [None, ("scale", 2.0), ("scale", tuple(([2.0, 0.5, 3.0])[:ndim])), ("translate", tuple(([0.75 * L, -2 * L, L])[:ndim]))]
    if ndim >= 2:
        tr += [("rotate90", dims[0], dims[1]), ("rotate90", dims[-1], dims[0])]
    transform = ctx.choose("then-in-place", tr)
    vals = C.tracer(n, nvdim, ctx.seed)
    if dt == "complex":
        vals = vals + 1j * C.tracer(n, nvdim, ctx.seed + 1)[..., ::-1]
    elif dt == "int":
        vals = vals.astype(int)
    f = df.Field(mesh, nvdim=nvdim, value=vals, dtype={"float": float, "complex": complex, "int": int}[dt])
    inst = ctx.key(drop=("geom",))

    def run_all(tag):
        exp = _ops_expected(np.array(f.array), f.mesh)
        for rep in (1, 2):
            for name, (call, ex, mag) in exp.items():
                before = C.field_snap(f)
                ctx.step(1, name)
                raised, r = C.raises(call, f)
                ctx.check(2)
                if raised:
                    ctx.fail(f"reuse/{tag}/raises", f"{name}: {type(r).__name__}: {str(r)[:150]}", instance=inst)
                    continue
                if C.field_snap(f) != before:
                    ctx.fail("reuse/operation-modified-the-field", f"{name} ({tag}, use {rep}) changed the field it was "
                             f"called on (values / validity / mesh)", instance=inst)
                    return False
                got = _raw(r, nvdim)
                if got.size != np.asarray(ex).size:
                    ctx.fail(f"reuse/{tag}/result-shape", f"{name}: shape {got.shape}, expected {np.asarray(ex).shape}", instance=inst)
                    continue
                got = got.reshape(np.asarray(ex).shape)
                ctx.observe(np.round(np.abs(got) / (np.max(np.abs(ex)) or 1.0), 9))
                if C.gt(np.abs(got - ex), 16 * REL * np.asarray(mag) + 5e-324):
                    w = tuple(int(i) for i in np.argwhere(~(np.abs(got - ex) <= 16 * REL * np.asarray(mag) + 5e-324))[0])
                    ctx.fail(f"reuse/{tag}/{name.split('(')[0]}-wrong" + ("/complex-values" if dt == "complex" else ""),
                             f"{name} (use {rep}, {dt} values): at {w} got {got[w]!r} expected {np.asarray(ex)[w]!r}", instance=inst)
                    return False
        return True

    if warm == "all-operations":
        if not run_all("first-use"):
            return
        # the user relabels / overwrites a RESULT: the field it was computed from is not touched by that
        if nvdim > 1 and len(n) > 1:
            r = f.integrate(mesh.region.dims[0])
            snap = C.field_snap(f)
            try:
                r.vdims = [f"w{i}" for i in range(nvdim)]
                r.array[...] = 0.0
            except Exception as e:
                ctx.note(f"relabelling-a-result-refused:{type(e).__name__}")
            ctx.check()
            if C.field_snap(f) != snap:
                ctx.fail("reuse/field-changed-through-a-result", f"after relabelling / overwriting integrate({mesh.region.dims[0]}) "
                         f"the field has vdims {f.vdims} mapping {f.vdim_mapping}", instance=inst)
                return
    if transform is not None:
        ctx.step(1, f"in place: {transform}")
        if transform[0] == "scale":
            f.mesh.scale(transform[1], inplace=True)
        elif transform[0] == "translate":
            f.mesh.translate(transform[1], inplace=True)
        else:
            f.rotate90(transform[1], transform[2], inplace=True)
    if transform is not None or warm == "none":
        run_all("after-in-place-transformation" if transform is not None else "first-use")

def unit_settings(ctx):
    """mesh settings that do not enter the numbers: boundary conditions (periodic, 'neumann', 'dirichlet') combined with
    dimension names that are letters of those keywords, distinct units per axis.  Every operation must still work, give
    the exact numbers and live on the mesh with the integrated axis removed (names AND units of the remaining axes)."""
    ndim = ctx.choose("ndim", [2, 3, 4, 1])
    names = ctx.choose("dims", [("x", "y", "z", "t"), ("a", "e", "n", "d"), ("i", "r", "c", "h")])[:ndim]
    bc = ctx.choose("bc", ["", "neumann", "dirichlet", "periodic-first-axis", "periodic-all-axes"])
    n = [3, 2, 2, 1][:ndim]
    cell = [0.5, 2.0, 0.25, 1.5][:ndim]
    pmin = [0.25, -1.0, 3.0, 0.0][:ndim]
    pmax = [a + c * k for a, c, k in zip(pmin, cell, n)]
    units = C.UNITS_DISTINCT[:ndim]
    bcs = {"": "", "neumann": "neumann", "dirichlet": "dirichlet", "periodic-first-axis": names[0], "periodic-all-axes": "".join(names)}[bc]
    mesh = df.Mesh(region=df.Region(p1=pmin, p2=pmax, dims=names, units=units), n=n, bc=bcs)
    vals = C.tracer(n, 2, ctx.seed)
    # validity is not part of a sum: every cell counts with the value it holds, whatever the mask says
    mask = ctx.choose("valid", ["all", "coded-mask", "no-cell"])
    valid = {"all": True, "coded-mask": C.coded_mask(tuple(n), 3), "no-cell": False}[mask]
    # the cumulative flag in the representations a true value arrives in (a comparison of arrays gives numpy.bool_)
    flag = ctx.choose("cumulative-flag", ["True", "numpy.True_", "1"])
    true = {"True": True, "numpy.True_": np.bool_(True), "1": 1}[flag]
    f = df.Field(mesh, nvdim=2, value=vals, valid=valid)
    inst = ctx.key()
    for name, (call, ex, mag) in _ops_expected(np.array(f.array), f.mesh, true).items():
        ctx.step(1, name)
        raised, r = C.raises(call, f)
        ctx.check(2)
        if raised:
            ctx.fail("settings/operation-raises", f"{name} on dims {names} with bc {bcs!r}: {type(r).__name__}: {str(r)[:150]}", instance=inst)
            return
        got = _raw(r, 2)
        if got.size != np.asarray(ex).size or C.gt(np.abs(got.reshape(np.asarray(ex).shape) - ex), 16 * REL * np.asarray(mag) + 5e-324):
            ctx.fail("settings/number-wrong", f"{name} on dims {names} with bc {bcs!r}", instance=inst)
            return
        ctx.observe(np.round(got.ravel() / (np.max(np.abs(ex)) or 1.0), 9))
        if isinstance(r, df.Field) and ndim > 1 and "cumulative" not in name and name not in ("integrate()", "mean()"):
            d = name[name.index("(") + 1:name.index(")")]
            k = list(names).index(d)
            rest = [i for i in range(ndim) if i != k]
            ctx.check()
            if tuple(r.mesh.region.dims) != tuple(names[i] for i in rest) or tuple(r.mesh.region.units) != tuple(units[i] for i in rest):
                ctx.fail("settings/result-mesh-names-or-units", f"{name}: result has dims {r.mesh.region.dims} units "
                         f"{r.mesh.region.units}; the remaining axes are {[names[i] for i in rest]} with units {[units[i] for i in rest]}",
                         instance=inst)
                return


def unit_long_axis(ctx):
    """axes far longer than anything above (1300 and 70000 cells): whatever the library does in blocks or chunks, the
    running sum, the directional integral and the mean are still the sums the statement names"""
    n = ctx.choose("n", [(1300,), (1300, 2), (2, 1300), (3, 2, 1300), (70000,)])
    nvdim = ctx.choose("nvdim", [1, 2])
    dt = ctx.choose("dtype", ["float", "int"])
    ndim = len(n)
    cell = [0.5, 2.0, 0.25][:ndim]
    pmin = [0.25, -1.0, 3.0][:ndim]
    mesh = df.Mesh(region=df.Region(p1=pmin, p2=[a + c * k for a, c, k in zip(pmin, cell, n)]), n=n)
    idx = np.arange(int(np.prod(n))).reshape(n)
    vals = np.stack([((7 * idx + 3 * c) % 11 - 5).astype(float) for c in range(nvdim)], axis=-1)  # small integers: exact sums
    f = df.Field(mesh, nvdim=nvdim, value=vals if dt == "float" else vals.astype(int), dtype=float if dt == "float" else int)
    inst = ctx.key()
    for name, (call, ex, mag) in _ops_expected(vals, mesh).items():
        ctx.step(1, name)
        raised, r = C.raises(call, f)
        ctx.check(2)
        if raised:
            ctx.fail("long-axis/operation-raises", f"{name} on n={n}: {type(r).__name__}: {str(r)[:150]}", instance=inst)
            return
        got = _raw(r, nvdim)
        ex = np.asarray(ex)
        if got.size != ex.size or C.gt(np.abs(got.reshape(ex.shape) - ex), 16 * REL * np.asarray(mag) + 5e-324):
            bad = np.argwhere(~(np.abs(got.reshape(ex.shape) - ex) <= 16 * REL * np.asarray(mag) + 5e-324)) if got.size == ex.size else []
            ctx.fail("long-axis/number-wrong", f"{name} on n={n}: first wrong entry at {bad[0].tolist() if len(bad) else '?'}", instance=inst)
            return
    ctx.observe(n, nvdim)


def units(tier):
    return [
        {"name": "total", "fn": unit_total, "bound": None},
        {"name": "directional", "fn": unit_directional, "bound": None},
        {"name": "fubini", "fn": unit_fubini, "bound": None},
        {"name": "mean_sets", "fn": unit_mean_sets, "bound": None},
        {"name": "translation", "fn": unit_translation, "bound": None},
        {"name": "long_axis", "fn": unit_long_axis, "bound": None},
        {"name": "reuse", "fn": unit_reuse, "bound": None},
        {"name": "settings", "fn": unit_settings, "bound": None},
    ]
