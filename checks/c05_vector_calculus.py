"""C05 - grad, div, curl and Laplacian are the textbook combinations of the
directional derivatives, paired through the component-to-axis mapping.

Stateless exploration on the real ``Field.grad / div / curl / laplace``:

* ``poly_scalar`` / ``poly_vector``: the complete monomial basis of polynomial
  fields of degree <= 2 (per component x monomial) on 1-4-D meshes with 3 or 4
  cells per axis, anisotropic cells, every permutation of the mapping, default /
  renamed / cyclically permuted dimension names, default / custom labels; the
  reference differentiates the basis analytically and reads operand AND result
  through their mappings (component <-> axis), never through position or label.
* ``value_types``: complex and integer-typed fields through all four operators,
  against the operators' own results on the real / imaginary parts (linearity).
* ``reuse``: a derived field is relabelled / re-mapped / overwritten by the user, then the operators are evaluated
  on the original again: same result, original untouched.
* ``identities``: curl(grad f) = 0 and div(curl v) = 0 on every impulse of every
  fully valid 3-D mesh with 1..3 (4) cells per axis, open / periodic.
* ``rotation``: op(rotate90(f)) == rotate90(op(f)) for every ordered axis pair,
  k = 1,2,3, every mapping permutation, with and without invalid cells and
  periodic directions.
* ``refusals``: grad of a vector, div with nvdim != ndim, curl off 3x3, mapping
  missing or naming a non-axis.
"""
import itertools

import numpy as np

import discretisedfield as df
from mc import common as C

PROPERTY = "C05"
RULE = ("poly_scalar: full product ndim(1-4) x cells-per-axis profile x dimension names x geometry x periodic axis x "
        "monomial(deg<=2); poly_vector: full product ndim x dimension names x labels x EVERY mapping permutation x geometry "
        "variant (a list: cells per axis / origin+scale / periodic axis) x component x monomial; combination: full product "
        "ndim x operator x every mapping permutation x key order of the mapping dict x names x periodic x validity mask x every impulse (cell x component) "
        "+ tracer; value_types: full product ndim x operator x 2 mappings x {complex, int} x periodic x validity mask; identities: full product of n in {1..3 (thorough 1..4)}^3 x periodic x geometry x mapping permutation x "
        "every impulse + tracer; rotation: full product ndim x operator x every mapping permutation x labels x names x "
        "ordered axis pair x k in 1..3 x periodic axis x validity mask; refusals: full product operator x misfit case. "
        "An execution is non-trivial when at least one oracle comparison ran.")
ASSUMPTIONS = [
    "scope: polynomial exactness on 1-4-D meshes with 3 or 4 cells per axis (cells (1,0.5,2,0.25)*scale, scale 1 or 3e-9, "
    "origin near or far); combination on meshes 5 / 4x3 / 4x3x2 / 3x2x2x2; identities on 3-D meshes with 1..3 (thorough "
    "1..4) cells per axis; rotations on 4x3 / 4x3x5 / 4x3x3x2 (4-D in thorough only)",
    "all real field values are covered by linearity: the four operators are sums of Field.diff results (no value "
    "dependent branch; C04 decides diff itself); unit combination compares them with the textbook combination of the "
    "library's own diff results on the COMPLETE impulse basis (every cell x component), with invalid cells and a periodic "
    "direction; a tracer combination re-checks additivity",
    "'the directional derivatives' of the statement are Field.diff(order=1) for grad/div/curl and Field.diff(order=2) for "
    "the Laplacian (the anchored mechanism)",
    "polynomial exactness with one periodic axis is demanded only for monomials that do not depend on that axis "
    "(other polynomials are not periodic functions)",
    "comparisons: relative 1e-9 of max|f|/cell^order (+|expected|) for polynomials and rotations, 1e-12 for the "
    "combination; identities: 1e-11 * 16*max|f|/(cell_a*cell_b)",
    "a vector result is read through ITS OWN mapping (component mapped to axis d); when a result carries no bijective "
    "mapping the comparison falls back to position (dims order for grad/curl, operand order for laplace)",
    "identities: the impulse basis is closed under relabelling of components, so quick uses 2 of the 6 mapping "
    "permutations there (the pairing itself is decided for all permutations by poly_vector / combination)",
    "refusal is demanded from div and curl for a missing mapping or one naming a non-axis, from grad for nvdim>1, from "
    "div for nvdim!=ndim, from curl unless nvdim=ndim=3; the component-wise Laplacian is not required to refuse; a "
    "non-bijective mapping accepted by div is only counted (note), the statement does not clearly demand refusal",
    "rotation with a periodic direction: a quarter turn by odd k that has exactly one periodic axis in its plane must "
    "carry the periodicity to the other plane axis (reported under its own signature when the mesh's bc did not turn)",
    "validity, unit and labels of the results are not part of the statement (C08) and are not checked",
]

CELL = (1.0, 0.5, 2.0, 0.25)
ORIGINS = {"near": (0.3, -1.0, 5.0, 0.0), "far": (-123.456, 7.7, 1e4 + 0.1, 1.0 / 3.0)}
GEOMS = [("near", 1.0), ("far", 1.0), ("near", 3e-9)]
CUSTOM = ("a", "b", "c", "d")  # custom component labels; also used as renamed dims -> spelling never helps
DEFAULT_LABELS = {1: None, 2: ["x", "y"], 3: ["x", "y", "z"], 4: ["v0", "v1", "v2", "v3"]}
REL = 1e-9


def _dims(ndim, which):
    if ndim == 1:
        return C.DIMSETS[1][0 if which == "default" else 1]
    if which == "default":
        return C.DIMSETS[ndim][1] if ndim == 4 else C.DIMSETS[ndim][0]  # periodic bc wants one-letter names
    if which == "renamed":
        return ("p", "q", "r", "s")[:ndim]
    return C.DIMSETS[ndim][2]  # cyclically permuted default names: spelling != position


def _mesh(n, dims, geom=("near", 1.0), periodic=None):
    ndim = len(n)
    org, sc = geom
    cell = [c * sc for c in CELL[:ndim]]
    pmin = [o * sc for o in ORIGINS[org][:ndim]]
    pmax = [p + c * k for p, c, k in zip(pmin, cell, n)]
    bc = "" if periodic is None else "".join(dims[i] for i in periodic)
    return df.Mesh(region=df.Region(p1=pmin, p2=pmax, dims=dims), n=n, bc=bc)


def _centres(mesh):
    """float cell-centre coordinates per axis, recomputed from the corners"""
    out = []
    for k in range(mesh.region.ndim):
        a, b, n = float(mesh.region.pmin[k]), float(mesh.region.pmax[k]), int(mesh.n[k])
        h = (b - a) / n
        out.append(a + (np.arange(n) + 0.5) * h)
    return out


def _monomials(ndim, exclude=()):
    """exponent tuples of total degree <= 2, simplest first; ``exclude`` axes must have exponent 0"""
    out = []
    for deg in range(3):
        for e in itertools.product(range(deg + 1), repeat=ndim):
            if sum(e) == deg and all(e[k] == 0 for k in exclude):
                out.append(e)
    return out


def _mono_eval(e, cs):
    g = np.ones([len(c) for c in cs])
    for k, (ek, c) in enumerate(zip(e, cs)):
        sh = [1] * len(cs)
        sh[k] = len(c)
        g = g * (c.reshape(sh) ** ek)
    return g


def _mono_diff(e, k, cs, order=1):
    """analytic d^order/dx_k^order of the monomial on the grid"""
    e = list(e)
    coef = 1.0
    for _ in range(order):
        if e[k] == 0:
            return np.zeros([len(c) for c in cs])
        coef *= e[k]
        e[k] -= 1
    return coef * _mono_eval(e, cs)


def _axis_of(field):
    """{axis index: component index} if the field's mapping is a bijection of its components onto the mesh axes,
    else None"""
    vm = field.vdim_mapping
    dims = list(field.mesh.region.dims)
    if not vm or field.vdims is None or field.nvdim != len(dims):
        return None
    try:
        ax = {dims.index(vm[v]): i for i, v in enumerate(field.vdims)}
    except (KeyError, ValueError):
        return None
    return ax if len(ax) == len(dims) else None


def _by_axis(field, fallback="position"):
    """array with the components ordered by the axis they are mapped to (dims order)"""
    ax = _axis_of(field)
    if ax is None:
        return field.array, False
    return np.stack([field.array[..., ax[k]] for k in range(len(ax))], axis=-1), True


def _cmp(ctx, got, exp, scale, sig, what, instance=None):
    ctx.check()
    got = np.asarray(got)
    if got.shape != exp.shape:
        ctx.fail(sig + "/shape", f"{what}: shape {got.shape} expected {exp.shape}", instance=instance)
        return False
    err = np.abs(got - exp)
    tol = REL * (scale + np.abs(exp))
    if C.gt(err, tol):
        w = tuple(int(i) for i in np.argwhere(~(err <= tol))[0])
        ctx.fail(sig, f"{what}: at {w} got {got[w]!r} expected {exp[w]!r} (scale {scale:.3g})", instance=instance)
        return False
    return True


def _same_mesh(ctx, res, f, sig, instance=None):
    ctx.check()
    if not (res.mesh == f.mesh and tuple(res.mesh.region.dims) == tuple(f.mesh.region.dims)):
        ctx.fail(sig + "/mesh-changed", "result is not defined on the operand's mesh", instance=instance)
        return False
    return True


def _nprofile(ndim, which):
    return {"3": [3] * ndim, "4": [4] * ndim, "mixed": [3, 4, 3, 4][:ndim]}[which]


# --------------------------------------------------------------------------------------------------------------------
def unit_poly_scalar(ctx):
    thorough = ctx.tier == "thorough"
    ndim = ctx.choose("ndim", [1, 2, 3, 4])
    n = _nprofile(ndim, ctx.choose("n", ["3", "mixed", "4"] if thorough else ["3", "mixed"]))
    dimsel = ctx.choose("dims", ["default", "permuted", "renamed"] if ndim > 1 else ["default", "renamed"])
    geom = ctx.choose("geom", GEOMS)
    dims = _dims(ndim, dimsel)
    per = ctx.choose("periodic", [None] + [(k,) for k in range(ndim)])
    e = ctx.choose("monomial", _monomials(ndim, exclude=per or ()))
    mesh = _mesh(n, dims, geom, per)
    cs = _centres(mesh)
    cell = [float(c) for c in mesh.cell]
    vals = _mono_eval(e, cs)
    f = df.Field(mesh, nvdim=1, value=vals[..., None])
    fmax = float(np.abs(vals).max())
    inst = ctx.key(drop=("geom",))
    # gradient
    ctx.step(1, "grad")
    g = f.grad
    ctx.observe(np.round(g.array / (np.abs(g.array).max() or 1.0), 9))
    if _same_mesh(ctx, g, f, "Field.grad", inst):
        ctx.check()
        if g.nvdim != ndim:
            ctx.fail("Field.grad/wrong-number-of-components", f"nvdim={g.nvdim} on a {ndim}-D mesh", instance=inst)
        else:
            arr, mapped = _by_axis(g)
            ctx.note("grad/result-read-through-mapping" if mapped else "grad/result-read-by-position")
            for k in range(ndim):
                if not _cmp(ctx, arr[..., k], _mono_diff(e, k, cs), fmax / cell[k], "Field.grad/polynomial-inexact",
                            f"d/d{dims[k]} of x^{e}", inst):
                    break
    # scalar Laplacian
    ctx.step(1, "laplace")
    lp = f.laplace
    ctx.observe(np.round(lp.array / (np.abs(lp.array).max() or 1.0), 9))
    if _same_mesh(ctx, lp, f, "Field.laplace", inst):
        exp = sum(_mono_diff(e, k, cs, 2) for k in range(ndim))
        sc = fmax * sum(4.0 / c ** 2 for c in cell)
        ctx.check()
        if lp.nvdim != 1:
            ctx.fail("Field.laplace/scalar/wrong-number-of-components", f"nvdim={lp.nvdim}", instance=inst)
        else:
            _cmp(ctx, lp.array[..., 0], exp, sc, "Field.laplace/scalar/polynomial-inexact", f"laplace of x^{e}", inst)


def _vector_field(ctx, mesh, ndim, labels, perm, array, keyorder="vdims", **kw):
    """vector field whose component i is mapped to axis perm[i]; keyorder='reversed' writes the SAME mapping with its
    keys in another order than vdims (a dict is a mapping, not a sequence: pairing by position in the dict is wrong)"""
    dims = mesh.region.dims
    if labels == "default":
        vd = DEFAULT_LABELS[ndim]
        if vd is None:  # 1-D: a scalar has no default label, hence no mapping
            vd = ["a"]
    else:
        vd = list(CUSTOM[:ndim])
    if keyorder == "unsorted-labels":  # component labels that are not in alphabetical order (spelling never matters)
        vd = ["q", "c", "k", "b"][:ndim]
    vm = {vd[i]: dims[perm[i]] for i in range(ndim)}
    if keyorder in ("vdims", "unsorted-labels"):
        given = vm
    elif keyorder == "reversed":
        given = dict(reversed(list(vm.items())))
    else:  # "axis-order": keys listed in the order of the axes they point to (values read dims in order)
        given = dict(sorted(vm.items(), key=lambda kv: list(dims).index(kv[1])))
    return df.Field(mesh, nvdim=ndim, value=array, vdims=vd, vdim_mapping=given, **kw), vd, vm


def unit_poly_vector(ctx):
    thorough = ctx.tier == "thorough"
    ndim = ctx.choose("ndim", [2, 3, 1, 4])
    small = thorough or ndim < 4
    dimsel = ctx.choose("dims", (["default", "permuted", "renamed"] if small else ["default"])
                        if ndim > 1 else ["default", "renamed"])
    labels = ctx.choose("labels", (["custom", "default"] if small else ["custom"]) if ndim > 1 else ["custom"])
    perm = ctx.choose("mapping", list(itertools.permutations(range(ndim))))
    # geometry variants (cells per axis, origin/scale, periodic axis): a list, not a product - the pairing
    # (names x labels x mapping x component x monomial) is what is enumerated as a full product
    variants = [("3", GEOMS[0], None), ("3", GEOMS[0], (ndim - 1,))]
    if thorough:
        variants += [("mixed", GEOMS[1], None), ("4" if ndim < 4 else "3", GEOMS[2], None)] + [("3", GEOMS[0], (k,)) for k in range(ndim - 1) if ndim < 4]
    nprof, geom, per = ctx.choose("variant", variants)
    n = _nprofile(ndim, nprof)
    dims = _dims(ndim, dimsel)
    comp = ctx.choose("component", list(range(ndim)))
    e = ctx.choose("monomial", _monomials(ndim, exclude=per or ()))
    mesh = _mesh(n, dims, geom, per)
    cs = _centres(mesh)
    cell = [float(c) for c in mesh.cell]
    vals = _mono_eval(e, cs)
    fmax = float(np.abs(vals).max())
    arr = np.zeros(list(n) + [ndim])
    arr[..., comp] = vals
    f, vd, vm = _vector_field(ctx, mesh, ndim, labels, perm, arr)
    ctx.check()
    if f.vdim_mapping != vm or list(f.vdims) != vd:
        ctx.fail("Field/mapping-not-kept-by-constructor", f"asked {vd} {vm}, got {f.vdims} {f.vdim_mapping}")
        return
    inst = ctx.key()
    axis = perm[comp]  # the axis the non-zero component points along
    # divergence
    ctx.step(1, "div")
    d = f.div
    ctx.observe(np.round(d.array / (np.abs(d.array).max() or 1.0), 9))
    if _same_mesh(ctx, d, f, "Field.div", inst):
        ctx.check()
        if d.nvdim != 1:
            ctx.fail("Field.div/wrong-number-of-components", f"nvdim={d.nvdim}", instance=inst)
        else:
            _cmp(ctx, d.array[..., 0], _mono_diff(e, axis, cs), fmax / cell[axis],
                 "Field.div/polynomial-inexact-or-wrong-pairing",
                 f"component {vd[comp]}->{dims[axis]} = x^{e}: div must be d/d{dims[axis]}", inst)
    # Laplacian (component wise); the result component that is mapped to `axis` must carry it
    ctx.step(1, "laplace")
    lp = f.laplace
    ctx.observe(np.round(lp.array / (np.abs(lp.array).max() or 1.0), 9))
    if _same_mesh(ctx, lp, f, "Field.laplace", inst):
        exp1 = sum(_mono_diff(e, k, cs, 2) for k in range(ndim))
        sc = fmax * sum(4.0 / c ** 2 for c in cell)
        ctx.check()
        if lp.nvdim != ndim:
            ctx.fail("Field.laplace/vector/wrong-number-of-components", f"nvdim={lp.nvdim}", instance=inst)
        else:
            ax = _axis_of(lp)
            if ax is None:
                ctx.note("laplace/result-read-by-position")
                where = comp
            else:
                ctx.note("laplace/result-read-through-mapping")
                where = ax[axis]
            exp = np.zeros(list(n) + [ndim])
            exp[..., where] = exp1
            if not _cmp(ctx, lp.array, exp, sc, "Field.laplace/vector/component-axis-pairing-lost",
                        f"operand component {vd[comp]} is mapped to axis {dims[axis]}; the result (labels {lp.vdims}, "
                        f"mapping {lp.vdim_mapping}) must carry its Laplacian in the component mapped to {dims[axis]}",
                        inst):
                # distinguish a wrong number from a mislabelled one
                exp2 = np.zeros(list(n) + [ndim])
                exp2[..., comp] = exp1
                ctx.note("laplace/vector/values-right-by-position" if np.all(np.abs(lp.array - exp2) <= REL * (sc + np.abs(exp2)))
                         else "laplace/vector/values-wrong")
    # curl
    if ndim == 3:
        ctx.step(1, "curl")
        cu = f.curl
        ctx.observe(np.round(cu.array / (np.abs(cu.array).max() or 1.0), 9))
        if _same_mesh(ctx, cu, f, "Field.curl", inst):
            ctx.check()
            if cu.nvdim != 3:
                ctx.fail("Field.curl/wrong-number-of-components", f"nvdim={cu.nvdim}", instance=inst)
                return
            carr, mapped = _by_axis(cu)
            ctx.note("curl/result-read-through-mapping" if mapped else "curl/result-read-by-position")
            # V_axis = monomial: (curl V)_i = sum_jk eps_ijk d_j V_k
            exp = np.zeros(list(n) + [3])
            i1, i2 = (axis + 1) % 3, (axis + 2) % 3
            # (curl)_{i1} = d_{i2} V_axis ; (curl)_{i2} = -d_{i1} V_axis
            exp[..., i1] = _mono_diff(e, i2, cs)
            exp[..., i2] = -_mono_diff(e, i1, cs)
            sc = fmax * max(1.0 / cell[i1], 1.0 / cell[i2])
            _cmp(ctx, carr, exp, sc, "Field.curl/polynomial-inexact-or-wrong-pairing",
                 f"component {vd[comp]}->{dims[axis]} = x^{e}", inst)


# --------------------------------------------------------------------------------------------------------------------
def unit_identities(ctx):
    thorough = ctx.tier == "thorough"
    counts = [1, 2, 3, 4] if thorough else [1, 2, 3]
    nx = ctx.choose("nx", counts)
    ny = ctx.choose("ny", counts)
    nz = ctx.choose("nz", counts)
    n = [nx, ny, nz]
    dimsel = ctx.choose("dims", ["default", "permuted"] if thorough and max(n) <= 3 else ["default"])
    dims = _dims(3, dimsel)
    per = ctx.choose("periodic", [None, (1,), (0, 1, 2)])
    geom = ctx.choose("geom", [GEOMS[0], GEOMS[2]] if thorough and dimsel == "default" else [GEOMS[0]])
    ident = ctx.choose("identity", ["curl-grad", "div-curl"])
    mesh = _mesh(n, dims, geom, per)
    cell = [float(c) for c in mesh.cell]
    ncell = nx * ny * nz
    pair = max(1.0 / (cell[a] * cell[b]) for a, b in ((0, 1), (0, 2), (1, 2)))
    if ident == "curl-grad":
        probe = ctx.choose("probe", list(range(ncell)) + ["tracer"])
        if probe == "tracer":
            vals = C.tracer(n, 1, ctx.seed)
        else:
            vals = np.zeros(ncell)
            vals[probe] = 1.0
            vals = vals.reshape(n + [1])
        f = df.Field(mesh, nvdim=1, value=vals)
        ctx.step(2, "curl(grad f)")
        mid = f.grad
        r = mid.curl
        sig = "Field.curl(Field.grad)/not-zero"
    else:
        # the impulse basis is closed under relabelling components, so the mapping permutation only re-pairs
        # impulses with axes (poly_vector decides the pairing for all 6): two permutations in quick, all in thorough
        allp = list(itertools.permutations(range(3)))
        perm = ctx.choose("mapping", allp if thorough else [allp[0], allp[3]])
        labels = "custom"
        probe = ctx.choose("probe", [(c, i) for c in range(3) for i in range(ncell)] + ["tracer"])
        if probe == "tracer":
            vals = C.tracer(n, 3, ctx.seed)
        else:
            vals = np.zeros((ncell, 3))
            vals[probe[1], probe[0]] = 1.0
            vals = vals.reshape(n + [3])
        f, _, _ = _vector_field(ctx, mesh, 3, labels, perm, vals)
        ctx.step(2, "div(curl v)")
        mid = f.curl
        r = mid.div
        sig = "Field.div(Field.curl)/not-zero"
    fmax = float(np.abs(vals).max())
    tol = 1e-11 * 16.0 * fmax * pair
    ctx.observe(np.round(mid.array / (np.abs(mid.array).max() or 1.0), 9), r.array.shape)
    ctx.check()
    if not np.all(np.abs(r.array) <= tol):
        w = tuple(int(i) for i in np.argwhere(~(np.abs(r.array) <= tol))[0])
        ctx.fail(sig, f"|result| = {abs(r.array[w])!r} at {w} (tolerance {tol:.3g}); "
                 f"a term of the identity has magnitude ~{fmax * pair:.3g}", instance=ctx.key(drop=("geom",)))


# --------------------------------------------------------------------------------------------------------------------
OPS = {
    "grad": lambda f: f.grad,
    "laplace_s": lambda f: f.laplace,
    "div": lambda f: f.div,
    "laplace_v": lambda f: f.laplace,
    "curl": lambda f: f.curl,
}


def unit_rotation(ctx):
    thorough = ctx.tier == "thorough"
    ndim = ctx.choose("ndim", [2, 3, 4] if thorough else [2, 3])
    ops = ["grad", "laplace_s", "div", "laplace_v"] + (["curl"] if ndim == 3 else [])
    op = ctx.choose("op", ops)
    vector = op in ("div", "laplace_v", "curl")
    perm = ctx.choose("mapping", list(itertools.permutations(range(ndim)))) if vector else None
    # default labels x,y,z under a permuted mapping are the "pairing by spelling" trap (4-D: labels a..d on dims a..d)
    labels = ctx.choose("labels", (["default", "custom"] if thorough else ["default"]) if ndim < 4 else ["custom"]) \
        if vector else None
    dimsel = ctx.choose("dims", ["default", "permuted"] if ndim < 4 else ["default"])
    dims = _dims(ndim, dimsel)
    pairs = [(a, b) for a in range(ndim) for b in range(ndim) if a != b]
    a, b = ctx.choose("axes", pairs)
    k = ctx.choose("k", [1, 2, 3])
    outside = [i for i in range(ndim) if i not in (a, b)]
    if not thorough:  # open, the turning periodic axis, both plane axes periodic
        pers = [None, (a,), (a, b) if a < b else (b, a)]
    elif ndim < 4:
        pers = [None] + [(i,) for i in range(ndim)] + [(a, b) if a < b else (b, a)]
    else:  # 4-D: one plane axis, the other plane axis, one axis outside the plane, both plane axes
        pers = [None, (a,), (b,), (outside[0],), (a, b) if a < b else (b, a)]
    per = ctx.choose("periodic", pers)
    mask = ctx.choose("valid", ["all", "holes"])
    n = {2: [4, 3], 3: [4, 3, 5], 4: [4, 3, 3, 2]}[ndim]
    geom = ctx.choose("geom", [GEOMS[0], GEOMS[2]] if thorough and ndim < 4 else GEOMS[:1])
    mesh = _mesh(n, dims, geom, per)
    cell = [float(c) for c in mesh.cell]
    nv = ndim if vector else 1
    vals = C.tracer(n, nv, ctx.seed)
    valid = np.ones(n, dtype=bool)
    if mask == "holes":  # two invalid cells, not related by any axis permutation / reflection of the mesh
        valid[(1,) + (0,) * (ndim - 1)] = False
        valid[tuple(i - 1 for i in n)] = False
    def make():
        m = _mesh(n, dims, geom, per)
        if vector:
            return _vector_field(ctx, m, ndim, labels, perm, vals.copy(), valid=valid.copy())[0]
        return df.Field(m, nvdim=1, value=vals.copy(), valid=valid.copy())

    f = make()
    fn = OPS[op]
    order = 2 if op.startswith("laplace") else 1
    fmax = float(np.abs(vals).max())
    scale = 4.0 * ndim * fmax / min(cell) ** order

    def commute(g):
        """None if op(rot g) == rot(op g), else a description"""
        ctx.step(4, f"{op}(rotate90) vs rotate90({op})")
        left = fn(g.rotate90(dims[a], dims[b], k=k))
        right = fn(g).rotate90(dims[a], dims[b], k=k)
        ctx.check()
        if not (left.mesh == right.mesh and left.nvdim == right.nvdim and left.array.shape == right.array.shape):
            return left, f"op(rot f): n={left.mesh.n} nvdim {left.nvdim}; rot(op f): n={right.mesh.n} nvdim {right.nvdim}"
        la, lm = _by_axis(left)
        ra, rm = _by_axis(right)
        if lm != rm:  # cannot be read the same way: compare by position
            la, ra = left.array, right.array
        err = np.abs(la - ra)
        tol = REL * (scale + np.abs(ra))
        ctx.check()
        if C.gt(err, tol):
            w = tuple(int(i) for i in np.argwhere(~(err <= tol))[0])
            return left, (f"{op}(rotate90(f, {dims[a]}->{dims[b]}, k={k})) = {la[w]!r} but rotate90({op}(f)) = {ra[w]!r} at {w}; "
                          f"operand mapping {g.vdim_mapping}, result labels {right.vdims} mapping {right.vdim_mapping}, "
                          f"bc {g.mesh.bc!r} -> {left.mesh.bc!r}")
        if not np.array_equal(left.valid, right.valid):
            ctx.note("rotation/validity-differs")  # validity of results is C08's business
        return left, None

    left, bad = commute(f)
    ctx.observe(left.array)
    if not np.any(left.array):
        ctx.note("rotation/all-zero-result")
    inst = ctx.key(drop=("geom", "labels"))
    if bad is None:
        # the field turned IN PLACE must be differentiated like the turned copy (same lattice, same periodic direction)
        f2 = make()
        ctx.step(2, "rotate90(inplace=True), then the operator")
        f2.rotate90(dims[a], dims[b], k=k, inplace=True)
        li = fn(f2)
        ctx.check()
        if not (li.mesh == left.mesh and li.array.shape == left.array.shape
                and np.all(np.abs(li.array - left.array) <= REL * (scale + np.abs(left.array)))):
            ctx.fail(f"{op}/after-in-place-rotate90-differs-from-after-copying-rotate90",
                     f"k={k}, {dims[a]}->{dims[b]}: bc after in-place turn {f2.mesh.bc!r}, after copying turn {left.mesh.bc!r}; "
                     f"max difference {float(np.max(np.abs(li.array - left.array))) if li.array.shape == left.array.shape else 'shape'}",
                     instance=inst)
        return
    # exactly one periodic axis in the plane of an odd turn: the periodicity has to turn with the field
    moving = per is not None and len(per) == 1 and per[0] in (a, b) and k % 2 == 1
    sig = f"{op}/does-not-commute-with-rotate90"
    if moving and left.mesh.bc == mesh.bc:  # observed directly: the periodic direction did not turn
        sig = "Mesh.rotate90/bc-not-rotated/commutation-with-periodic-axis-in-plane"
    ctx.fail(sig, bad, instance=inst)


# --------------------------------------------------------------------------------------------------------------------
def _scalar(mesh, arr, valid):
    return df.Field(mesh, nvdim=1, value=np.ascontiguousarray(arr)[..., None], valid=valid)


def unit_combination(ctx):
    """The four operators against the textbook combination of the library's OWN directional derivatives (Field.diff,
    decided by C04) on the complete impulse basis, with invalid cells and a periodic direction: covers all field
    values (linearity), not only polynomials."""
    thorough = ctx.tier == "thorough"
    ndim = ctx.choose("ndim", [2, 3, 1, 4] if thorough else [2, 3, 1])
    ops = ["grad", "laplace_s"] + (["div", "laplace_v"] if ndim > 1 else ["div"]) + (["curl"] if ndim == 3 else [])
    op = ctx.choose("op", ops)
    vector = op in ("div", "laplace_v", "curl")
    perm = ctx.choose("mapping", list(itertools.permutations(range(ndim)))) if vector else None
    dimsel = ctx.choose("dims", ["default", "permuted"] if ndim > 1 and thorough else ["default"])
    dims = _dims(ndim, dimsel)
    n = {1: [5], 2: [4, 3], 3: [4, 3, 2], 4: [3, 2, 2, 2]}[ndim]
    per = ctx.choose("periodic", [None, (ndim - 1,)])
    mask = ctx.choose("valid", ["all", "coded"])
    mesh = _mesh(n, dims, GEOMS[0], per)
    nv = ndim if vector else 1
    ncell = int(np.prod(n))
    probe = ctx.choose("probe", ["tracer"] + [(i, c) for i in range(ncell) for c in range(nv)])
    # the same mapping written with its keys in another order (tracer probe only: pairing is decided once per field)
    keyorder = ctx.choose("mapping-key-order", ["vdims", "reversed", "axis-order", "unsorted-labels"]) if vector and ndim > 1 and probe == "tracer" else "vdims"
    if probe == "tracer":
        vals = C.tracer(n, nv, ctx.seed)
    else:
        vals = np.zeros((ncell, nv))
        vals[probe] = 1.0
        vals = vals.reshape(n + [nv])
    valid = np.ones(n, dtype=bool) if mask == "all" else C.coded_mask(tuple(n), 5)
    if vector:
        f, vd, vm = _vector_field(ctx, mesh, ndim, "default" if ndim < 4 else "custom", perm, vals, keyorder=keyorder, valid=valid)
    else:
        f = df.Field(mesh, nvdim=1, value=vals, valid=valid)
    ctx.step(1, op)
    res = OPS[op](f)
    ctx.observe(res.array)
    inst = ctx.key()
    if not _same_mesh(ctx, res, f, f"Field.{op}", inst):
        return
    comps = [_scalar(mesh, vals[..., c], valid) for c in range(nv)]

    def d(c, k, order=1):
        ctx.step(1)
        return comps[c].diff(dims[k], order=order).array[..., 0]

    by_axis = None if not vector else {perm[c]: c for c in range(ndim)}  # axis -> operand component
    if op == "grad":
        exp = np.stack([d(0, k) for k in range(ndim)], axis=-1)
        got = _by_axis(res)[0] if res.nvdim == ndim and ndim > 1 else res.array
    elif op == "laplace_s":
        terms = [d(0, k, 2) for k in range(ndim)]
        exp = sum(terms)[..., None]
        got = res.array
    elif op == "div":
        terms = [d(c, perm[c]) for c in range(ndim)]
        exp = sum(terms)[..., None]
        got = res.array
    elif op == "curl":
        exp = np.stack([d(by_axis[(k + 2) % 3], (k + 1) % 3) - d(by_axis[(k + 1) % 3], (k + 2) % 3) for k in range(3)], axis=-1)
        got = _by_axis(res)[0]
    else:  # laplace_v: the result component mapped to axis k carries the Laplacian of the operand component mapped to k
        lap = [sum(d(c, k, 2) for k in range(ndim)) for c in range(ndim)]
        ax = _axis_of(res)
        exp_pos = np.stack(lap, axis=-1)
        if ax is None or res.nvdim != ndim:
            exp = exp_pos
            got = res.array
        else:
            exp = np.stack([lap[by_axis[k]] for k in range(ndim)], axis=-1)
            got = np.stack([res.array[..., ax[k]] for k in range(ndim)], axis=-1)
    order = 2 if op.startswith("laplace") else 1
    cell = [float(c) for c in mesh.cell]
    scale = 1e-3 * 4.0 * ndim * float(np.abs(vals).max()) / min(cell) ** order  # -> 1e-12 relative
    sig = {"grad": "Field.grad/not-the-stack-of-directional-derivatives",
           "laplace_s": "Field.laplace/scalar/not-the-sum-of-second-directional-derivatives",
           "div": "Field.div/not-the-sum-of-derivatives-along-the-mapped-axes",
           "curl": "Field.curl/not-the-textbook-combination-through-the-mapping",
           "laplace_v": "Field.laplace/vector/not-the-sum-of-second-directional-derivatives"}[op]
    if op == "laplace_v" and got.shape == exp.shape and C.gt(np.abs(got - exp), REL * (scale + np.abs(exp))) \
            and res.array.shape == exp_pos.shape and np.all(np.abs(res.array - exp_pos) <= REL * (scale + np.abs(exp_pos))):
        sig = "Field.laplace/vector/component-axis-pairing-lost"  # numbers right by position, result mapping wrong
    _cmp(ctx, got, exp, scale, sig, f"{op} of {'tracer' if probe == 'tracer' else 'impulse %s' % (probe,)}; operand mapping "
         f"{f.vdim_mapping}; result labels {res.vdims} mapping {res.vdim_mapping}", inst)


# --------------------------------------------------------------------------------------------------------------------
def unit_refusals(ctx):
    ndim = ctx.choose("ndim", [3, 1, 2, 4])
    dimsel = ctx.choose("dims", ["default", "renamed"])
    dims = _dims(ndim, dimsel)
    mesh = _mesh([3, 4, 3, 2][:ndim], dims)
    op = ctx.choose("op", ["grad", "div", "curl"])
    if op == "grad":
        nv = ctx.choose("nvdim", [2, 3, 4])
        f = df.Field(mesh, nvdim=nv, value=C.tracer(mesh.n, nv, ctx.seed))
        C.expect_raises(ctx, "Field.grad/accepts-vector-field", lambda: f.grad)
        ctx.observe("grad", nv)
        return
    case = ctx.choose("case", ["nvdim-misfit", "mapping-missing", "mapping-names-non-axis", "mapping-value-none",
                               "mapping-non-bijective"])
    if case == "nvdim-misfit":
        nvs = [v for v in [1, 2, 3, 4] if (v != ndim if op == "div" else not (v == 3 and ndim == 3))]
        nv = ctx.choose("nvdim", nvs)
        withmap = ctx.choose("mapped", [False, True])
        vd = list(CUSTOM[:nv])
        kw = {}
        if withmap:  # components mapped onto axes as far as they go (cyclically) - still the wrong count
            kw = {"vdims": vd, "vdim_mapping": {v: dims[i % ndim] for i, v in enumerate(vd)}}
        f = df.Field(mesh, nvdim=nv, value=C.tracer(mesh.n, nv, ctx.seed), **kw)
        C.expect_raises(ctx, f"Field.{op}/accepts-nvdim-ndim-misfit", lambda: getattr(f, op))
        ctx.observe(op, nv, ndim)
        return
    if op == "curl" and ndim != 3:
        raise_skip()
    if ndim == 1 and case == "mapping-non-bijective":
        raise_skip()
    vd = list(CUSTOM[:ndim])
    if case == "mapping-missing":
        vm = {}
    elif case == "mapping-names-non-axis":
        which = ctx.choose("component", list(range(ndim)))
        vm = {v: dims[i] for i, v in enumerate(vd)}
        vm[vd[which]] = "w"
    elif case == "mapping-value-none":
        which = ctx.choose("component", list(range(ndim)))
        vm = {v: dims[i] for i, v in enumerate(vd)}
        vm[vd[which]] = None
    else:
        which = ctx.choose("component", list(range(ndim)))
        vm = {v: dims[i] for i, v in enumerate(vd)}
        vm[vd[which]] = dims[(which + 1) % ndim]
    made, f = C.raises(lambda: df.Field(mesh, nvdim=ndim, value=C.tracer(mesh.n, ndim, ctx.seed), vdims=vd, vdim_mapping=vm))
    ctx.step()
    if made:
        ctx.note(f"refused-by-constructor/{case}")
        ctx.check()
        return
    if case == "mapping-missing" and f.vdim_mapping:
        ctx.note("constructor-filled-in-a-mapping")
        ctx.check()
        return
    ctx.observe(op, case, ndim)
    if case == "mapping-non-bijective":
        ctx.step()
        ctx.check()
        r, _ = C.raises(lambda: getattr(f, op))
        ctx.note(f"{op}/non-bijective-mapping/{'refused' if r else 'ACCEPTED'}")
        return
    C.expect_raises(ctx, f"Field.{op}/accepts-{case}", lambda: getattr(f, op))


def raise_skip():
    from mc import engine
    raise engine.Skip()

def unit_value_types(ctx):
    """Complex and integer-typed values: op(A + iB) = op(A) + i op(B) and op(int field) = op(float field with the same
    values), with op(A), op(B) the library's own results on float fields (decided by the other units).  The operators
    are linear, so the storage type of the values must not matter."""
    ndim = ctx.choose("ndim", [2, 3, 1])
    ops = ["grad", "laplace_s"] + (["div", "laplace_v"] if ndim > 1 else ["div"]) + (["curl"] if ndim == 3 else [])
    op = ctx.choose("op", ops)
    vector = op in ("div", "laplace_v", "curl")
    perms = list(itertools.permutations(range(ndim)))
    perm = ctx.choose("mapping", [perms[0], perms[-1]] if len(perms) > 1 else perms) if vector else None
    kind = ctx.choose("values", ["complex", "int"])
    per = ctx.choose("periodic", [None, (ndim - 1,)])
    mask = ctx.choose("valid", ["all", "coded"])
    n = {1: [5], 2: [4, 3], 3: [4, 3, 2]}[ndim]
    dims = _dims(ndim, "default")
    mesh = _mesh(n, dims, GEOMS[0], per)
    nv = ndim if vector else 1
    a = C.tracer(n, nv, ctx.seed)
    b = C.tracer(n, nv, ctx.seed + 1)[..., ::-1]
    valid = np.ones(n, dtype=bool) if mask == "all" else C.coded_mask(tuple(n), 5)

    def mk(vals, **kw):
        if vector:
            return _vector_field(ctx, mesh, ndim, "default", perm, vals, valid=valid, **kw)[0]
        return df.Field(mesh, nvdim=1, value=vals, valid=valid, **kw)

    ctx.step(3, op)
    ra = OPS[op](mk(a)).array
    inst = ctx.key()
    if kind == "complex":
        rb = OPS[op](mk(b)).array
        got = OPS[op](mk(a + 1j * b, dtype=complex)).array
        exp = ra + 1j * rb
    else:
        got = OPS[op](mk(a.astype(int), dtype=int)).array
        exp = ra
    ctx.observe(np.round(np.abs(got) / (np.abs(exp).max() or 1.0), 9))
    cell = min(float(c) for c in mesh.cell)
    scale = float(np.abs(a).max() + np.abs(b).max()) / cell ** (2 if op.startswith("laplace") else 1)
    _cmp(ctx, got, exp, scale, f"Field.{op}/value-type/{kind}",
         f"{op} of a {kind}-typed field differs from the same operator on its real and imaginary parts / its float copy", inst)

def unit_reuse(ctx):
    """Non-initial states: a field is derived from the field under test (negation, derivative, quarter turn, product,
    padding, Laplacian, component stacking), the DERIVED field is relabelled or re-mapped by the user (vdims /
    vdim_mapping setters), values of the original are changed in place - and the four operators are evaluated on the
    ORIGINAL again.  They must give what they gave before (resp. what a fresh field with the current values gives): a
    derived field is its own object."""
    ndim = ctx.choose("ndim", [3, 2])
    perms = list(itertools.permutations(range(ndim)))
    perm = ctx.choose("mapping", [perms[0], perms[-1], perms[1]] if ndim == 3 else perms)
    derive = ctx.choose("derived-by", ["neg", "diff", "rotate90", "mul2", "pad", "laplace", "lshift-restack", "getattr-mesh-copy"])
    # (writing INTO the dict returned by the vdim_mapping getter is not in the alphabet: the statement does not say
    # who owns that dict; the setters and the value / validity arrays are the public routes)
    act = ctx.choose("then", ["vdims = permuted labels", "vdims = new labels", "vdim_mapping = other pairing",
                               "array[...] of the derived field", "nothing"])
    n = {2: [4, 3], 3: [4, 3, 2]}[ndim]
    dims = _dims(ndim, "default")
    mesh = _mesh(n, dims, GEOMS[0], None)
    vals = C.tracer(n, ndim, ctx.seed)
    f, vd, vm = _vector_field(ctx, mesh, ndim, "default", perm, vals)
    ops = ["div", "laplace_v"] + (["curl"] if ndim == 3 else [])
    inst = ctx.key()
    before = {o: np.array(OPS[o](f).array) for o in ops}
    ctx.step(len(ops))
    snap = C.field_snap(f)
    lab0, map0 = list(f.vdims), dict(f.vdim_mapping)
    if derive == "neg":
        g = -f
    elif derive == "diff":
        g = f.diff(dims[0])
    elif derive == "rotate90":
        g = f.rotate90(dims[0], dims[1])
    elif derive == "mul2":
        g = f * 2.0
    elif derive == "pad":
        g = f.pad({dims[0]: (1, 1)}, mode="constant")
    elif derive == "laplace":
        g = f.laplace
    elif derive == "lshift-restack":
        g = getattr(f, f.vdims[0])
        for lab in f.vdims[1:]:
            g = g << getattr(f, lab)
    else:
        g = df.Field(f.mesh, nvdim=ndim, value=f, vdims=f.vdims, vdim_mapping=f.vdim_mapping)
    ctx.step(1, f"derived by {derive}; then {act}")
    try:
        if act == "vdims = permuted labels":
            g.vdims = list(g.vdims[1:]) + [g.vdims[0]]
        elif act == "vdims = new labels":
            g.vdims = ["p", "q", "r"][:ndim]
        elif act == "vdim_mapping = other pairing":
            g.vdim_mapping = dict(zip(g.vdims, list(g.mesh.region.dims)[::-1]))
        elif act == "array[...] of the derived field":
            g.array[...] = 0.0
            g.valid[...] = False
    except Exception as e:  # what the setters of the derived field accept is not this property's business
        ctx.note(f"relabelling-refused:{type(e).__name__}")
    ctx.check(2)
    if list(f.vdims) != lab0 or dict(f.vdim_mapping) != map0:
        ctx.fail("reuse/original-relabelled-through-a-derived-field", f"derived by {derive}, then {act}: the ORIGINAL now has "
                 f"vdims {f.vdims} mapping {f.vdim_mapping} (was {lab0} {map0})", instance=inst)
        return
    if C.field_snap(f) != snap:
        ctx.fail("reuse/original-modified-through-a-derived-field", f"derived by {derive}, then {act}", instance=inst)
        return
    for o in ops:
        ctx.step(1, o)
        raised, r = C.raises(OPS[o], f)
        ctx.check()
        if raised:
            ctx.fail(f"Field.{o}/reuse/raises-after-a-derived-field-was-relabelled", f"{derive}, {act}: {type(r).__name__}: "
                     f"{str(r)[:140]}", instance=inst)
            return
        ctx.observe(np.round(r.array / (np.abs(before[o]).max() or 1.0), 9))
        if not C.same_bytes(np.asarray(r.array), before[o]):
            ctx.fail(f"Field.{o}/reuse/result-changed-after-a-derived-field-was-relabelled",
                     f"{derive}, {act}: {np.asarray(r.array).ravel()[:6].tolist()} before {before[o].ravel()[:6].tolist()}",
                     instance=inst)
            return


def unit_relabel(ctx):
    """The field under test itself is relabelled (vdims setter: new names, the old names in another order, names that
    spell OTHER axes) after the operators were used once.  Component i keeps its axis (the library renames the keys of the
    mapping), so "pairing through the mapping, not by position or label spelling" demands the same numbers as before,
    component by axis; a refusal is accepted (the statement does not say that a relabelled field stays mapped)."""
    ndim = ctx.choose("ndim", [3, 2])
    perm = ctx.choose("mapping", list(itertools.permutations(range(ndim))))
    start = ctx.choose("labels", ["default", "custom"])
    new = ctx.choose("new-labels", ["new names", "old names rotated", "old names reversed", "names of the axes, reversed",
                                     "unsorted names"])
    first = ctx.choose("first", ["operators used before", "nothing"])
    n = {2: [4, 3], 3: [4, 3, 2]}[ndim]
    dims = _dims(ndim, "default")
    mesh = _mesh(n, dims, GEOMS[0], None)
    vals = C.tracer(n, ndim, ctx.seed)
    f, vd, vm = _vector_field(ctx, mesh, ndim, start, perm, vals)
    ref, _, _ = _vector_field(ctx, mesh, ndim, start, perm, vals.copy())
    ops = ["div", "laplace_v"] + (["curl"] if ndim == 3 else [])
    want = {}
    for o in ops:
        r = OPS[o](ref)
        want[o] = np.array(r.array) if o == "div" else np.array(_by_axis(r)[0])
    if first != "nothing":
        for o in ops:
            OPS[o](f)
        ctx.step(len(ops))
    old = list(f.vdims)
    names = {"new names": ["p", "q", "r"][:ndim], "old names rotated": old[1:] + old[:1], "old names reversed": old[::-1],
             "names of the axes, reversed": list(dims)[::-1], "unsorted names": ["q", "c", "k"][:ndim]}[new]
    ctx.step(1, f"field.vdims = {names}")
    raised, e = C.raises(setattr, f, "vdims", names)
    if raised:
        ctx.note(f"relabelling-refused:{type(e).__name__}")
        return
    inst = ctx.key()
    ctx.check()
    if not C.same_bytes(np.asarray(f.array), vals):
        ctx.fail("relabel/values-changed-by-relabelling", f"vdims = {names}", instance=inst)
        return
    for o in ops:
        ctx.step(1, o)
        raised, r = C.raises(OPS[o], f)
        if raised:
            ctx.note(f"{o}-refused-after-relabelling:{type(r).__name__}")
            continue
        ctx.check()
        got = np.asarray(r.array) if o == "div" else np.asarray(_by_axis(r)[0])
        ctx.observe(np.round(got / (np.abs(want[o]).max() or 1.0), 9))
        if got.shape != want[o].shape or not C.same_bytes(got, want[o]):
            ctx.fail(f"Field.{o}/relabel/result-changed-by-renaming-the-components",
                     f"vdims {old} -> {names} (mapping now {f.vdim_mapping}): {got.ravel()[:6].tolist()} before "
                     f"{want[o].ravel()[:6].tolist()}", instance=inst)
            return


def units(tier):
    return [
        {"name": "poly_scalar", "fn": unit_poly_scalar, "bound": None},
        {"name": "poly_vector", "fn": unit_poly_vector, "bound": None},
        {"name": "combination", "fn": unit_combination, "bound": None},
        {"name": "value_types", "fn": unit_value_types, "bound": None},
        {"name": "reuse", "fn": unit_reuse, "bound": None},
        {"name": "relabel", "fn": unit_relabel, "bound": None},
        {"name": "identities", "fn": unit_identities, "bound": None},
        {"name": "rotation", "fn": unit_rotation, "bound": None},
        {"name": "refusals", "fn": unit_refusals, "bound": None},
    ]
