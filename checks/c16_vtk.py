"""C16 - VTK: every value sits in the grid cell a VTK reader finds at that
position; bin / txt / xml round trip; legacy point-data files.

Oracles:
  * grid      : the object returned by ``Field.to_vtk`` is interrogated through
                VTK itself (``vtkRectilinearGrid.FindCell``, R7).  For the centre
                and four off-centre points of EVERY mesh cell the located VTK
                cell must carry the value / component scalars / norm / validity
                flag of the mesh cell that contains the point (exact rational
                lattice of the mesh, mc.common.Lattice).  The flattening order
                is never re-implemented.
  * roundtrip : write with the real writer, read with ``Field.from_file``.
  * overwrite : two writes to the same path (with, then without subregions).
  * reserved  : a component labelled ``field`` (the name of the value array).
  * provenance: the field is obtained through every public producer first.
  * legacy    : point-data files in the layout of discretisedfield <= 0.61
                written by the harness (and the two samples of the repo); the
                association point -> value is taken from VTK's own legacy reader.
"""
import os
import shutil
import tempfile
from fractions import Fraction as Fr

import numpy as np
from vtkmodules.util import numpy_support as vns
from vtkmodules.vtkCommonCore import reference as vtkref
from vtkmodules.vtkCommonDataModel import vtkGenericCell
from vtkmodules.vtkIOLegacy import vtkRectilinearGridReader

import discretisedfield as df
from mc import common as C
from mc import engine

PROPERTY = "C16"
RULE = ("full products: grid = n x geometry x dims x nvdim x labels x mask x values (every cell, 5 probe points); "
        "roundtrip = n x geometry x nvdim x labels x mask x values x subregions x representation; "
        "overwrite = first/second subregion layout x representation; reserved = nvdim x position x representation; "
        "provenance = producer x nvdim x representation; legacy = n x geometry x nvdim (+ 2 repo samples). "
        "An execution is non-trivial when a grid was built or a file was written and read and compared.")
ASSUMPTIONS = [
    "scope: 3-d meshes with <= 40 cells, n from a fixed list incl. single-cell axes; geometry at scales 1e-9, 1, 1e3 "
    "(thorough: also offset >> edge, 1e-12, 1e6) with non-representable faces",
    "probe points are the cell centre and centre + 0.3*cell*(+-1,+-1,+-1) for four sign patterns (>= 0.2 cell away "
    "from every face): no ambiguity band is probed (R2)",
    "vertex coordinates are compared with the exact rational lattice to 8 ulp of the largest corner magnitude",
    "norm is compared with numpy.linalg.norm to 1e-12 relative (1e-6 for float32 data); everything else in the grid exactly",
    "round trip: bin/xml exact (values compared by value, the result dtype of the array is not constrained); txt is "
    "accepted when every coordinate and value is within 1e-9 relative (ten significant digits); subregion corners "
    "likewise; dimension names and units of the region are not stored in VTK files and are not demanded",
    "validity must come back with the same truth values AND work as a mask (array[valid], ~valid) like the original",
    "component arrays in the grid are accepted under '<label>' or '<label>-component'",
    "legacy files: x-fastest point order is not assumed but read off VTK's own legacy reader; only 'the value of a "
    "point is in the cell that contains the point' and the point counts are demanded (single-point axes get a cell "
    "size chosen by the library)",
]

# ---------------------------------------------------------------------------
# alphabets (quick lists are prefixes / value-subsets of the thorough lists)

NS_Q = [(3, 2, 4), (1, 1, 1), (2, 1, 3)]
NS_T = NS_Q + [(1, 3, 1), (5, 1, 1), (4, 3, 2), (1, 1, 6), (2, 2, 2)]

# name -> (pmin, cell)
GEOMS = {
    "unit": ((0.1, -0.3, 5.0), (0.3, 1.0, 2.5)),
    "nano": ((0.0, -3e-9, 1e-9 / 3), (1e-9, 2.5e-9, 0.7e-9)),
    "kilo": ((1e4 + 0.1, -123.456e3, 7.7e3), (300.0, 1000.0 / 3, 2500.0)),
    "offset>>edge": ((1e4 + 0.1, -1e4 - 1 / 3, 7.7), (0.1, 1 / 3, 0.7)),
    "pico": ((1e-12 / 3, 0.0, -7.7e-12), (0.3e-12, 1e-12, 2.5e-12)),
    "mega": ((-123.456e6, 1e6 / 3, 0.0), (0.7e6, 1e6, 1e6 / 3)),
}
GEOMS_Q = ["unit", "nano", "kilo"]
GEOMS_T = GEOMS_Q + ["offset>>edge", "pico", "mega"]

LABELS = {
    "default": None,
    "custom": ("a", "b", "c", "d"),
    "odd": ("my comp", "B-2", "mz", "d_4"),
}
MASKS_Q = ["all", "coded0", "hole"]
MASKS_T = MASKS_Q + ["none", "coded1", "slab"]
VALUES = ["mixed", "tracer", "int64", "float32"]
SUBS = ["none", "two", "touching", "overlap", "all"]
REPS = ["bin", "txt", "xml"]
SIGNS = [(0, 0, 0), (1, 1, 1), (1, -1, -1), (-1, 1, -1), (-1, -1, 1)]


class SubregionsRefused(engine.Skip):
    pass


def _mesh(n, geom, dims=None, sub="none"):
    pmin, cell = GEOMS[geom]
    pmax = tuple(p + c * k for p, c, k in zip(pmin, cell, n))
    reg = df.Region(p1=pmin, p2=pmax, dims=dims)
    mesh = df.Mesh(region=reg, n=n)
    if sub != "none":
        boxes = _sub_boxes(n, sub)
        v = [np.linspace(float(reg.pmin[a]), float(reg.pmax[a]), n[a] + 1) for a in range(3)]
        sr = {}
        for name, (lo, hi) in boxes.items():
            sr[name] = df.Region(p1=[v[a][lo[a]] for a in range(3)], p2=[v[a][hi[a]] for a in range(3)])
        try:
            mesh.subregions = sr
        except ValueError:
            # whole-cell boxes on the mesh's own vertices refused by the subregion setter: C14's business
            raise SubregionsRefused() from None
    return mesh


def _sub_boxes(n, kind):
    """index boxes (lo, hi) on the lattice, always whole cells"""
    n = list(n)
    ax = int(np.argmax(n))  # split the longest axis
    if kind == "all" or n[ax] < 2:
        return {"whole": ([0, 0, 0], n)}
    m = n[ax] // 2

    def box(a, b):
        lo, hi = [0, 0, 0], list(n)
        lo[ax], hi[ax] = a, b
        return lo, hi

    if kind == "two":  # disjoint when the axis has >= 3 cells
        return {"r1": box(0, 1), "r2": box(2, n[ax])} if n[ax] >= 3 else {"r1": box(0, 1), "r2": box(1, 2)}
    if kind == "touching":
        return {"left": box(0, m), "right": box(m, n[ax])}
    if kind == "overlap":
        return {"o1": box(0, min(n[ax], m + 1)), "o2": box(max(0, m - 1), n[ax])}
    raise ValueError(kind)


def _mask(n, kind):
    if kind == "all":
        return np.ones(n, dtype=bool)
    if kind == "none":
        return np.zeros(n, dtype=bool)
    if kind == "hole":
        m = np.ones(n, dtype=bool)
        m[tuple(k - 1 for k in n)] = False
        if int(np.prod(n)) > 1:
            m[tuple(k // 2 for k in n)] = False
        return m
    if kind == "slab":
        m = np.ones(n, dtype=bool)
        ax = int(np.argmax(n))
        sl = [slice(None)] * 3
        sl[ax] = 0
        m[tuple(sl)] = False
        return m
    return C.coded_mask(n, int(kind[-1]))


def _values(n, nvdim, kind, seed):
    t = C.tracer(n, nvdim, seed)
    if kind == "tracer":
        return t
    if kind in ("int64", "float32"):  # integer valued: exact in every representation
        return (t * np.where(np.arange(t.size).reshape(t.shape) % 2, -1, 1)).astype(kind)
    # non-representable values over 60 decades, both signs; the decade and sign depend on the POSITION only
    pos = np.arange(t.size).reshape(t.shape)
    dec = np.choose(pos % 3, [1.0, 1e-30, 1e30])
    sgn = np.where((pos // 3) % 2 == 0, 1.0, -1.0)
    return t / 7.0 * dec * sgn


def _vdims(nvdim, labels):
    lab = LABELS[labels]
    return None if lab is None else list(lab[:nvdim])


def _field(n, geom, nvdim, labels, mask, values, seed, dims=None, sub="none"):
    mesh = _mesh(n, geom, dims=dims, sub=sub)
    val = _values(n, nvdim, values, seed)
    return df.Field(mesh, nvdim=nvdim, value=val, vdims=_vdims(nvdim, labels), valid=_mask(n, mask), dtype=val.dtype)


# ---------------------------------------------------------------------------
# the grid seen through VTK


def _grid_arrays(g):
    cd = g.GetCellData()
    out = {}
    for i in range(cd.GetNumberOfArrays()):
        out.setdefault(cd.GetArrayName(i), []).append(vns.vtk_to_numpy(cd.GetArray(i)))
    return out


_SCRATCH = {}


def _find(g, p):
    if not _SCRATCH:
        _SCRATCH.update(cell=vtkGenericCell(), sub=vtkref(0), pc=[0.0, 0.0, 0.0], w=[0.0] * 8)
    s = _SCRATCH
    return g.FindCell([float(x) for x in p], None, s["cell"], 0, 0.0, s["sub"], s["pc"], s["w"])


def _check_grid(ctx, f, g, inst, points="all"):
    """f: the field; g: vtkRectilinearGrid from f.to_vtk()."""
    mesh = f.mesh
    lat = C.Lattice.of(mesh)
    n = tuple(int(k) for k in mesh.n)
    # (a) coordinates are the mesh vertices
    M = [lat.magnitude(a) for a in range(3)]
    for a, getter in enumerate((g.GetXCoordinates, g.GetYCoordinates, g.GetZCoordinates)):
        co = vns.vtk_to_numpy(getter())
        ctx.check()
        ok = co.shape == (n[a] + 1,)
        if ok:
            for i in range(n[a] + 1):
                if abs(Fr(float(co[i])) - lat.face(a, i)) > 8 * Fr(C.ulp(M[a])):
                    ok = False
        if not ok:
            ctx.fail("Field.to_vtk/coordinates-not-mesh-vertices",
                     f"axis {a}: grid coordinates {co.tolist()} but vertices "
                     f"{[float(lat.face(a, i)) for i in range(n[a] + 1)]}", instance=inst)
            return
    ctx.check()
    if tuple(g.GetDimensions()) != tuple(k + 1 for k in n) or g.GetNumberOfCells() != int(np.prod(n)):
        ctx.fail("Field.to_vtk/dimensions", f"grid dimensions {g.GetDimensions()} for n={n}", instance=inst)
        return
    arrs = _grid_arrays(g)
    need = ["field", "norm", "valid"]
    ctx.check()
    for nm in need:
        if nm not in arrs or len(arrs[nm]) != 1:
            ctx.fail("Field.to_vtk/array-missing-or-duplicated", f"cell array {nm!r}: {len(arrs.get(nm, []))} arrays; "
                     f"names {sorted(arrs)}", instance=inst)
            return
    comp = []
    if f.nvdim > 1:
        for lab in f.vdims:
            a = arrs.get(str(lab)) or arrs.get(f"{lab}-component")
            ctx.check()
            if not a or len(a) != 1:
                ctx.fail("Field.to_vtk/component-array-missing", f"no cell array for component {lab!r}; names {sorted(arrs)}",
                         instance=inst)
                return
            comp.append(a[0])
    fa = arrs["field"][0].reshape(int(np.prod(n)), -1)
    ctx.check()
    if fa.shape[1] != f.nvdim:
        ctx.fail("Field.to_vtk/field-array-components", f"'field' has {fa.shape[1]} components, nvdim={f.nvdim}", instance=inst)
        return
    na, va = arrs["norm"][0].reshape(-1), arrs["valid"][0].reshape(-1)
    arr = f.array
    hit = set()
    cellf = [float(c) for c in mesh.cell]
    for idx in np.ndindex(*n):
        centre = [float(lat.centre(a, idx[a])) for a in range(3)]
        for s in (SIGNS if points == "all" else SIGNS[:1]):
            p = [centre[a] + 0.3 * s[a] * cellf[a] for a in range(3)]
            # exact owner of the float point p (must be idx, asserted harness-side)
            own = tuple(lat.floor_index(a, p[a]) for a in range(3))
            if own != idx or any(lat.dist_to_face(a, p[a]) < lat.cell[a] / 10 for a in range(3)):
                raise RuntimeError(f"harness: probe point {p} not safely inside cell {idx}")
            cid = _find(g, p)
            ctx.check()
            if cid < 0 or cid >= fa.shape[0]:
                ctx.fail("Field.to_vtk/located-cell/none", f"VTK finds no cell at {p} (cell {idx})", instance=inst)
                return
            hit.add(cid)
            exp = arr[idx]
            ctx.check(4)
            if not np.array_equal(fa[cid], exp):
                ctx.fail("Field.to_vtk/located-cell/field-value",
                         f"at {p} (mesh cell {idx}) VTK cell {cid} has field {fa[cid].tolist()}, mesh cell has {exp.tolist()}",
                         instance=inst)
                return
            for c, ca in enumerate(comp):
                if ca[cid] != exp[c]:
                    ctx.fail("Field.to_vtk/located-cell/component-scalar",
                             f"at {p} (mesh cell {idx}) component {f.vdims[c]!r} is {ca[cid]}, mesh cell has {exp[c]}",
                             instance=inst)
                    return
            nrm = float(np.linalg.norm(exp.astype(float)))
            if C.gt(abs(na[cid] - nrm), (1e-6 if arr.dtype == np.float32 else 1e-12) * nrm):
                ctx.fail("Field.to_vtk/located-cell/norm", f"at {p} (mesh cell {idx}) norm {na[cid]} expected {nrm}",
                         instance=inst)
                return
            if bool(va[cid] != 0) != bool(f.valid[idx]):
                ctx.fail("Field.to_vtk/located-cell/valid-flag",
                         f"at {p} (mesh cell {idx}) valid flag {va[cid]} but mesh cell valid={bool(f.valid[idx])}", instance=inst)
                return
    ctx.check()
    if len(hit) != int(np.prod(n)):
        ctx.fail("Field.to_vtk/located-cell/not-one-to-one", f"{int(np.prod(n))} mesh cells map to {len(hit)} VTK cells",
                 instance=inst)
    ctx.observe(fa, na, va)


def unit_grid(ctx):
    thorough = ctx.tier == "thorough"
    n = ctx.choose("n", NS_T if thorough else NS_Q)
    geom = ctx.choose("geom", GEOMS_T if thorough else GEOMS_Q)
    dims = ctx.choose("dims", C.DIMSETS[3])
    nvdim = ctx.choose("nvdim", [1, 2, 3, 4])
    labels = ctx.choose("labels", ["default", "custom", "odd"] if thorough else ["default", "custom"])
    mask = ctx.choose("mask", MASKS_T if thorough else MASKS_Q)
    values = ctx.choose("values", VALUES if thorough else VALUES[:1])
    f = _field(n, geom, nvdim, labels, mask, values, ctx.seed, dims=dims)
    before = C.field_snap(f)
    ctx.step(1, "to_vtk")
    g = f.to_vtk()
    inst = ctx.key()
    ctx.check()
    if C.field_snap(f) != before:
        ctx.fail("Field.to_vtk/operand-modified", "field changed by to_vtk", instance=inst)
    _check_grid(ctx, f, g, inst)


# ---------------------------------------------------------------------------
# files


def _tmpdir():
    return tempfile.mkdtemp(prefix="dfmc16_", dir="/dev/shm")


def _close(a, b, rel):
    a, b = np.asarray(a, dtype=float), np.asarray(b, dtype=float)
    return a.shape == b.shape and bool(np.all(np.abs(a - b) <= rel * np.abs(b)))


def _subs(mesh):
    return {str(k): (np.asarray(v.pmin, dtype=float), np.asarray(v.pmax, dtype=float)) for k, v in mesh.subregions.items()}


def _compare_read(ctx, f, r, rep, inst, labelclass=None):
    """f written, r read back.  Signatures name the failure, not the unit that met it."""
    what = "vtk-roundtrip"
    exact = rep != "txt"
    rel = 0.0 if exact else 1e-9
    tag = "exact" if exact else "txt"
    ctx.check(6)
    if not isinstance(r, df.Field):
        ctx.fail(f"{what}/not-a-field", f"from_file returned {type(r).__name__}", instance=inst)
        return
    if tuple(int(k) for k in r.mesh.n) != tuple(int(k) for k in f.mesh.n):
        ctx.fail(f"{what}/cell-counts", f"n {tuple(f.mesh.n)} read back as {tuple(r.mesh.n)}", instance=inst)
        return
    for nm in ("pmin", "pmax"):
        a, b = getattr(r.mesh.region, nm), getattr(f.mesh.region, nm)
        if not _close(a, b, rel):
            ctx.fail(f"{what}/region/{tag}", f"{nm} {np.asarray(b).tolist()} read back as {np.asarray(a).tolist()}",
                     instance=inst)
    if r.nvdim != f.nvdim or r.array.shape != f.array.shape:
        ctx.fail(f"{what}/component-count", f"nvdim {f.nvdim} shape {f.array.shape} read back as {r.nvdim} {r.array.shape}",
                 instance=inst)
        return
    if not _close(r.array, f.array, rel):
        w = np.argwhere(~(np.abs(r.array.astype(float) - f.array) <= rel * np.abs(f.array)))[0]
        ctx.fail(f"{what}/values/{tag}", f"cell/component {tuple(int(i) for i in w)}: wrote {f.array[tuple(w)]!r} "
                 f"read {r.array[tuple(w)]!r}", instance=inst)
    # validity: same truth values ...
    rv = np.asarray(r.valid)
    if rv.shape != f.valid.shape or not np.array_equal(rv != 0, f.valid):
        ctx.fail(f"{what}/validity-values", f"valid {f.valid.astype(int).ravel().tolist()} read back as "
                 f"{rv.astype(int).ravel().tolist() if rv.shape == f.valid.shape else rv.shape}", instance=inst)
    else:
        # ... and usable as the mask it is documented to be (field.array[field.valid], ~valid)
        ok = True
        why = ""
        try:
            sel_r = r.array[r.valid]
            sel_f = r.array[f.valid]
            if sel_r.shape != sel_f.shape or not np.array_equal(sel_r, sel_f):
                ok, why = False, f"array[valid] has shape {sel_r.shape}, with the original mask {sel_f.shape}"
            elif not np.array_equal(~r.valid, ~f.valid):
                ok, why = False, f"~valid gives {np.unique(~r.valid).tolist()}"
        except Exception as e:  # noqa
            ok, why = False, f"array[valid] raises {type(e).__name__}: {e}"
        if not ok:
            ctx.fail(f"{what}/validity-not-a-mask", f"valid read back with dtype {rv.dtype}: {why}",
                     instance=inst)
    lf = None if f.vdims is None else [str(x) for x in f.vdims]
    lr = None if r.vdims is None else [str(x) for x in r.vdims]
    if lf != lr:
        cls = labelclass or ("scalar-with-label" if f.nvdim == 1 else "vector")
        # the label classes are decided by the labels alone: key the instance on them (stable known-finding key)
        ctx.fail(f"{what}/labels/{cls}", f"labels {lf} read back as {lr}",
                 instance=(f"nvdim={f.nvdim};labels={lf};read={lr}" if cls != "vector" else inst))
    sf, sr = _subs(f.mesh), _subs(r.mesh)
    if set(sf) != set(sr) or any(not (_close(sr[k][0], sf[k][0], rel) and _close(sr[k][1], sf[k][1], rel)) for k in sf):
        ctx.fail(f"{what}/subregions", f"subregions {sorted(sf)} read back as "
                 f"{ {k: (v[0].tolist(), v[1].tolist()) for k, v in sr.items()} }", instance=inst)
    ctx.observe(r.array, rv, lr, sorted(sr), r.mesh.region.pmin, r.mesh.region.pmax)


def _write_read(ctx, f, rep, d, name="f.vtk"):
    fn = os.path.join(d, name)
    ctx.step(1, f"to_file(vtk, {rep})")
    f.to_file(fn, representation=rep)
    ctx.step(1, "from_file")
    return C.raises(df.Field.from_file, fn)


def unit_roundtrip(ctx):
    thorough = ctx.tier == "thorough"
    n = ctx.choose("n", NS_T if thorough else NS_Q)
    geom = ctx.choose("geom", GEOMS_T if thorough else GEOMS_Q)
    nvdim = ctx.choose("nvdim", [1, 2, 3, 4])
    labels = ctx.choose("labels", ["default", "custom", "odd"] if thorough else ["default", "custom"])
    mask = ctx.choose("mask", MASKS_T[:4] if thorough else MASKS_Q)
    values = ctx.choose("values", VALUES[:3] if thorough else VALUES[:1])
    sub = ctx.choose("subregions", SUBS if thorough else SUBS[:3])
    rep = ctx.choose("rep", REPS)
    f = _field(n, geom, nvdim, labels, mask, values, ctx.seed, sub=sub)
    before = C.field_snap(f)
    inst = ctx.key()
    d = _tmpdir()
    try:
        raised, r = _write_read(ctx, f, rep, d)
        ctx.check()
        if C.field_snap(f) != before:
            ctx.fail("vtk-roundtrip/operand-modified", "field changed by to_file", instance=inst)
        if raised:
            cls = ("txt" if rep == "txt" else "exact") + ("+subregions" if sub != "none" else "")
            ctx.note("read-raises:" + type(r).__name__)
            # whether the reload of the side-car fails depends on the geometry and the layout only
            ctx.fail(f"vtk-roundtrip/read-raises/{cls}", f"file written by to_file({rep}) cannot be read: "
                     f"{type(r).__name__}: {r}",
                     instance=(ctx.key(drop=("nvdim", "labels", "mask", "values")) if cls == "txt+subregions" else inst))
            return
        _compare_read(ctx, f, r, rep, inst)
    finally:
        shutil.rmtree(d, ignore_errors=True)


def unit_overwrite(ctx):
    """the same path is written twice; the second file is what must come back"""
    first = ctx.choose("first", ["none", "touching", "all"])
    second = ctx.choose("second", ["none", "touching", "all"])
    rep = ctx.choose("rep", REPS)
    n, geom = (3, 2, 4), "unit"
    f1 = _field(n, geom, 3, "default", "all", "tracer", ctx.seed, sub=first)
    f2 = _field(n, geom, 1, "default", "coded0", "tracer", ctx.seed + 1, sub=second)
    inst = ctx.key()
    d = _tmpdir()
    try:
        fn = os.path.join(d, "f.vtk")
        ctx.step(2, "to_file twice to one path")
        f1.to_file(fn, representation=rep)
        f2.to_file(fn, representation=rep)
        ctx.step(1)
        raised, r = C.raises(df.Field.from_file, fn)
        if raised:
            ctx.fail("vtk-overwrite/read-raises", f"{type(r).__name__}: {r}", instance=inst)
            return
        ctx.check()
        sf, sr = _subs(f2.mesh), _subs(r.mesh)
        if set(sf) != set(sr):
            cls = "stale-subregions-of-previous-file" if set(sr) == set(_subs(f1.mesh)) else "other"
            ctx.fail(f"vtk-overwrite/subregions/{cls}", f"second field has subregions {sorted(sf)}, read back {sorted(sr)} "
                     f"(first field written to this path had {sorted(_subs(f1.mesh))})", instance=inst)
            ctx.observe(sorted(sr))
            return
        _compare_read(ctx, f2, r, rep, inst)
    finally:
        shutil.rmtree(d, ignore_errors=True)


def unit_reserved(ctx):
    """a component carries the label 'field' (accepted by Field, it is also the name of the value array)"""
    nvdim = ctx.choose("nvdim", [2, 3, 4])
    pos = ctx.choose("position", list(range(nvdim)))
    rep = ctx.choose("rep", REPS)
    lab = list(LABELS["custom"][:nvdim])
    lab[pos] = "field"
    n = (3, 2, 4)
    mesh = _mesh(n, "unit")
    refused, f = C.raises(df.Field, mesh, nvdim=nvdim, value=_values(n, nvdim, "tracer", ctx.seed), vdims=lab)
    if refused:
        ctx.note("label-field-refused-by-constructor")
        raise engine.Skip()
    inst = ctx.key()
    d = _tmpdir()
    try:
        ctx.step(1)
        raised, e = C.raises(f.to_file, os.path.join(d, "f.vtk"), representation=rep)
        if raised:
            ctx.note("label-field-refused-by-writer")  # a refusal loses nothing
            ctx.check()
            ctx.observe("refused")
            return
        ctx.step(1)
        raised, r = C.raises(df.Field.from_file, os.path.join(d, "f.vtk"))
        if raised:
            ctx.fail("vtk-roundtrip/read-raises/label-named-field", f"{type(r).__name__}: {r}", instance=inst)
            return
        _compare_read(ctx, f, r, rep, inst, labelclass="label-named-field")
    finally:
        shutil.rmtree(d, ignore_errors=True)


# ---------------------------------------------------------------------------
# provenance: producer -> VTK consumer

PRODUCERS = ["ctor", "h5", "ovf", "vtk", "xarray", "rotate90", "sel", "neg", "getitem"]


def _produce(f, how, d):
    if how == "ctor":
        return f
    if how in ("h5", "ovf", "vtk"):
        fn = os.path.join(d, "src." + {"h5": "h5", "ovf": "ovf", "vtk": "vtk"}[how])
        f.to_file(fn)
        return df.Field.from_file(fn)
    if how == "xarray":
        return df.Field.from_xarray(f.to_xarray())
    if how == "rotate90":
        return f.rotate90("x", "y")
    if how == "sel":
        return f.sel(x=(float(f.mesh.region.pmin[0]), float(f.mesh.region.pmax[0])))
    if how == "neg":
        return -f
    if how == "getitem":
        return f[f.mesh.region]
    raise ValueError(how)


def unit_provenance(ctx):
    how = ctx.choose("producer", PRODUCERS)
    nvdim = ctx.choose("nvdim", [1, 3])
    rep = ctx.choose("rep", REPS)
    f0 = _field((3, 2, 4), "unit", nvdim, "default", "coded0", "tracer", ctx.seed)
    inst = ctx.key()
    d = _tmpdir()
    try:
        try:
            f = _produce(f0, how, d)
        except Exception as e:  # the producer is another property's business
            ctx.note(f"producer-failed:{how}:{type(e).__name__}")
            raise engine.Skip()
        if not isinstance(f, df.Field) or f.mesh.region.ndim != 3:
            raise engine.Skip()
        ctx.step(1, f"to_vtk of a field from {how}")
        g = f.to_vtk()
        _check_grid(ctx, f, g, inst, points="centres")
        raised, r = _write_read(ctx, f, rep, d)
        if raised:
            ctx.fail("vtk-roundtrip/read-raises/provenance", f"{type(r).__name__}: {r}", instance=inst)
            return
        _compare_read(ctx, f, r, rep, inst)
    finally:
        shutil.rmtree(d, ignore_errors=True)


# ---------------------------------------------------------------------------
# legacy point-data files (layout of discretisedfield <= 0.61: points = cell centres)


def _write_legacy(fn, coords, data, nvdim):
    """coords: three lists of centre coordinates; data[(i,j,k)] -> tuple; x index fastest as the old writer did"""
    n = [len(c) for c in coords]
    lines = ["# vtk DataFile Version 3.0", "Field", "ASCII", "DATASET RECTILINEAR_GRID",
             "DIMENSIONS {} {} {}".format(*n)]
    for ax, c in zip("XYZ", coords):
        lines.append(f"{ax}_COORDINATES {len(c)} float")
        lines.append(" ".join(repr(float(x)) for x in c))
    lines.append(f"POINT_DATA {n[0] * n[1] * n[2]}")
    order = [(i, j, k) for k in range(n[2]) for j in range(n[1]) for i in range(n[0])]
    if nvdim == 1:
        lines += ["SCALARS field double", "LOOKUP_TABLE default"]
        lines += [repr(float(data[o][0])) for o in order]
    else:
        for c, nm in enumerate("xyz"):
            lines += [f"SCALARS {nm}-component double", "LOOKUP_TABLE default"]
            lines += [repr(float(data[o][c])) for o in order]
        lines.append("VECTORS field double")
        lines += [" ".join(repr(float(v)) for v in data[o]) for o in order]
    with open(fn, "w") as fh:
        fh.write("\n".join(lines))


def _vtk_points(fn, nvdim):
    """(positions, tuples) of the point data as VTK's own legacy reader sees them"""
    rd = vtkRectilinearGridReader()
    rd.ReadAllVectorsOn()
    rd.ReadAllScalarsOn()
    rd.SetFileName(fn)
    rd.Update()
    out = rd.GetOutput()
    pd = out.GetPointData()
    arr = pd.GetArray("field")
    if arr is None:
        raise RuntimeError("harness: VTK finds no point array 'field'")
    vals = vns.vtk_to_numpy(arr).reshape(out.GetNumberOfPoints(), -1)
    pts = np.array([out.GetPoint(i) for i in range(out.GetNumberOfPoints())])
    return tuple(out.GetDimensions()), pts, vals


def _check_legacy(ctx, fn, r, inst, coords=None):
    dims, pts, vals = _vtk_points(fn, None)
    ctx.check(2)
    if tuple(int(k) for k in r.mesh.n) != tuple(dims):
        ctx.fail("vtk-legacy/cell-counts", f"{dims} points per axis read as n={tuple(r.mesh.n)}", instance=inst)
        return
    if r.nvdim != vals.shape[1]:
        ctx.fail("vtk-legacy/component-count", f"{vals.shape[1]} components read as nvdim={r.nvdim}", instance=inst)
        return
    lat = C.Lattice.of(r.mesh)
    for pid in range(pts.shape[0]):
        p = [float(x) for x in pts[pid]]
        if coords is not None:
            # VTK keeps these coordinates as float32: take the harness' own double of the same point
            p = [min(coords[a], key=lambda x: abs(x - p[a])) for a in range(3)]
        idx = []
        for a in range(3):
            i = lat.floor_index(a, p[a])
            if i is None:
                # outside by rounding only?  (single-point axes: cell chosen by the library)
                tol = 4 * Fr(C.ulp(lat.magnitude(a))) + (Fr(0) if coords is not None else Fr(abs(p[a])) / 2 ** 22)
                if Fr(p[a]) < lat.pmin[a] and lat.pmin[a] - Fr(p[a]) <= tol:
                    i = 0
                elif Fr(p[a]) > lat.pmax[a] and Fr(p[a]) - lat.pmax[a] <= tol:
                    i = lat.n[a] - 1
            idx.append(i)
        ctx.check()
        if any(i is None for i in idx):
            ctx.fail("vtk-legacy/point-outside-mesh", f"file point {p} lies outside the mesh "
                     f"[{np.asarray(r.mesh.region.pmin).tolist()}, {np.asarray(r.mesh.region.pmax).tolist()}]", instance=inst)
            return
        got = r.array[tuple(idx)]
        if not _close(got, vals[pid], 1e-15):
            ctx.fail("vtk-legacy/value-not-in-the-cell-of-its-point",
                     f"file point {p} carries {vals[pid].tolist()}, the cell containing it {tuple(idx)} has {got.tolist()}",
                     instance=inst)
            return
    ctx.observe(r.array, r.mesh.n)


def unit_legacy(ctx):
    thorough = ctx.tier == "thorough"
    n = ctx.choose("n", NS_T if thorough else NS_Q)
    geom = ctx.choose("geom", (GEOMS_T if thorough else GEOMS_Q))
    nvdim = ctx.choose("nvdim", [1, 3])
    values = ctx.choose("values", VALUES[:2])
    pmin, cell = GEOMS[geom]
    coords = [[pmin[a] + (i + 0.5) * cell[a] for i in range(n[a])] for a in range(3)]
    arr = _values(n, nvdim, values, ctx.seed)
    data = {idx: tuple(arr[idx]) for idx in np.ndindex(*n)}
    inst = ctx.key()
    d = _tmpdir()
    try:
        fn = os.path.join(d, "legacy.vtk")
        _write_legacy(fn, coords, data, nvdim)
        ctx.step(1, "from_file(legacy point data)")
        raised, r = C.raises(df.Field.from_file, fn)
        if raised:
            # the reader invents a 1 nm cell for single-point axes; it vanishes next to offsets >= 1e7
            cls = "single-point-axis-at-large-offset" if any(
                n[a] == 1 and C.ulp(coords[a][0]) >= 1e-9 / 4 for a in range(3)) else "other"
            ctx.fail(f"vtk-legacy/read-raises/{cls}", f"{type(r).__name__}: {r}", instance=inst)
            return
        _check_legacy(ctx, fn, r, inst, coords=coords)
    finally:
        shutil.rmtree(d, ignore_errors=True)


def unit_legacy_samples(ctx):
    name = ctx.choose("file", ["vtk-scalar-legacy.vtk", "vtk-vector-legacy.vtk"])
    src = os.path.join(os.environ.get("DFMC_REPO", "/repo"), "discretisedfield", "tests", "test_sample", name)
    if not os.path.exists(src):
        ctx.note("sample-missing")
        raise engine.Skip()
    d = _tmpdir()
    try:
        fn = os.path.join(d, name)
        shutil.copy(src, fn)
        ctx.step(1, f"from_file({name})")
        raised, r = C.raises(df.Field.from_file, fn)
        if raised:
            ctx.fail("vtk-legacy/read-raises", f"{type(r).__name__}: {r}")
            return
        _check_legacy(ctx, fn, r, ctx.key())
    finally:
        shutil.rmtree(d, ignore_errors=True)


def unit_histories(ctx):
    """all write/read/mutate sequences on a two-path file store (mc/filehist.py): state leaking between calls"""
    from mc import filehist

    filehist.unit_store_histories(ctx, "vtk", "vtk")


def units(tier):
    return [
        {"name": "grid", "fn": unit_grid, "bound": None},
        {"name": "roundtrip", "fn": unit_roundtrip, "bound": None},
        {"name": "overwrite", "fn": unit_overwrite, "bound": None},
        {"name": "reserved", "fn": unit_reserved, "bound": None},
        {"name": "provenance", "fn": unit_provenance, "bound": None},
        {"name": "legacy", "fn": unit_legacy, "bound": None},
        {"name": "legacy_samples", "fn": unit_legacy_samples, "bound": None},
        {"name": "histories", "fn": unit_histories, "bound": None},
    ]
