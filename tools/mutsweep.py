#!/usr/bin/env python3
"""Systematic mutation sweep: how many small source mutations of the code a property is anchored in are reported
by that property's check?

  tools/mutsweep.py --prop C04 [--jobs 4] [--workers 4] [--max 0] [--stride 1] [--tier quick] [--no-suite]
                    [--out mutsweep/results]  [--only-missed-from FILE]

For every target function of the property (table TARGETS, resolved by name in the CURRENT tree with ast) every token
inside the function body (docstrings excluded) that has a replacement in the operator table yields one mutant
(one token changed).  Each mutant is applied to a private scratch copy of /repo's working tree (under /dev/shm,
removed at the end), then

  1. the property's check(s) run against the copy (DFMC_REPO=<copy>, DFMC_FAILFAST=1)   -> "detected" (exit 1),
     "harness-error" (exit 2) or silent (exit 0);
  2. only for silent mutants the repository's own test suite runs on the copy (-x)       -> "suite-kills" or "SURVIVES".

A SURVIVES mutant passes the existing tests and is not reported by the check: it is either an equivalent mutant (no
behaviour inside the property changes) or a gap in the check.  Those are listed for manual triage.
This is a measurement of the checks, not a check: nothing here decides a property and nothing is written to evidence/.
"""
import argparse
import ast
import io
import json
import os
import re
import shutil
import subprocess
import sys
import tempfile
import tokenize
from concurrent.futures import ThreadPoolExecutor

V = os.path.dirname(os.path.dirname(os.path.abspath(__file__)))
PY = "/venv/bin/python"
F, M, R = "discretisedfield/field.py", "discretisedfield/mesh.py", "discretisedfield/region.py"
OPS = "discretisedfield/operators.py"
OVF, H5, VTK, IO = ("discretisedfield/io/ovf.py", "discretisedfield/io/hdf5.py", "discretisedfield/io/vtk.py",
                    "discretisedfield/io/__init__.py")
ROT, TOOLS, UTIL = "discretisedfield/field_rotator.py", "discretisedfield/tools/tools.py", "discretisedfield/util/util.py"
MPL, PUTIL, LINE = "discretisedfield/plotting/mpl_field.py", "discretisedfield/plotting/util.py", "discretisedfield/line.py"

# property -> [(file, function name or name#k for the k-th definition of that name (1-based))]
TARGETS = {
    "C01": [(M, "__init__"), (M, "__len__"), (M, "indices"), (M, "__iter__"), (M, "cells"), (M, "vertices"),
            (M, "index2point"), (M, "point2index"), (M, "coordinate_field"), (R, "__contains__"), (R, "edges"), (M, "cell"), (M, "n")],
    "C02": [(F, "_#3"), (F, "_#4"), (F, "_#5"), (F, "_#1"), (F, "update_field_values"), (F, "array#2"), (F, "__call__"),
            (F, "__getattr__"), (F, "__iter__"), (F, "line"), (M, "line"), (LINE, "__init__"), (LINE, "length")],
    "C03": [(F, "_check_same_mesh_and_field_dim"), (F, "_apply_operator"), (F, "_result_labels"), (F, "__pos__"), (F, "__neg__"),
            (F, "__abs__"), (F, "__pow__"), (F, "__add__"), (F, "__radd__"), (F, "__sub__"), (F, "__rsub__"), (F, "__mul__"),
            (F, "__rmul__"), (F, "__truediv__"), (F, "__rtruediv__"), (F, "dot"), (F, "cross"), (F, "__lshift__"),
            (F, "__rlshift__"), (F, "angle"), (F, "real"), (F, "imag"), (F, "phase"), (F, "abs"), (F, "conjugate"),
            (F, "__array_ufunc__"), (F, "is_same_vectorspace")],
    "C04": [(OPS, "_1d_diff"), (OPS, "_split_array_on_idx"), (OPS, "_split_diff_combine"), (F, "diff"), (F, "pad")],
    "C05": [(F, "grad"), (F, "div"), (F, "curl"), (F, "laplace"), (F, "_r_dim_mapping"), (F, "vdim_mapping#2"), (F, "vdims#2")],
    "C06": [(F, "integrate"), (F, "mean"), (OPS, "integrate"), (M, "dV")],
    "C07": [(M, "sel"), (M, "_sel_convert_input"), (F, "sel"), (M, "__getitem__"), (F, "__getitem__"), (M, "region2slices"),
            (F, "pad"), (M, "pad"), (F, "resample"), (R, "__contains__")],
    "C08": [(F, "valid#2"), (F, "_valid_as_field"), (F, "_apply_operator"), (F, "dot"), (F, "cross"), (F, "angle"),
            (F, "__lshift__"), (F, "pad"), (F, "sel"), (F, "resample"), (F, "__getitem__"), (F, "rotate90"), (F, "orientation"),
            (F, "norm#1"), (F, "__getattr__"), (F, "real"), (F, "imag"), (H5, "_h5_load_field"), (H5, "_h5_save_data"),
            (VTK, "_from_vtk"), (F, "to_vtk"), (F, "__array_ufunc__")],
    "C09": [(OVF, "_to_ovf"), (OVF, "_from_ovf"), (IO, "save_subregions"), (IO, "load_subregions"), (IO, "to_file"), (IO, "from_file")],
    "C10": [(H5, "_h5_save#1"), (H5, "_h5_load#1"), (H5, "_h5_save#2"), (H5, "_h5_load#2"), (H5, "_to_hdf5"),
            (H5, "_h5_save_structure"), (H5, "_h5_save_data"), (H5, "_from_hdf5"), (H5, "_h5_load_field"),
            (H5, "_h5_legacy_load_field"), (R, "__init__"), (R, "to_dict")],
    "C11": [(F, "fftn"), (F, "ifftn"), (F, "rfftn"), (F, "irfftn"), (F, "_fftn"), (M, "fftn"), (M, "ifftn")],
    "C12": [(R, "rotate90"), (M, "rotate90"), (F, "rotate90"), (F, "_r_dim_mapping")],
    "C13": [(R, "scale"), (R, "translate"), (R, "rotate90"), (M, "scale"), (M, "translate"), (M, "rotate90"), (R, "__init__"),
            (F, "rotate90")],
    "C14": [(M, "subregions#2"), (M, "is_aligned"), (M, "sel"), (M, "scale"), (M, "translate"), (M, "rotate90"),
            (M, "__getitem__"), (IO, "save_subregions"), (IO, "load_subregions"), (H5, "_h5_save#2"), (H5, "_h5_load#2"), (R, "__contains__")],
    "C15": [(F, "norm#1"), (F, "norm#2"), (F, "orientation"), (F, "__init__"), (F, "update_field_values")],
    "C16": [(F, "to_vtk"), (VTK, "_to_vtk"), (VTK, "_from_vtk"), (VTK, "_from_vtk_legacy")],
    "C17": [(F, "to_xarray"), (F, "from_xarray")],
    "C18": [(ROT, "__init__"), (ROT, "rotate"), (ROT, "_rotate_orig_field"), (ROT, "clear_rotation"), (ROT, "_map_and_interpolate"),
            (ROT, "_create_interpolation_funcs"), (ROT, "_calculate_new_n"), (ROT, "_calculate_new_region")],
    "C19": [(TOOLS, "topological_charge_density"), (TOOLS, "topological_charge"), (TOOLS, "neighbouring_cell_angle"),
            (TOOLS, "count_bps"), (TOOLS, "emergent_magnetic_field"), (TOOLS, "_demag_tensor_field_based"), (TOOLS, "demag_tensor"),
            (TOOLS, "demag_field"), (TOOLS, "_f"), (TOOLS, "_g"), (TOOLS, "_N_element"), (TOOLS, "_N"), (UTIL, "bergluescher_angle")],
    "C20": [(MPL, "__call__"), (MPL, "scalar"), (MPL, "lightness"), (MPL, "vector"), (MPL, "contour"), (MPL, "_filter_values"),
            (MPL, "_axis_labels"), (MPL, "_extent"), (PUTIL, "normalise_to_range"), (PUTIL, "inplane_angle")],
}

OPMAP = {"+": ["-"], "-": ["+"], "*": ["/"], "/": ["*"], "//": ["/"], "%": ["//"], "**": ["*"],
         "<": ["<="], "<=": ["<"], ">": [">="], ">=": [">"], "==": ["!="], "!=": ["=="],
         "+=": ["-="], "-=": ["+="], "*=": ["/="], "/=": ["*="], "&": ["|"], "|": ["&"], "~": [""]}
NAMEMAP = {"and": ["or"], "or": ["and"], "True": ["False"], "False": ["True"], "not": [""],
           "min": ["max"], "max": ["min"], "minimum": ["maximum"], "maximum": ["minimum"], "floor": ["ceil"], "ceil": ["floor"],
           "any": ["all"], "all": ["any"], "fftshift": ["ifftshift"], "ifftshift": ["fftshift"],
           "logical_and": ["logical_or"], "logical_or": ["logical_and"], "reversed": ["list"], "sorted": ["list"],
           "sin": ["cos"], "cos": ["sin"], "pmin": ["pmax"], "pmax": ["pmin"], "real": ["imag"], "imag": ["real"],
           "rfftfreq": ["fftfreq"], "argmin": ["argmax"], "cumsum": ["cumprod"], "copy": ["view"], "is": ["is not"],
           "in": ["not in"], "round": ["floor"], "rint": ["floor"], "ones": ["zeros"], "zeros": ["ones"],
           "ones_like": ["zeros_like"], "zeros_like": ["ones_like"], "inplace": None, "isclose": None}


def find_func(tree, name):
    base, _, k = name.partition("#")
    k = int(k) if k else 1
    hits = sorted((n for n in ast.walk(tree) if isinstance(n, ast.FunctionDef) and n.name == base), key=lambda n: n.lineno)
    if len(hits) < k:
        return None
    return hits[k - 1]


def mutants_of(path_rel, fname, src):
    tree = ast.parse(src)
    fn = find_func(tree, fname)
    if fn is None:
        return []
    lo = fn.body[0].lineno
    if isinstance(fn.body[0], ast.Expr) and isinstance(getattr(fn.body[0], "value", None), ast.Constant) \
            and isinstance(fn.body[0].value.value, str):
        lo = fn.body[0].end_lineno + 1
    hi = fn.end_lineno
    lines = src.splitlines(keepends=True)
    offs = [0]
    for l in lines:
        offs.append(offs[-1] + len(l))
    out = []
    toks = list(tokenize.generate_tokens(io.StringIO(src).readline))
    prev = None
    for t in toks:
        (sl, sc), (el, ec) = t.start, t.end
        if sl < lo or sl > hi or sl != el:
            prev = t
            continue
        reps = []
        if t.type == tokenize.OP and t.string in OPMAP:
            # skip '*' / '**' used for unpacking, '-' in default args is fine
            if t.string in ("*", "**") and prev is not None and prev.string in ("(", ",", "[", "{", "=", "lambda"):
                reps = []
            else:
                reps = OPMAP[t.string]
        elif t.type == tokenize.NAME and NAMEMAP.get(t.string):
            # 'in' of a for loop / comprehension is not a comparison
            if t.string == "in":
                line = lines[sl - 1]
                if re.search(r"\bfor\b", line[:sc]):
                    reps = []
                else:
                    reps = NAMEMAP[t.string]
            elif t.string == "is":
                reps = []  # 'is not' handled poorly by single token replacement
            elif prev is not None and prev.string == "." and t.string in ("real", "imag", "copy", "pmin", "pmax", "min", "max", "all", "any"):
                reps = NAMEMAP[t.string]
            elif prev is not None and prev.string == "def":
                reps = []
            else:
                reps = NAMEMAP[t.string]
        elif t.type == tokenize.NUMBER:
            s = t.string
            try:
                if re.fullmatch(r"\d+", s):
                    v = int(s)
                    reps = [str(v + 1)] + ([str(v - 1)] if v >= 1 else [])
                else:
                    v = float(s)
                    reps = [repr(v * 2.0), repr(v * 1e3)] if v != 0 else ["1.0"]
            except ValueError:
                reps = []
        for r in reps:
            a, b = offs[sl - 1] + sc, offs[el - 1] + ec
            new = src[:a] + r + src[b:]
            try:
                ast.parse(new)
            except SyntaxError:
                continue
            out.append({"file": path_rel, "func": fname, "line": sl, "col": sc, "old": t.string, "new": r,
                        "context": lines[sl - 1].strip()[:160], "_src": new})
        prev = t
    return out


def sh(cmd, cwd=None, env=None, timeout=3600):
    e = dict(os.environ)
    e.pop("DISCRETISEDFIELD_VERIF", None)
    if env:
        e.update(env)
    try:
        p = subprocess.run(cmd, shell=True, cwd=cwd, env=e, capture_output=True, text=True, timeout=timeout)
        return p.returncode, p.stdout + p.stderr
    except subprocess.TimeoutExpired as ex:
        return 124, f"TIMEOUT after {timeout}s"


class Job:
    def __init__(self, idx, base):
        self.dir = os.path.join(base, f"job{idx}")
        sh(f"rsync -a --exclude .git --exclude '*.pyc' --exclude __pycache__ --exclude docs /repo/ {self.dir}/")


def run_mutant(job, m, props, tier, workers, do_suite):
    path = os.path.join(job.dir, m["file"])
    orig = open(path).read()
    res = {k: v for k, v in m.items() if not k.startswith("_")}
    try:
        open(path, "w").write(m["_src"])
        verdict, sigs = "silent", []
        for c in props:
            rc, o = sh(f"./check {c} --tier {tier} --workers {workers}", cwd=V,
                       env={"DFMC_REPO": job.dir, "DFMC_FAILFAST": "1"}, timeout=1500)
            sg = re.findall(r"sig=(\S+) instances=(\d+)", o)
            if rc == 1:
                verdict, sigs = "detected", [f"{c}:{s}" for s, _ in sg][:3]
                break
            if rc != 0:
                herr = [l[:160] for l in o.splitlines() if l.startswith(("HARNESS", "ENGINE"))][:2]
                verdict, sigs = ("timeout" if rc == 124 else "harness-error"), herr or [o.strip()[-160:]]
                break
        res["check"] = verdict
        res["sigs"] = sigs
        if verdict == "silent" and do_suite:
            rc, o = sh(f"{PY} -m pytest -x -q -p no:cacheprovider --timeout=600 "
                       f"--deselect discretisedfield/tests/test_field.py::test_pyvista_streamlines "
                       f"-k 'not test_pyvista_streamlines and not test_ovf2vtk' discretisedfield",
                       cwd=job.dir, env={"PYTHONPATH": job.dir, "MPLBACKEND": "Agg"}, timeout=1500)
            tail = o.strip().splitlines()[-1] if o.strip() else ""
            res["suite"] = "passes" if rc == 0 else ("timeout" if rc == 124 else "fails")
            res["suite_tail"] = tail[:160]
            fl = [l for l in o.splitlines() if l.startswith(("FAILED", "ERROR"))][:1]
            if fl:
                res["suite_first_failure"] = fl[0][:200]
        if verdict == "silent":
            res["status"] = "SURVIVES" if res.get("suite") == "passes" else ("suite-kills" if do_suite else "silent")
        else:
            res["status"] = verdict
    finally:
        open(path, "w").write(orig)
    return res


def main():
    ap = argparse.ArgumentParser()
    ap.add_argument("--prop", required=True)
    ap.add_argument("--checks", default=None, help="comma separated checks to run (default: the property's own)")
    ap.add_argument("--jobs", type=int, default=4)
    ap.add_argument("--workers", type=int, default=4)
    ap.add_argument("--max", type=int, default=0)
    ap.add_argument("--stride", type=int, default=1)
    ap.add_argument("--tier", default="quick")
    ap.add_argument("--no-suite", action="store_true")
    ap.add_argument("--out", default=os.path.join(V, "mutsweep", "results"))
    ap.add_argument("--list", action="store_true")
    ap.add_argument("--redo", default=None, help="results file: re-run only the mutants listed there with status SURVIVES")
    a = ap.parse_args()
    props = a.checks.split(",") if a.checks else [a.prop]
    muts = []
    for path_rel, fname in TARGETS[a.prop]:
        src = open(os.path.join("/repo", path_rel)).read()
        ms = mutants_of(path_rel, fname, src)
        if not ms:
            print(f"note: no mutants for {path_rel}:{fname}", file=sys.stderr)
        muts.extend(ms)
    # de-duplicate (a function listed under two names)
    seen, uniq = set(), []
    for m in muts:
        k = (m["file"], m["line"], m["col"], m["new"])
        if k not in seen:
            seen.add(k)
            uniq.append(m)
    muts = uniq
    if a.redo:
        want = {(r["file"], r["line"], r["col"], r["new"]) for r in map(json.loads, open(a.redo)) if r.get("status") in ("SURVIVES", "silent")}
        muts = [m for m in muts if (m["file"], m["line"], m["col"], m["new"]) in want]
    if a.stride > 1:
        muts = muts[:: a.stride]
    if a.max and len(muts) > a.max:  # evenly spaced subset (deterministic)
        step = -(-len(muts) // a.max)
        muts = muts[::step][: a.max]
    print(f"{a.prop}: {len(muts)} mutants over {len(TARGETS[a.prop])} functions", file=sys.stderr)
    if a.list:
        for m in muts:
            print(m["file"], m["func"], m["line"], m["old"], "->", m["new"], "|", m["context"])
        return
    base = tempfile.mkdtemp(prefix="mutsweep.", dir="/dev/shm" if os.path.isdir("/dev/shm") else "/tmp")
    os.makedirs(a.out, exist_ok=True)
    outp = os.path.join(a.out, f"{a.prop}.jsonl")
    try:
        jobs = [Job(i, base) for i in range(a.jobs)]
        import queue

        q = queue.Queue()
        for j in jobs:
            q.put(j)

        def work(m):
            j = q.get()
            try:
                return run_mutant(j, m, props, a.tier, a.workers, not a.no_suite)
            finally:
                q.put(j)

        counts = {}
        with ThreadPoolExecutor(a.jobs) as ex, open(outp, "a" if a.redo else "w") as f:
            for r in ex.map(work, muts):
                counts[r["status"]] = counts.get(r["status"], 0) + 1
                f.write(json.dumps(r) + "\n")
                f.flush()
                print(f"{r['status']:13s} {r['file']}:{r['line']} {r['func']} {r['old']!r}->{r['new']!r} {r.get('sigs', '')[:1]} | {r['context'][:90]}")
                sys.stdout.flush()
        print("SUMMARY", a.prop, json.dumps(counts))
    finally:
        shutil.rmtree(base, ignore_errors=True)


if __name__ == "__main__":
    main()
