#!/bin/bash
# tools/run_all.sh [quick|thorough] [workers]  - run every claimed check once, print exit code, wall time, VIOLATION / KNOWN-FINDING counts
tier=${1:-quick}; workers=${2:-16}
cd "$(dirname "$0")/.."
mkdir -p .scratch/logs
for i in 01 02 03 04 05 06 07 08 09 10 11 12 13 14 15 16 17 18 19 20; do
  s=$(date +%s)
  ./check C$i --tier $tier --workers $workers > .scratch/logs/C$i.$tier.log 2>&1; rc=$?
  e=$(date +%s)
  echo "C$i rc=$rc t=$((e-s))s viol=$(grep -c '^VIOLATION' .scratch/logs/C$i.$tier.log) known=$(grep -c '^KNOWN-FINDING' .scratch/logs/C$i.$tier.log) harness=$(grep -c '^HARNESS' .scratch/logs/C$i.$tier.log)"
done
