#!/usr/bin/env python3
"""Evaluate one seeded change: seed_eval.py <seed_dir> <Cxx> [Cyy ...] [--thorough] [--no-suite]

Uses a scratch copy of /repo's working tree (outside /repo and /verif), so /repo itself is never touched:
  1. demo.py on the unchanged copy   -> must exit 0
  2. apply patch.diff, demo.py again  -> must exit non-zero
  3. repository test suite on the patched copy -> only the two always-failing tests may fail
  4. ./check Cxx --tier quick (and thorough with --thorough, or when quick misses) against the patched copy
The scratch copy is removed at the end.  Prints a JSON summary on the last line.
"""
import json
import os
import re
import shutil
import subprocess
import sys
import tempfile

V = os.path.dirname(os.path.dirname(os.path.abspath(__file__)))
PY = "/venv/bin/python"


def sh(cmd, cwd=None, env=None, timeout=3600):
    e = dict(os.environ)
    e.pop("DISCRETISEDFIELD_VERIF", None)
    if env:
        e.update(env)
    p = subprocess.run(cmd, shell=True, cwd=cwd, env=e, capture_output=True, text=True, timeout=timeout)
    return p.returncode, p.stdout + p.stderr


def main():
    args = [a for a in sys.argv[1:] if not a.startswith("--")]
    flags = {a for a in sys.argv[1:] if a.startswith("--")}
    seed = os.path.abspath(args[0])
    checks = args[1:]
    scratch = tempfile.mkdtemp(prefix="seedeval.", dir="/tmp")
    out = {"seed": seed, "checks": {}}
    try:
        sh(f"rsync -a --exclude .git --exclude '*.pyc' --exclude __pycache__ /repo/ {scratch}/")
        envp = {"PYTHONPATH": scratch, "MPLBACKEND": "Agg"}
        rc0, o0 = sh(f"{PY} -W ignore {seed}/demo.py", cwd=scratch, env=envp, timeout=900)
        out["demo_unchanged_exit"] = rc0
        rca, oa = sh(f"git apply --verbose {seed}/patch.diff", cwd=scratch)
        out["patch_applies"] = rca == 0
        if rca != 0:
            out["apply_output"] = oa[-500:]
            print(json.dumps(out))
            return
        rc1, o1 = sh(f"{PY} -W ignore {seed}/demo.py", cwd=scratch, env=envp, timeout=900)
        out["demo_changed_exit"] = rc1
        out["demo_changed_tail"] = o1.strip()[-300:]
        if "--no-suite" not in flags:
            rcs, os_ = sh(f"{PY} -m pytest -q -p no:cacheprovider --timeout=900 --continue-on-collection-errors discretisedfield",
                          cwd=scratch, env=envp, timeout=3000)
            fails = [l for l in os_.splitlines() if re.match(r"^(FAILED|ERROR)", l)
                     and "test_pyvista_streamlines" not in l and "test_ovf2vtk" not in l]
            out["suite_unexpected_failures"] = fails[:10]
            out["suite_summary"] = os_.strip().splitlines()[-1] if os_.strip() else ""
        for c in checks:
            res = {}
            tiers = ["quick"] + (["thorough"] if "--thorough" in flags else [])
            for tier in tiers:
                rc, o = sh(f"./check {c} --tier {tier}", cwd=V, env={"DFMC_REPO": scratch}, timeout=7200)
                sigs = re.findall(r"sig=(\S+) instances=(\d+)", o)
                res[tier] = {"exit": rc, "violations": [f"{s} x{n}" for s, n in sigs][:8],
                             "harness": [l[:200] for l in o.splitlines() if l.startswith("HARNESS")][:3]}
                if rc == 1:
                    break
            out["checks"][c] = res
    finally:
        shutil.rmtree(scratch, ignore_errors=True)
    print(json.dumps(out))


if __name__ == "__main__":
    main()
