#!/usr/bin/env python3
"""seed_archive.py <seed_out_dir> <name> <eval_json> [note]  -> /verif/seeded/<name>/{patch.diff,demo.py,meta.json}"""
import json, os, shutil, sys
V = os.path.dirname(os.path.dirname(os.path.abspath(__file__)))
src, name, evalf = sys.argv[1:4]
note = sys.argv[4] if len(sys.argv) > 4 else ""
dst = os.path.join(V, "seeded", name)
os.makedirs(dst, exist_ok=True)
shutil.copy(os.path.join(src, "patch.diff"), dst)
shutil.copy(os.path.join(src, "demo.py"), dst)
meta = json.load(open(os.path.join(src, "meta.json")))
ev = json.loads(open(evalf).read().strip().splitlines()[-1])
out = {
    "property": meta.get("property"),
    "summary": meta.get("summary"),
    "what_it_needs_to_manifest": meta.get("what_it_needs_to_manifest"),
    "files_touched": meta.get("files_touched"),
    "author": "independent sub-agent given only the property text and a scratch worktree",
    "confirmed_by_maintainer_of_verif": {
        "how": "tools/seed_eval.py on a scratch copy of /repo's working tree (rsync, outside /repo and /verif): demo.py unchanged, "
               "git apply patch.diff, demo.py changed, full repository suite on the patched copy, then ./check with DFMC_REPO=<copy>",
        "demo_unchanged_exit": ev.get("demo_unchanged_exit"),
        "demo_changed_exit": ev.get("demo_changed_exit"),
        "suite_summary_with_change": ev.get("suite_summary"),
        "suite_unexpected_failures": ev.get("suite_unexpected_failures"),
        "checks": ev.get("checks"),
    },
    "note": note,
}
json.dump(out, open(os.path.join(dst, "meta.json"), "w"), indent=1)
print("archived", dst)
