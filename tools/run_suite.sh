#!/bin/bash
# run the repository's own suite (guard off) and report failures other than the two always-failing tests
out=${1:-/tmp/suite.log}
cd /repo && env -u DISCRETISEDFIELD_VERIF /venv/bin/python -m pytest -q -p no:cacheprovider --timeout=900 --continue-on-collection-errors > "$out" 2>&1
grep -E "^(FAILED|ERROR)" "$out" | grep -v -e test_pyvista_streamlines -e "test_ovf2vtk" > "$out.unexpected"
tail -1 "$out" > "$out.summary"
if [ -s "$out.unexpected" ]; then echo "UNEXPECTED FAILURES:"; cat "$out.unexpected"; else echo "suite ok: $(cat $out.summary)"; fi
