#!/usr/bin/env python3
"""Regenerate the machine-written tables of DESIGN.md section 10 (between the markers
<!-- BEGIN:coverage --> ... <!-- END:coverage --> and <!-- BEGIN:seeded --> ... <!-- END:seeded -->)
from evidence/*.json (last run of each check in /verif) and seeded/*/{meta,recheck}.json."""
import glob
import json
import os
import re

V = os.path.dirname(os.path.dirname(os.path.abspath(__file__)))


def coverage_table():
    rows = ["| id | tier of last run | units (executions) | executions | states | checked library calls | oracle comparisons | distinct outcomes | exhaustive | wall (16 cores) |",
            "|----|----|----|----|----|----|----|----|----|----|"]
    for f in sorted(glob.glob(os.path.join(V, "evidence", "C*.json"))):
        e = json.load(open(f))
        c = e["coverage"]
        units = ", ".join(f"{k} ({v['executions']})" for k, v in c.get("per_unit", {}).items())
        rows.append(f"| {e['property_id']} | {e['tier']} | {units} | {c.get('evaluations')} | {c.get('states')} | {c.get('transitions')} | "
                    f"{c.get('oracle_comparisons')} | {c.get('distinct_nontrivial')} | {c.get('exhaustive')} | {e.get('wall_s')} s |")
    return "\n".join(rows)


def short(s, n):
    s = re.sub(r"\s+", " ", s or "").strip()
    return s if len(s) <= n else s[: n - 1] + "…"


def seeded_table():
    rows = ["| seed | property | the change | needs, to manifest | caught by (first signature of the check, tier) |",
            "|----|----|----|----|----|"]
    for d in sorted(glob.glob(os.path.join(V, "seeded", "*"))):
        name = os.path.basename(d)
        try:
            m = json.load(open(os.path.join(d, "meta.json")))
        except Exception:
            continue
        det = "not re-run yet"
        for src in ("recheck_thorough.json", "recheck.json"):
            p = os.path.join(d, src)
            if os.path.exists(p):
                r = json.load(open(p))
                hits = [f"{c}: `{v['violations'][0]}`" for c, v in (r.get("checks") or {}).items() if v.get("exit") == 1 and v.get("violations")]
                if hits:
                    det = "; ".join(hits) + f" ({r.get('tier')})"
                    if src == "recheck.json":
                        break
                elif det == "not re-run yet":
                    det = f"**MISSED** ({r.get('tier')}): {r.get('status')}"
        rows.append(f"| {name} | {m.get('property')} | {short(m.get('summary'), 260)} | {short(m.get('what_it_needs_to_manifest'), 200)} | {det} |")
    return "\n".join(rows)


def main():
    p = os.path.join(V, "DESIGN.md")
    s = open(p).read()
    for tag, fn in (("coverage", coverage_table), ("seeded", seeded_table)):
        b, e = f"<!-- BEGIN:{tag} -->", f"<!-- END:{tag} -->"
        if b in s and e in s:
            s = s[: s.index(b) + len(b)] + "\n" + fn() + "\n" + s[s.index(e):]
    open(p, "w").write(s)
    print("DESIGN.md tables regenerated")


if __name__ == "__main__":
    main()
