#!/usr/bin/env python3
"""Regenerate /verif/MANIFEST.json from the table below (claimed = a check
module exists under checks/)."""
import glob
import json
import os

V = os.path.dirname(os.path.dirname(os.path.abspath(__file__)))

T = {
    "C01": ("stateless bounded-exhaustive exploration: all lattices of the axis alphabet x all cells/faces/outside probes vs exact rational lattice; depth-2 histories of in-place/copying transformations and caller-side aliasing, the whole description re-checked in every state", "5 C01"),
    "C02": ("stateless bounded-exhaustive exploration over value-specification kinds x meshes x dtypes vs reference evaluator; values assigned in non-initial states (mesh used, then transformed in place)", "5 C02"),
    "C03": ("bounded-exhaustive exploration over expression programs (all trees up to depth bound) vs NumPy reference interpreter", "5 C03"),
    "C04": ("bounded-exhaustive exploration: all 2^L validity patterns x order x bc x restrict on the real diff, run/polynomial/locality/ring oracle", "5 C04"),
    "C05": ("bounded-exhaustive exploration: all mapping permutations x dims x polynomial and impulse bases vs exact polynomial calculus", "5 C05"),
    "C06": ("bounded-exhaustive exploration: all direction orders/subsets on impulse bases vs exact rational sums; operation sequences on one object (reuse, in-place transformation, complex/int values)", "5 C06"),
    "C07": ("bounded-exhaustive exploration: all aligned boxes, all range pairs, pads, resamplings vs exact lattice position oracle", "5 C07"),
    "C08": ("explicit-state search over operation programs (depth-bounded BFS on live fields) vs mask algebra + aliasing test", "5 C08"),
    "C09": ("bounded-exhaustive exploration of write/read configurations + fault enumeration (every truncation offset, every check-value corruption)", "5 C09"),
    "C10": ("bounded-exhaustive exploration of field configurations through HDF5 write/read vs attribute equality", "5 C10"),
    "C11": ("bounded-exhaustive exploration: all small shapes x 4 transforms x impulse basis vs O(N^2) DFT", "5 C11"),
    "C12": ("explicit-state search over quarter-turn sequences (all axis pairs, k, reference, mapping) vs integer Q^k formula", "5 C12"),
    "C13": ("explicit-state BFS over transformation histories (copy/in-place) with invariants, exact affine image, confluence", "5 C13"),
    "C14": ("bounded-exhaustive exploration of all aligned/misaligned boxes + explicit-state search over selection/transform/reload histories", "5 C14"),
    "C15": ("bounded-exhaustive exploration over vector-length alphabet x norm specifications", "5 C15"),
    "C16": ("bounded-exhaustive exploration of 3-d fields x representations, VTK's own cell locator as oracle", "5 C16"),
    "C17": ("bounded-exhaustive exploration: all subsets of removed attributes x meshes x dtypes", "5 C17"),
    "C18": ("explicit-state search of the rotation-state graph to closure (octahedral group) + exhaustive non-lattice alphabet", "5 C18"),
    "C19": ("bounded-exhaustive exploration: texture family x transformation group elements; cuboids x cells", "5 C19"),
    "C20": ("bounded-exhaustive exploration: plot kinds x mapping x multiplier x filter, matplotlib artists as observables", "5 C20"),
}

LEVEL_TEXT = ("Bounded-exhaustive model checking of the implementation itself: a closed driver makes every decision "
              "through explicit choice points and the explorer enumerates ALL choice sequences / operation histories inside "
              "the stated bounds, running the real library on each and comparing with an exact reference model. "
              "This is the right level for a property that is universally quantified over inputs/configurations/histories of a "
              "sequential numerical library: no sampling, exact oracles, small-scope completeness.")
NOTE = ("Every check also explores short operation histories on live objects (use, change through a public route, use again) with a differential oracle against a freshly built object; violations that depend on earlier executions in the same process are replayed in a fresh interpreter and reported with the minimised sequence. Trusted base: the dfmc explorer (self-tested by setup_cmd), the reference models under /verif/mc and in the check "
        "module, NumPy/SciPy and the installed third-party readers used as observers. Holds inside the alphabets and "
        "bounds recorded in the evidence file; continuous quantifiers are covered only via the linearity arguments stated there.")


# checks that are finished AND silent on the unchanged tree (apart from listed known findings)
READY = set(open(os.path.join(V, "tools", "ready.txt")).read().split())


def main():
    props = [json.loads(l) for l in open(os.path.join(V, "properties.jsonl"))]
    checks, na = [], []
    for p in props:
        pid = p["id"]
        mods = glob.glob(os.path.join(V, "checks", pid.lower() + "_*.py"))
        if mods and pid in READY:
            tech, ref = T[pid]
            checks.append({
                "property_id": pid,
                "quick_cmd": f"./check {pid} --tier quick",
                "thorough_cmd": f"./check {pid} --tier thorough",
                "evidence_file": f"evidence/{pid}.json",
                "replay_cmd_template": f"./check {pid} --replay {{path}}",
                "engine": "dfmc",
                "level_claimed": {"category": "model_checking", "text": LEVEL_TEXT, "design_ref": f"DESIGN.md section {ref}"},
                "level_note": NOTE,
                "technique": tech,
            })
        else:
            na.append({"property_id": pid, "reason": "model checking applies (see DESIGN.md section 5) but the check is not built yet; not claimed until it is"})
    m = {
        "version": 1,
        "setup_cmd": "./check --selftest",
        "hooks": {
            "guard": "DISCRETISEDFIELD_VERIF",
            "enable": "no hooks exist: every observation point is public API; ./check exports DISCRETISEDFIELD_VERIF=1 and PYTHONPATH=/repo and imports the working tree directly (nothing is compiled)",
            "baseline_off_cmd": "cd /repo && /venv/bin/python -m pytest -ra -q -p no:cacheprovider --timeout=900 --continue-on-collection-errors",
            "source_commits": [],
            "add_only": True,
        },
        "engines": [{
            "name": "dfmc",
            "path": "mc/",
            "serves_properties": [c["property_id"] for c in checks],
            "kind_free_text": "hand-written bounded-exhaustive explorer for Python: choice-point DFS with deviation bound (stateless model checking of the real library), explicit-state BFS over operation histories with canonical-state hashing, fault enumeration over write histories",
        }],
        "checks": checks,
        "not_applicable": na,
        "notes": "All checks: ./check <id> [--tier quick|thorough] [--replay FILE]; exit 0 held / 1 VIOLATION / 2 harness error. Known findings: KNOWN_FINDINGS.txt + findings/*.instances (read-only at run time).",
    }
    with open(os.path.join(V, "MANIFEST.json"), "w") as f:
        json.dump(m, f, indent=1)
    try:
        import jsonschema

        jsonschema.validate(m, json.load(open("/root/.vp/MANIFEST.schema.json")))
        print("MANIFEST valid;", len(checks), "claimed,", len(na), "not yet")
    except ImportError:
        print("written (jsonschema unavailable)")


if __name__ == "__main__":
    main()
