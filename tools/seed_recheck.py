#!/usr/bin/env python3
"""Re-run the archived seeded changes (/verif/seeded/*) against the CURRENT checks and the current /repo tree.

  seed_recheck.py [--tier quick|thorough] [--jobs N] [name ...]

For every seed: scratch copy of /repo's working tree (outside /repo and /verif), git apply patch.diff, demo.py must
fail, ./check <property> with DFMC_REPO=<copy>.  Writes seeded/<name>/recheck.json and prints one line per seed.
The repository suite is NOT re-run here (that was done once when the seed was confirmed, see meta.json).
"""
import json
import os
import re
import shutil
import subprocess
import sys
import tempfile
from concurrent.futures import ThreadPoolExecutor

V = os.path.dirname(os.path.dirname(os.path.abspath(__file__)))
PY = "/venv/bin/python"


def sh(cmd, cwd=None, env=None, timeout=7200):
    e = dict(os.environ)
    if env:
        e.update(env)
    p = subprocess.run(cmd, shell=True, cwd=cwd, env=e, capture_output=True, text=True, timeout=timeout)
    return p.returncode, p.stdout + p.stderr


def one(name, tier, workers):
    d = os.path.join(V, "seeded", name)
    meta = json.load(open(os.path.join(d, "meta.json")))
    props = meta.get("checks_to_run") or [meta["property"]]
    scratch = tempfile.mkdtemp(prefix="seedre.", dir="/tmp")
    out = {"name": name, "tier": tier}
    try:
        sh(f"rsync -a --exclude .git --exclude '*.pyc' --exclude __pycache__ /repo/ {scratch}/")
        rc, o = sh(f"git apply {d}/patch.diff", cwd=scratch)
        out["patch_applies"] = rc == 0
        if rc != 0:
            out["status"] = "STALE (patch no longer applies to the current tree)"
            return out
        rc, o = sh(f"{PY} -W ignore {d}/demo.py", cwd=scratch, env={"PYTHONPATH": scratch, "MPLBACKEND": "Agg"}, timeout=900)
        out["demo_changed_exit"] = rc
        det = {}
        for c in props:
            rc, o = sh(f"./check {c} --tier {tier} --workers {workers}", cwd=V, env={"DFMC_REPO": scratch, "DFMC_FAILFAST": "1"})
            if rc not in (0, 1):
                # fail-fast cuts the run after the first round with a violation; a violation that depends on hidden
                # library state may then lack the executions it needs to be confirmed: decide with the full run
                rc, o = sh(f"./check {c} --tier {tier} --workers {workers}", cwd=V, env={"DFMC_REPO": scratch})
            sigs = re.findall(r"sig=(\S+) instances=(\d+)", o)
            det[c] = {"exit": rc, "violations": [f"{s} x{n}" for s, n in sigs][:6]}
        out["checks"] = det
        out["status"] = "DETECTED" if any(v["exit"] == 1 for v in det.values()) else "MISSED"
    finally:
        shutil.rmtree(scratch, ignore_errors=True)
    json.dump(out, open(os.path.join(d, "recheck.json"), "w"), indent=1)
    return out


def main():
    a = sys.argv[1:]
    tier, jobs = "quick", 4
    names = []
    i = 0
    while i < len(a):
        if a[i] == "--tier":
            tier = a[i + 1]; i += 2
        elif a[i] == "--jobs":
            jobs = int(a[i + 1]); i += 2
        else:
            names.append(a[i]); i += 1
    if not names:
        names = sorted(n for n in os.listdir(os.path.join(V, "seeded")) if os.path.isdir(os.path.join(V, "seeded", n)))
    workers = max(2, 16 // jobs)
    with ThreadPoolExecutor(jobs) as ex:
        for r in ex.map(lambda n: one(n, tier, workers), names):
            first = ""
            for c, v in (r.get("checks") or {}).items():
                if v["violations"]:
                    first = v["violations"][0]
            print(f"{r['name']:10s} {r.get('status')}  demo_exit={r.get('demo_changed_exit')}  {first}")
            sys.stdout.flush()


if __name__ == "__main__":
    main()
