# print a python source file without docstrings / blank lines (reading aid)
import ast,sys
def strip(path, lo=0, hi=10**9):
    src=open(path).read()
    tree=ast.parse(src)
    lines=src.split('\n')
    kill=set()
    for node in ast.walk(tree):
        if isinstance(node,(ast.FunctionDef,ast.ClassDef,ast.Module)):
            b=node.body
            if b and isinstance(b[0],ast.Expr) and isinstance(getattr(b[0],'value',None),ast.Constant) and isinstance(b[0].value.value,str):
                for i in range(b[0].lineno,b[0].end_lineno+1): kill.add(i)
    for i,l in enumerate(lines,1):
        if i not in kill and l.strip() and lo<=i<=hi: print(f"{i}:{l}")
a=sys.argv
strip(a[1], int(a[2]) if len(a)>2 else 0, int(a[3]) if len(a)>3 else 10**9)
