"""Exact-rational reference model of the documented affine maps on axis
aligned boxes (translate, scale about a reference, quarter turns)."""
from fractions import Fraction as Fr


def F(x):
    return Fr(float(x))


class Box:
    """axis-aligned box with exact corners + per-axis metadata"""

    def __init__(self, lo, hi, units=None):
        self.lo = [F(x) if not isinstance(x, Fr) else x for x in lo]
        self.hi = [F(x) if not isinstance(x, Fr) else x for x in hi]
        self.units = list(units) if units is not None else None

    @classmethod
    def of(cls, region):
        return cls(region.pmin, region.pmax, region.units)

    def copy(self):
        return Box(list(self.lo), list(self.hi), self.units)

    @property
    def centre(self):
        return [(a + b) / 2 for a, b in zip(self.lo, self.hi)]

    def mag(self):
        return max(max(abs(float(a)), abs(float(b))) for a, b in zip(self.lo, self.hi))

    def translate(self, v):
        v = [F(x) for x in v]
        return Box([a + d for a, d in zip(self.lo, v)], [b + d for b, d in zip(self.hi, v)], self.units)

    def scale(self, s, ref):
        nd = len(self.lo)
        s = [F(s)] * nd if not isinstance(s, (tuple, list)) else [F(x) for x in s]
        a = [r + k * (x - r) for x, r, k in zip(self.lo, ref, s)]
        b = [r + k * (x - r) for x, r, k in zip(self.hi, ref, s)]
        return Box([min(x, y) for x, y in zip(a, b)], [max(x, y) for x, y in zip(a, b)], self.units)

    def rotate90(self, i, j, k, ref):
        """k quarter turns from axis i towards axis j about ref"""
        a, b = list(self.lo), list(self.hi)
        for _ in range(k % 4):
            for p in (a, b):
                da, db = p[i] - ref[i], p[j] - ref[j]
                p[i], p[j] = ref[i] - db, ref[j] + da
        units = list(self.units) if self.units is not None else None
        if units is not None and k % 2 == 1:
            units[i], units[j] = units[j], units[i]
        return Box([min(x, y) for x, y in zip(a, b)], [max(x, y) for x, y in zip(a, b)], units)


def rot_point(p, i, j, k, ref):
    p = list(p)
    for _ in range(k % 4):
        da, db = p[i] - ref[i], p[j] - ref[j]
        p[i], p[j] = ref[i] - db, ref[j] + da
    return p


def rot_vec(v, i, j, k):
    """integer quarter-turn matrix Q^k acting on components i, j of v"""
    v = list(v)
    for _ in range(k % 4):
        v[i], v[j] = -v[j], v[i]
    return v
