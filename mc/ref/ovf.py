"""Independent OVF 1.0 / 2.0 reader and writer (rectangular meshes, one segment).

Written from the format description in the OOMMF user guide ("Vector field
format (OVF)"), NOT from discretisedfield/io/ovf.py, and importing nothing from
the library under test:

* line 1 identifies the version: ``# OOMMF: rectangular mesh v1.0`` or
  ``# OOMMF OVF 2.0``;
* every other non-data line starts with ``#``; ``##`` starts a comment (whole
  line or rest of a line); records are ``# key: value`` with case-insensitive
  keys in which blanks are not significant;
* ``Segment count: 1``, then ``Begin: Segment``, ``Begin: Header`` ...
  ``End: Header``, ``Begin: Data <Text | Binary 4 | Binary 8>`` ... ``End: Data
  <same>``, ``End: Segment``;
* rectangular header: meshunit, meshtype, x/y/zbase (centre of the first cell),
  x/y/zstepsize, x/y/znodes, x/y/zmin, x/y/zmax;
  1.0 only: valueunit, valuemultiplier, ValueRangeMinMag, ValueRangeMaxMag -
  always 3 components, stored value * valuemultiplier = value;
  2.0 only: valuedim N >= 1, valuelabels (N items), valueunits (N items or one
  item for all) - items are blank separated, braces group items with blanks;
* binary data start right after the newline of the ``Begin: Data`` line with a
  check value (4 byte: 1234567.0, 8 byte: 123456789012345.0), then
  xnodes*ynodes*znodes*N IEEE values, x index fastest, then y, then z, the N
  components of a node adjacent; big-endian in 1.0, little-endian in 2.0; a
  newline follows the block;
* text data: one node per line, blank separated.

``read`` is deliberately strict: anything that does not follow the description
raises ``OVFError`` (the harness uses it to decide whether a file produced by
the library *is* an OVF 2.0 file).
"""
from __future__ import annotations

import re
import struct

import numpy as np

CHECK4 = 1234567.0
CHECK8 = 123456789012345.0
MAGIC1 = "# OOMMF: rectangular mesh v1.0"
MAGIC2 = "# OOMMF OVF 2.0"


class OVFError(Exception):
    pass


class OVF:
    """decoded file"""

    __slots__ = ("version", "representation", "header", "n", "pmin", "pmax", "base", "step", "meshunit",
                 "valuedim", "labels", "units", "data", "title", "data_offset", "data_nbytes", "check_offset",
                 "check_nbytes")

    def __repr__(self):
        return f"OVF(v{self.version} {self.representation} n={self.n} valuedim={self.valuedim})"


def _tcl_list(s):
    """blank separated items; {..} groups"""
    items, i, n = [], 0, len(s)
    while i < n:
        if s[i].isspace():
            i += 1
        elif s[i] == "{":
            depth, j = 1, i + 1
            while j < n and depth:
                depth += {"{": 1, "}": -1}.get(s[j], 0)
                j += 1
            if depth:
                raise OVFError(f"unbalanced braces in list {s!r}")
            items.append(s[i + 1: j - 1])
            i = j
        else:
            j = i
            while j < n and not s[j].isspace():
                j += 1
            items.append(s[i:j])
            i = j
    return items


def _record(line):
    """'# key: value' -> (key normalised, value) ; None for comment/blank lines"""
    if not line.startswith("#"):
        raise OVFError(f"header line does not start with '#': {line!r}")
    if line.startswith("##"):
        return None
    body = line[1:]
    k = body.find("##")
    if k >= 0:
        body = body[:k]
    body = body.strip()
    if not body:
        return None
    if ":" not in body:
        raise OVFError(f"header line is not a 'key: value' record: {line!r}")
    key, val = body.split(":", 1)
    key = re.sub(r"\s+", "", key).lower()
    return key, val.strip()


def _readline(buf, pos):
    e = buf.find(b"\n", pos)
    if e < 0:
        if pos >= len(buf):
            raise OVFError("unexpected end of file")
        return buf[pos:], len(buf)
    return buf[pos:e], e + 1


def read(source):
    """decode an OVF file (path or bytes).  data is returned as float64 array of
    shape (nx, ny, nz, valuedim) - for 'Binary 4' the float32 values widened."""
    if isinstance(source, (bytes, bytearray)):
        buf = bytes(source)
    else:
        with open(source, "rb") as fh:
            buf = fh.read()
    o = OVF()
    line, pos = _readline(buf, 0)
    first = line.decode("utf-8").rstrip("\r ")
    if re.sub(r"\s+", " ", first) == MAGIC1:
        o.version = 1
    elif re.sub(r"\s+", " ", first) == MAGIC2:
        o.version = 2
    else:
        raise OVFError(f"unknown first line {first!r}")
    stage = "top"  # top -> segment -> header -> afterheader -> (data)
    header = {}
    seen_count = False
    while True:
        raw, pos = _readline(buf, pos)
        rec = _record(raw.decode("utf-8").rstrip("\r"))
        if rec is None:
            continue
        key, val = rec
        if stage == "top":
            if key == "segmentcount":
                if int(val) != 1:
                    raise OVFError("segment count must be 1")
                seen_count = True
            elif key == "begin" and val.lower() == "segment":
                if not seen_count:
                    raise OVFError("'Segment count' record missing")
                stage = "segment"
            else:
                raise OVFError(f"unexpected record before the segment: {key}")
        elif stage == "segment":
            if key == "begin" and val.lower() == "header":
                stage = "header"
            else:
                raise OVFError(f"unexpected record before the header: {key}")
        elif stage == "header":
            if key == "end" and val.lower() == "header":
                stage = "afterheader"
            elif key == "desc":
                header.setdefault("desc", []).append(val)
            elif key in ("begin", "end"):
                raise OVFError(f"unexpected '{key}: {val}' inside the header")
            else:
                if key in header:
                    raise OVFError(f"duplicate header record {key}")
                header[key] = val
        elif stage == "afterheader":
            if key == "begin" and val.lower().startswith("data"):
                words = val.split()
                break
            raise OVFError(f"unexpected record after the header: {key}")
    # ---- header content
    o.header = header
    o.title = header.get("title")
    need = ["meshunit", "meshtype"] + [a + k for k in ("base", "stepsize", "nodes", "min", "max") for a in "xyz"]
    if o.version == 1:
        need += ["valueunit", "valuemultiplier", "valuerangeminmag", "valuerangemaxmag"]
        bad = [k for k in ("valuedim", "valuelabels", "valueunits") if k in header]
    else:
        need += ["valuedim", "valuelabels", "valueunits"]
        bad = [k for k in ("valueunit", "valuemultiplier", "valuerangeminmag", "valuerangemaxmag", "boundary")
               if k in header]
    if "title" not in header:
        raise OVFError("title record missing")
    miss = [k for k in need if k not in header]
    if miss:
        raise OVFError(f"required header records missing: {miss}")
    if bad:
        raise OVFError(f"records not allowed in OVF {o.version}.0: {bad}")
    if header["meshtype"].lower() != "rectangular":
        raise OVFError("only rectangular meshes are supported")
    o.meshunit = header["meshunit"]
    try:
        o.n = tuple(int(header[a + "nodes"]) for a in "xyz")
        o.pmin = tuple(float(header[a + "min"]) for a in "xyz")
        o.pmax = tuple(float(header[a + "max"]) for a in "xyz")
        o.base = tuple(float(header[a + "base"]) for a in "xyz")
        o.step = tuple(float(header[a + "stepsize"]) for a in "xyz")
    except ValueError as e:
        raise OVFError(f"malformed number in the header: {e}") from None
    if min(o.n) < 1:
        raise OVFError("node counts must be positive")
    if o.version == 1:
        o.valuedim = 3
        o.labels = None
        o.units = [header["valueunit"]] * 3
        mult = float(header["valuemultiplier"])
    else:
        try:
            o.valuedim = int(header["valuedim"])
        except ValueError:
            raise OVFError("valuedim is not an integer") from None
        if o.valuedim < 1:
            raise OVFError("valuedim must be >= 1")
        o.labels = _tcl_list(header["valuelabels"])
        o.units = _tcl_list(header["valueunits"])
        if len(o.labels) != o.valuedim:
            raise OVFError(f"valuelabels has {len(o.labels)} items for valuedim {o.valuedim}: {o.labels}")
        if len(o.units) not in (1, o.valuedim):
            raise OVFError(f"valueunits has {len(o.units)} items for valuedim {o.valuedim}: {o.units}")
        if len(o.units) == 1:
            o.units = o.units * o.valuedim
        mult = 1.0
    # ---- data
    kind = [w.lower() for w in words[1:]]
    count = o.n[0] * o.n[1] * o.n[2] * o.valuedim
    if kind == ["text"]:
        o.representation = "txt"
        o.check_offset = o.check_nbytes = None
        o.data_offset = pos
        vals = []
        endline = None
        while True:
            raw, pos = _readline(buf, pos)
            s = raw.decode("utf-8").strip()
            if s.startswith("#"):
                rec = _record(s)
                if rec is None:
                    continue
                endline = rec
                break
            if s:
                try:
                    vals.extend(float(t) for t in s.split())
                except ValueError as e:
                    raise OVFError(f"malformed number in the text data block: {e}") from None
        o.data_nbytes = None
        if len(vals) != count:
            raise OVFError(f"text data block has {len(vals)} values, expected {count}")
        flat = np.array(vals, dtype=np.float64)
        enddata = "data text"
    elif kind in (["binary", "4"], ["binary", "8"]):
        nb = int(kind[1])
        o.representation = "bin%d" % nb
        fmt = (">" if o.version == 1 else "<") + ("f" if nb == 4 else "d")
        if len(buf) < pos + nb:
            raise OVFError("file ends inside the check value")
        chk = struct.unpack(fmt, buf[pos:pos + nb])[0]
        o.check_offset, o.check_nbytes = pos, nb
        if chk != (CHECK4 if nb == 4 else CHECK8):
            raise OVFError(f"wrong check value {chk!r}")
        pos += nb
        o.data_offset, o.data_nbytes = pos, nb * count
        if len(buf) < pos + nb * count:
            raise OVFError(f"binary data block is short: {len(buf) - pos} bytes of {nb * count}")
        flat = np.frombuffer(buf, dtype=fmt, count=count, offset=pos).astype(np.float64)
        pos += nb * count
        # OOMMF ends the block with a newline, mumax3 does not: both are accepted
        if buf[pos:pos + 1] == b"\r":
            pos += 1
        if buf[pos:pos + 1] == b"\n":
            pos += 1
        if buf[pos:pos + 1] != b"#":
            raise OVFError("binary data block is not followed by a '#' record (block longer than the header says?)")
        endline = None
        while endline is None:
            raw, pos = _readline(buf, pos)
            endline = _record(raw.decode("utf-8").rstrip("\r"))
        enddata = "data binary %d" % nb
    else:
        raise OVFError(f"unknown data representation {words!r}")
    if endline[0] != "end" or " ".join(endline[1].lower().split()) != enddata:
        raise OVFError(f"data block is not closed by '# End: {enddata}': {endline}")
    endseg = None
    while endseg is None:
        raw, pos = _readline(buf, pos)
        endseg = _record(raw.decode("utf-8").rstrip("\r"))
    if endseg[0] != "end" or endseg[1].lower() != "segment":
        raise OVFError("segment is not closed by '# End: Segment'")
    if buf[pos:].strip():
        raise OVFError("trailing content after the segment")
    if mult != 1.0:
        flat = flat * mult
    # x fastest, then y, then z; components adjacent
    o.data = flat.reshape(o.n[2], o.n[1], o.n[0], o.valuedim).transpose(2, 1, 0, 3).copy()
    return o


# ---------------------------------------------------------------------------
# writer


def _g17(x):
    return "%.17g" % float(x)


def _short(x):
    return repr(float(x))


def write(path, *, version, representation, pmin, pmax, n, data, meshunit="m", labels=None, units=None,
          style="oommf", title="independent writer", valuemultiplier=1.0):
    """write an OVF file.  ``data``: array (nx, ny, nz, valuedim) (valuedim must be
    3 for version 1).  ``representation``: 'txt' | 'bin4' | 'bin8'.

    styles (all inside the format description, modelled on the files real
    programs produce):
      'oommf'  : OOMMF record order, %.17g numbers, blank comment lines, text rows ' v  v  v'
      'mumax'  : mumax3 record order (min/max first, base/nodes/stepsize after a Desc
                 line that itself contains colons), shortest-repr numbers, text rows
                 'v v v ' with a trailing blank
      'lower'  : as 'oommf' but '# begin: data binary 8' / keys in lower case

    Returns the data as the file stores them (float64 array; float32 rounded for bin4).
    """
    data = np.asarray(data, dtype=np.float64)
    nx, ny, nz = (int(i) for i in n)
    vd = data.shape[-1]
    if data.shape != (nx, ny, nz, vd):
        raise ValueError("data shape does not match n")
    if version == 1 and vd != 3:
        raise ValueError("OVF 1.0 stores exactly 3 components")
    num = _short if style == "mumax" else _g17
    step = [(float(b) - float(a)) / k for a, b, k in zip(pmin, pmax, (nx, ny, nz))]
    base = [float(a) + s / 2 for a, s in zip(pmin, step)]
    rec = {}
    for i, a in enumerate("xyz"):
        rec[a + "min"] = num(pmin[i])
        rec[a + "max"] = num(pmax[i])
        rec[a + "base"] = num(base[i])
        rec[a + "stepsize"] = num(step[i])
        rec[a + "nodes"] = str((nx, ny, nz)[i])
    if version == 2:
        labels = list(labels) if labels is not None else [f"c{i}" for i in range(vd)]
        units = list(units) if units is not None else ["1"] * vd
        if len(labels) != vd or len(units) not in (1, vd):
            raise ValueError("labels/units do not match valuedim")

        def item(s):
            return "{" + s + "}" if (" " in s or s == "") else s

        vrec = [("valuedim", str(vd)), ("valuelabels", " ".join(item(s) for s in labels)),
                ("valueunits", " ".join(item(s) for s in units))]
    else:
        u = units[0] if units else "A/m"
        stored = data / valuemultiplier
        mags = np.sqrt((stored.reshape(-1, 3) ** 2).sum(axis=1))
        vrec = [("valueunit", u), ("valuemultiplier", num(valuemultiplier)),
                ("ValueRangeMinMag", _g17(mags[mags > 0].min() if (mags > 0).any() else 0.0)),
                ("ValueRangeMaxMag", _g17(mags.max()))]
    geo = lambda keys: [(k, rec[k]) for k in keys]  # noqa: E731
    xyz = lambda suf: [a + suf for a in "xyz"]  # noqa: E731
    if style == "mumax":
        lines = [("Title", title), ("meshtype", "rectangular"), ("meshunit", meshunit)]
        lines += geo(xyz("min")) + geo(xyz("max")) + vrec
        lines += [("Desc", "Total simulation time:  0  s")]
        lines += geo(xyz("base")) + geo(xyz("nodes")) + geo(xyz("stepsize"))
    else:
        lines = [("Title", title), ("Desc", "written by the dfmc reference writer"),
                 ("Desc", "Stage: 0, Stage iteration: 3")]
        if version == 1:
            lines += [("meshtype", "rectangular"), ("meshunit", meshunit)]
            lines += geo(xyz("base")) + geo(xyz("stepsize")) + geo(xyz("nodes")) + geo(xyz("min")) + geo(xyz("max"))
            lines += vrec
        else:
            lines += [("meshunit", meshunit), ("meshtype", "rectangular")]
            lines += geo(xyz("base")) + geo(xyz("nodes")) + geo(xyz("stepsize")) + geo(xyz("min")) + geo(xyz("max"))
            lines += vrec
    lower = style == "lower"
    kw = (lambda s: s.lower()) if lower else (lambda s: s)
    out = [MAGIC1 if version == 1 else MAGIC2]
    if style == "oommf":
        out.append("#")
    out += ["# " + kw("Segment count") + ": 1", "# " + kw("Begin: Segment"), "# " + kw("Begin: Header")]
    for k, v in lines:
        out.append(f"# {kw(k)}: {v}")
    out.append("# " + kw("End: Header"))
    reprname = {"txt": "Text", "bin4": "Binary 4", "bin8": "Binary 8"}[representation]
    out.append("# " + kw("Begin: Data " + reprname))
    head = ("\n".join(out) + "\n").encode("utf-8")
    tail = ("# " + kw("End: Data " + reprname) + "\n# " + kw("End: Segment") + "\n").encode("utf-8")
    stored = data if version == 2 else data / valuemultiplier
    flat = stored.transpose(2, 1, 0, 3).reshape(-1, vd)  # z slowest ... x fastest, components adjacent
    if representation == "txt":
        rows = []
        for r in flat:
            if style == "mumax":
                rows.append("".join(_short(v) + " " for v in r))
            else:
                rows.append(" ".join("% .17g" % v for v in r))
        body = ("\n".join(rows) + "\n").encode("ascii")
        kept = flat.copy()
    else:
        nb = 4 if representation == "bin4" else 8
        fmt = (">" if version == 1 else "<") + ("f" if nb == 4 else "d")
        with np.errstate(over="ignore"):
            arr = flat.astype(fmt)
        body = struct.pack(fmt, CHECK4 if nb == 4 else CHECK8) + arr.tobytes() + b"\n"
        kept = arr.astype(np.float64)
    with open(path, "wb") as fh:
        fh.write(head + body + tail)
    kept = kept.reshape(nz, ny, nx, vd).transpose(2, 1, 0, 3)
    if version == 1:
        kept = kept * valuemultiplier
    return np.ascontiguousarray(kept)
