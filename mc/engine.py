"""dfmc engine: choice-point explorer (stateless model checking), explicit-state
BFS over operation histories and fault enumeration helpers.

A *harness unit* is a function ``run(ctx)``.  Every decision it makes goes
through ``ctx.choose(name, domain)``; the explorer enumerates ALL choice
sequences (optionally inside a deviation bound) and runs the harness - i.e. the
real library - once per sequence.  Oracles inside the harness report through
``ctx.fail``; nothing is sampled.
"""
from __future__ import annotations

import hashlib
import itertools
import os
import sys
import time
import traceback
from collections import deque


def h64(*parts) -> int:
    m = hashlib.blake2b(digest_size=8)
    for p in parts:
        if isinstance(p, (bytes, bytearray, memoryview)):
            m.update(bytes(p))
        else:
            m.update(repr(p).encode())
        m.update(b"\x1f")
    return int.from_bytes(m.digest(), "big")


def hhex(*parts) -> str:
    return "%016x" % h64(*parts)


class HarnessNondeterminism(Exception):
    pass


class Skip(Exception):
    """Raised by a harness to abandon an execution that is outside the
    alphabet (counted, never a verdict)."""


class Violation:
    __slots__ = ("unit", "sig", "instance", "msg", "choices", "detail", "history")

    def __init__(self, unit, sig, instance, msg, choices, detail):
        self.history = None  # choice prefixes executed earlier in the same worker task (first violation per sig only)
        self.unit = unit
        self.sig = sig
        self.instance = instance  # value based key (string)
        self.msg = msg
        self.choices = choices  # list of (name, index, repr(value))
        self.detail = detail

    @property
    def ihash(self):
        return hhex(self.sig, self.instance)[:12]

    def to_json(self):
        return {
            "unit": self.unit,
            "sig": self.sig,
            "instance": self.instance,
            "instance_hash": self.ihash,
            "msg": self.msg,
            "choices": [list(c) for c in self.choices],
            "detail": self.detail,
        }


class Ctx:
    """Execution context of ONE execution of a harness unit."""

    def __init__(self, unit, prefix, tier, seed, replaying=False):
        self.unit = unit
        self.prefix = tuple(prefix)
        self.tier = tier
        self.seed = seed
        self.replaying = replaying
        self.choices = []  # indices
        self.domsizes = []
        self.record = []  # (name, index, repr(value))
        self.transitions = 0
        self.checks = 0
        self.states = set()
        self._dig = hashlib.blake2b(digest_size=8)
        self.violations = []
        self.notes = {}
        self.ops = []  # human readable operation list (bounded)

    # ---- decisions -----------------------------------------------------
    def choose(self, name, domain):
        domain = list(domain) if not isinstance(domain, (list, tuple)) else domain
        if not domain:
            raise RuntimeError(f"empty domain at choice {name!r}")
        i = len(self.choices)
        if i < len(self.prefix):
            idx = self.prefix[i]
            if idx >= len(domain):
                raise HarnessNondeterminism(
                    f"unit {self.unit}: replayed prefix {self.prefix} meets domain "
                    f"of size {len(domain)} at point {i} ({name})"
                )
        else:
            idx = 0
        self.choices.append(idx)
        self.domsizes.append(len(domain))
        v = domain[idx]
        self.record.append((name, idx, _short(v)))
        return v

    # ---- bookkeeping ---------------------------------------------------
    def step(self, n=1, label=None):
        """n checked library operations (transitions)."""
        self.transitions += n
        if label is not None and len(self.ops) < 40:
            self.ops.append(label)

    def check(self, n=1):
        self.checks += n

    def observe(self, *vals):
        for v in vals:
            if hasattr(v, "tobytes"):
                self._dig.update(v.tobytes())
            else:
                self._dig.update(repr(v).encode())
            self._dig.update(b"\x1e")

    def state(self, *key):
        self.states.add(h64(*key))

    def note(self, key, n=1):
        self.notes[key] = self.notes.get(key, 0) + n

    def key(self, drop=()):
        """Value-based instance key of this execution (seed independent)."""
        return ";".join(f"{n}={v}" for n, _, v in self.record if n not in drop)

    def fail(self, sig, msg, instance=None, **detail):
        """Report a violation.  ``sig`` = '<call site>/<failure kind>[/<class>]'.
        ``instance`` defaults to the value based choice vector."""
        if instance is None:
            instance = self.key()
        if len(self.violations) < 2000:
            self.violations.append(
                Violation(self.unit, sig, str(instance), str(msg)[:600], list(self.record),
                          {k: _short(v, 400) for k, v in detail.items()})
            )

    def digest(self):
        return int.from_bytes(self._dig.digest(), "big")


def _short(v, n=120):
    try:
        import numpy as np

        if isinstance(v, np.ndarray):
            s = np.array2string(v, threshold=20, precision=17).replace("\n", " ")
        else:
            s = repr(v)
    except Exception:  # pragma: no cover
        s = repr(v)
    if len(s) > n:
        s = s[: n - 12] + "…#" + hhex(s)[:8]
    return s


def _lib_site(tb):
    """innermost frame inside the library under test (None if the exception
    never passed through library code)."""
    site = None
    while tb is not None:
        fn = tb.tb_frame.f_code.co_filename
        if "/discretisedfield/" in fn and "/tests/" not in fn and "/verif/" not in fn:
            site = os.path.basename(fn)[:-3] + "." + tb.tb_frame.f_code.co_name
        tb = tb.tb_next
    return site


class Result:
    def __init__(self):
        self.executions = 0
        self.transitions = 0
        self.checks = 0
        self.states = set()
        self.outcomes = set()  # digests of executions with >=1 check
        self.violations = []
        self.samples = []
        self.last_sample = None
        self.notes = {}
        self.skipped = 0
        self.errors = []  # harness errors (nondeterminism etc.)
        self.max_depth = 0
        self.alphabet = {}

    def absorb_ctx(self, ctx, keep_sample):
        self.executions += 1
        self.transitions += ctx.transitions
        self.checks += ctx.checks
        self.states |= ctx.states
        self.states.add(h64(ctx.unit, tuple(ctx.choices)))
        if ctx.checks or ctx.transitions:
            self.outcomes.add(ctx.digest())
        self.violations.extend(ctx.violations)
        for k, v in ctx.notes.items():
            self.notes[k] = self.notes.get(k, 0) + v
        self.max_depth = max(self.max_depth, len(ctx.choices))
        for (name, _, _), sz in zip(ctx.record, ctx.domsizes):
            a = self.alphabet.setdefault(ctx.unit, {})
            a[name] = max(a.get(name, 0), sz)
        s = {"unit": ctx.unit, "choices": [f"{n}={v}" for n, _, v in ctx.record],
             "ops": ctx.ops[:12], "transitions": ctx.transitions}
        if keep_sample:
            self.samples.append(s)
        self.last_sample = s

    def merge(self, o):
        self.executions += o.executions
        self.transitions += o.transitions
        self.checks += o.checks
        self.states |= o.states
        self.outcomes |= o.outcomes
        self.violations.extend(o.violations)
        if len(self.samples) < 4:
            self.samples.extend(o.samples[: 4 - len(self.samples)])
        if o.last_sample is not None:
            self.last_sample = o.last_sample
        for k, v in o.notes.items():
            self.notes[k] = self.notes.get(k, 0) + v
        self.skipped += o.skipped
        self.errors.extend(o.errors)
        self.max_depth = max(self.max_depth, o.max_depth)
        for u, a in o.alphabet.items():
            b = self.alphabet.setdefault(u, {})
            for k, v in a.items():
                b[k] = max(b.get(k, 0), v)


def run_once(unit_name, fn, prefix, tier, seed, replaying=False):
    ctx = Ctx(unit_name, prefix, tier, seed, replaying)
    try:
        fn(ctx)
    except Skip:
        ctx.note("skipped-executions")
    except HarnessNondeterminism:
        raise
    except Exception as e:
        # An exception that escapes from library code on an input the harness
        # expected to work is a violation (the library refused or crashed);
        # one raised by the harness' own code is a harness error.
        tb = traceback.format_exc(limit=12)
        site = _lib_site(e.__traceback__)
        if site is not None:
            ctx.fail(f"unexpected-exception/{site}/{type(e).__name__}", f"{type(e).__name__}: {e}", tb=tb[-900:])
        else:
            ctx.fail("HARNESS-ERROR/" + type(e).__name__, f"{e}", tb=tb)
    if len(ctx.choices) < len(ctx.prefix):
        raise HarnessNondeterminism(
            f"unit {unit_name}: prefix {ctx.prefix} longer than the execution's "
            f"{len(ctx.choices)} choice points"
        )
    return ctx


def _attach_history(ctx, seq, sigs_seen):
    """Remember, for the first violation of every signature in a task, which executions ran before it in the same
    process: if the violation does not reproduce in isolation the runner replays that history in a fresh process
    (the library may carry hidden state from one call to the next - a cache, a shared default, a scratch buffer)."""
    for v in ctx.violations:
        if v.sig not in sigs_seen:
            sigs_seen.add(v.sig)
            v.history = list(seq[-4000:])


def explore_subtree(unit_name, fn, root, tier, seed, bound=None, res=None, budget=None, max_exec=None):
    """Exhaustive DFS below ``root`` (a choice-index prefix).  ``bound`` = max
    number of non-default choices (None = full product).  With ``max_exec`` the
    search stops after that many executions and the unexplored subtree roots are
    left in ``res.leftover`` (the caller re-queues them: load balancing only,
    nothing is dropped)."""
    res = res or Result()
    res.leftover = []
    stack = [tuple(root)]
    seq, sigs_seen = [], set()  # executions of THIS task in order (a task runs in a freshly forked worker)
    t_end = None if budget is None else time.time() + budget
    nex = 0
    t_chunk = time.time() + 4.0
    while stack:
        if max_exec is not None and (nex >= max_exec or (nex and time.time() > t_chunk)):
            res.leftover = stack
            break
        nex += 1
        prefix = stack.pop()
        ctx = run_once(unit_name, fn, prefix, tier, seed)
        _attach_history(ctx, seq, sigs_seen)
        seq.append(tuple(ctx.choices))
        res.absorb_ctx(ctx, keep_sample=len(res.samples) < 3)
        ch = tuple(ctx.choices)
        dev = sum(1 for c in ch[: len(prefix)] if c)
        for i in range(len(prefix), len(ch)):
            # ch[len(prefix):i] are all zero by construction
            if bound is not None and dev + 1 > bound:
                break
            for alt in range(ctx.domsizes[i] - 1, 0, -1):
                stack.append(ch[:i] + (alt,))
        if t_end is not None and time.time() > t_end:
            res.notes["cap:time"] = res.notes.get("cap:time", 0) + len(stack)
            break
    return res


def expand_frontier(unit_name, fn, tier, seed, bound, target):
    """Run executions breadth-first from the empty prefix until at least
    ``target`` unexplored subtree roots exist.  Returns (result_so_far, roots)."""
    res = Result()
    frontier = deque([()])
    roots = []
    seq, sigs_seen = [], set()
    t0 = time.time()
    while frontier and len(frontier) + len(roots) < target:
        if time.time() - t0 > 1.0 and len(frontier) > 1:
            break  # heavy executions: hand the subtrees to the workers now
        prefix = frontier.popleft()
        ctx = run_once(unit_name, fn, prefix, tier, seed)
        _attach_history(ctx, seq, sigs_seen)
        seq.append(tuple(ctx.choices))
        res.absorb_ctx(ctx, keep_sample=len(res.samples) < 3)
        ch = tuple(ctx.choices)
        dev = sum(1 for c in ch[: len(prefix)] if c)
        for i in range(len(prefix), len(ch)):
            if bound is not None and dev + 1 > bound:
                break
            for alt in range(1, ctx.domsizes[i]):
                frontier.append(ch[:i] + (alt,))
    roots.extend(frontier)
    return res, roots


# The frontier roots returned above are *unexecuted* prefixes: exploring the
# subtree below a root executes the root itself first.


# ---- explicit-state search ------------------------------------------------

def bfs(ctx, initial, enabled, build, canon, on_transition, depth, max_states=None):
    """Breadth-first search over operation histories on the REAL objects.

    initial        : list of initial history tuples (usually [()])
    enabled(obj,h) : list of events enabled in the state reached by history h
    build(h)       : fresh live object(s) obtained by replaying h on the real code
                     (returns None if the history is not realisable)
    canon(obj)     : hashable canonical form (property relevant fields only)
    on_transition(pre_hist, event, build) : oracle, evaluated on EVERY transition
                     before deduplication; returns the successor object or None
    Returns (n_states, n_transitions, capped)
    """
    seen = {}
    frontier = deque()
    for h in initial:
        o = build(h)
        k = canon(o)
        if k not in seen:
            seen[k] = h
            frontier.append(h)
            ctx.state("bfs", k)
    ntrans = 0
    capped = False
    while frontier:
        hist = frontier.popleft()
        if len(hist) >= depth:
            continue
        obj = build(hist)
        for ev in enabled(obj, hist):
            nxt = on_transition(hist, ev)
            ntrans += 1
            ctx.step(1)
            if nxt is None:
                continue
            k = canon(nxt)
            if k not in seen:
                if max_states is not None and len(seen) >= max_states:
                    capped = True
                    continue
                seen[k] = hist + (ev,)
                ctx.state("bfs", k)
                frontier.append(hist + (ev,))
    if capped:
        ctx.note("cap:max_states")
    return len(seen), ntrans, capped
