"""Histories over a small file store: every sequence of write / read / mutate-what-was-read operations up to a
depth bound, on two paths and three different fields, against a reference model (dict path -> last field
written).  Catches state that leaks between calls: caches keyed by path, stale side-car files, read results that
share objects with each other, writers that depend on what was written before.

Used by C09 (ovf), C10 (hdf5), C16 (vtk).  Each execution = one operation sequence chosen through ctx.choose, run
in a fresh private directory on tmpfs.
"""
import os
import shutil
import tempfile

import numpy as np

import discretisedfield as df
from mc import common as C


def _fields(fmt, seed):
    """three fields that differ in region, cell counts, subregions, bc, labels, unit, component count, validity"""
    mA = df.Mesh(p1=(0.0, 0.0, 0.0), p2=(4.0, 3.0, 2.0), n=(2, 3, 2), bc="x" if fmt == "h5" else "",
                 subregions={"zeta": df.Region(p1=(0, 0, 0), p2=(2, 3, 1)), "alpha": df.Region(p1=(2, 1, 0), p2=(4, 3, 2))})
    mB = df.Mesh(p1=(-1.5e-9, 0.5e-9, 1e-9), p2=(1.5e-9, 2.5e-9, 3e-9), n=(3, 2, 2))
    mC = df.Mesh(p1=(0.0, 0.0, 0.0), p2=(4.0, 3.0, 2.0), n=(4, 3, 2),
                 subregions={"alpha": df.Region(p1=(1, 0, 0), p2=(3, 2, 2))})
    f0 = df.Field(mA, nvdim=3, value=C.tracer((2, 3, 2), 3, seed), unit="A/m", valid=C.coded_mask((2, 3, 2), 3))
    f1 = df.Field(mB, nvdim=1, value=-C.tracer((3, 2, 2), 1, seed), unit=None, valid=C.coded_mask((3, 2, 2), 4))
    f2 = df.Field(mC, nvdim=3, value=C.tracer((4, 3, 2), 3, seed) + 0.5, vdims=["p", "q", "r"], unit="T",
                  valid=C.coded_mask((4, 3, 2), 5))
    return [f0, f1, f2]


def _subs(m):
    return {k: (tuple(np.asarray(v.pmin, float).tolist()), tuple(np.asarray(v.pmax, float).tolist())) for k, v in m.subregions.items()}


def _diff(fmt, e, g):
    """first difference between the expected field e and the field g that was read, or None"""
    if tuple(int(i) for i in g.mesh.n) != tuple(int(i) for i in e.mesh.n):
        return f"n {g.mesh.n} instead of {e.mesh.n}"
    if not (np.array_equal(g.mesh.region.pmin, e.mesh.region.pmin) and np.array_equal(g.mesh.region.pmax, e.mesh.region.pmax)):
        return f"region {g.mesh.region.pmin}..{g.mesh.region.pmax} instead of {e.mesh.region.pmin}..{e.mesh.region.pmax}"
    if g.nvdim != e.nvdim or g.array.shape != e.array.shape or not np.array_equal(g.array, e.array):
        return "values differ"
    if _subs(g.mesh) != _subs(e.mesh):
        return f"subregions {_subs(g.mesh)} instead of {_subs(e.mesh)}"
    if list(g.mesh.subregions) != list(e.mesh.subregions):
        return f"subregion order {list(g.mesh.subregions)} instead of {list(e.mesh.subregions)}"
    if fmt in ("h5", "vtk") and not np.array_equal(np.asarray(g.valid, bool), np.asarray(e.valid, bool)):
        return "validity differs"
    if fmt == "h5" and g.mesh.bc != e.mesh.bc:
        return f"bc {g.mesh.bc!r} instead of {e.mesh.bc!r}"
    if fmt in ("h5", "ovf") and g.unit != e.unit:
        return f"unit {g.unit!r} instead of {e.unit!r}"
    if e.nvdim > 1 and (g.vdims is None or list(g.vdims) != list(e.vdims)):
        return f"labels {g.vdims} instead of {e.vdims}"
    return None


def unit_store_histories(ctx, fmt, sig_prefix):
    ext = {"h5": ".h5", "ovf": ".ovf", "vtk": ".vtk"}[fmt]
    # a third path: the SAME stem as path 0 with the sibling extension of the format (m0.omf next to m0.ovf, f.hdf5 next to
    # f.h5): two different files, each with its own side-car
    # (for VTK the sibling is a file of ANOTHER format with the same stem, m0.omf next to m0.vtk: it is only written)
    sibling = {"h5": ".hdf5", "ovf": ".omf", "vtk": ".omf"}[fmt]
    cross = fmt == "vtk"
    paths = (0, 1, 2)
    depth = 4 if ctx.tier == "quick" else 5
    fields = _fields(fmt, ctx.seed)
    snaps = [C.field_snap(f) for f in fields]
    d = tempfile.mkdtemp(dir="/dev/shm", prefix="dfmc-hist-")
    model = {}
    last_read = None
    hist = []
    try:
        for step in range(depth):
            last = step == depth - 1
            ops = []
            if not last:
                ops += [("W", i, p) for p in paths for i in ((0, 1, 2) if p != 2 else (1, 2))]
                # a write that the library refuses (unknown representation; for VTK also a field on a 2-d mesh), aimed at
                # a path that holds a file: the file and its side-car must still be what was written last
                ops += [("X", 1 if model[p] != 1 else 2, p) for p in (0, 1) if p in model]
                if fmt == "vtk":
                    ops += [("Y", None, p) for p in (0, 1) if p in model]
            ops += [("R", None, p) for p in paths if p in model and not (cross and p == 2)]
            if not last and last_read is not None:
                ops.append(("M", None, None))
            if not ops:
                return
            op = ctx.choose(f"op{step}", ops)
            hist.append(op)
            path = None if op[2] is None else os.path.join(d, f"store{op[2]}{ext}" if op[2] != 2 else f"store0{sibling}")
            if op[0] == "W":
                ctx.step(1, f"write field {op[1]} -> path {op[2]}")
                fields[op[1]].to_file(path)
                model[op[2]] = op[1]
                ctx.check()
                if C.field_snap(fields[op[1]]) != snaps[op[1]]:
                    ctx.fail(f"{sig_prefix}/history/write-modified-field", f"{hist}", instance=f"{fmt};{hist}")
            elif op[0] in ("X", "Y"):
                if op[0] == "X":
                    src = fields[op[1]]
                    kw = {"representation": "bin16"}
                else:
                    m2 = df.Mesh(p1=(0.0, 0.0), p2=(4.0, 2.0), n=(2, 2), subregions={"flat": df.Region(p1=(0, 0), p2=(2, 2))})
                    src = df.Field(m2, nvdim=2, value=(1.0, 2.0))
                    kw = {}
                ctx.step(1, f"write that must be refused -> path {op[2]}")
                raised, r = C.raises(src.to_file, path, **kw)
                ctx.check()
                if not raised:
                    # accepted after all (a writer may ignore the option): then it is a write like any other
                    if op[0] == "X":
                        model[op[2]] = op[1]
                    else:
                        model.pop(op[2], None)
            elif op[0] == "R":
                ctx.step(1, f"read path {op[2]}")
                raised, g = C.raises(df.Field.from_file, path)
                ctx.check()
                if raised:
                    ctx.fail(f"{sig_prefix}/history/read-raises", f"after {hist}: {type(g).__name__}: {g}", instance=f"{fmt};{hist}")
                    return
                e = fields[model[op[2]]]
                dd = _diff(fmt, e, g)
                ctx.observe(g.array, tuple(g.mesh.n), sorted(_subs(g.mesh)))
                if dd:
                    ctx.fail(f"{sig_prefix}/history/read-returns-other-than-last-written",
                             f"after {hist}: expected field {model[op[2]]}, {dd}", instance=f"{fmt};{hist}")
                    return
                if last_read is not None and (g is last_read or g.mesh is last_read.mesh or g.mesh.region is last_read.mesh.region
                                              or np.shares_memory(g.array, last_read.array)):
                    ctx.note("read-results-share-objects")
                last_read = g
            else:
                # mutate everything reachable from the object returned by the last read
                ctx.step(1, "mutate last read result in place")
                g = last_read
                g.mesh.translate((1.0, 1.0, 1.0), inplace=True)
                g.array[...] = -7.0
                g.valid[...] = False
                g.mesh.subregions = {}
                g.mesh.bc = ""
    finally:
        shutil.rmtree(d, ignore_errors=True)
