"""Self test of the dfmc engine (MANIFEST.setup_cmd): exhaustive enumeration
counts on toy harnesses, deviation bound, prefix-replay divergence, BFS."""
import compileall
import math
import os
import sys

from mc import engine

VERIF = os.path.dirname(os.path.dirname(os.path.abspath(__file__)))


def _toy(ctx):
    a = ctx.choose("a", [0, 1, 2])
    b = ctx.choose("b", [0, 1]) if a != 1 else ctx.choose("b", [0, 1, 2, 3])
    c = ctx.choose("c", ["x", "y"])
    ctx.step()
    ctx.check()
    ctx.observe(a, b, c)
    if (a, b, c) == (1, 3, "y"):
        ctx.fail("toy/needle", "found")


def main():
    ok = True

    def expect(cond, what):
        nonlocal ok
        print(("ok   " if cond else "FAIL ") + what)
        ok = ok and cond

    r = engine.explore_subtree("toy", _toy, (), "quick", 0, bound=None)
    expect(r.executions == (2 * 2 + 4 * 2 + 2 * 2), f"full product enumerated: {r.executions} == 16")
    expect(len(r.outcomes) == 16, "16 distinct outcomes")
    expect(len(r.violations) == 1, "needle found exactly once")
    for b, n in [(0, 1), (1, 1 + 2 + 1 + 1 + 0), (2, None)]:
        rb = engine.explore_subtree("toy", _toy, (), "quick", 0, bound=b)
        # count by brute force
        cnt = 0
        for a in range(3):
            for bb in range(4 if a == 1 else 2):
                for c in range(2):
                    if sum(1 for z in (a, bb, c) if z) <= b:
                        cnt += 1
        expect(rb.executions == cnt, f"deviation bound {b}: {rb.executions} == {cnt}")
    # frontier split + subtrees == whole
    res, roots = engine.expand_frontier("toy", _toy, "quick", 0, None, target=5)
    for root in roots:
        res.merge(engine.explore_subtree("toy", _toy, root, "quick", 0, bound=None))
    expect(res.executions == 16 and len(res.outcomes) == 16, "frontier + subtrees cover the same 16 executions")
    # divergence must be a hard error
    try:
        engine.run_once("toy", _toy, (0, 3), "quick", 0)
        expect(False, "out-of-range replay must raise")
    except engine.HarnessNondeterminism:
        expect(True, "out-of-range replayed choice raises HarnessNondeterminism")
    try:
        engine.run_once("toy", _toy, (0, 0, 0, 0), "quick", 0)
        expect(False, "too long prefix must raise")
    except engine.HarnessNondeterminism:
        expect(True, "over-long prefix raises HarnessNondeterminism")

    # BFS on a toy counter machine: states 0..5 with +1, *2 (mod 6)
    def toy_bfs(ctx):
        def build(h):
            s = 1
            for e in h:
                s = (s + 1) % 6 if e == "inc" else (s * 2) % 6
            return s

        def on_tr(h, e):
            return build(h + (e,))

        n, t, capped = engine.bfs(ctx, [()], lambda o, h: ["inc", "dbl"], build, lambda s: s, on_tr, depth=10)
        ctx.observe(n, t)
        if n != 6:
            ctx.fail("toy/bfs", f"{n} states")

    c = engine.run_once("bfs", toy_bfs, (), "quick", 0)
    expect(not c.violations and c.transitions == 12, f"BFS closes a 6-state graph with 12 transitions ({c.transitions})")
    # hidden library state between executions: must be reported as a history-dependent VIOLATION with a replayable,
    # minimised sequence - not as harness nondeterminism
    import glob
    import json
    import subprocess

    for f in glob.glob(os.path.join(VERIF, "replays", "T00-*.json")):
        os.remove(f)
    p = subprocess.run([os.path.join(VERIF, "check"), "T00", "--workers", "2"], capture_output=True, text=True, timeout=600)
    expect(p.returncode == 1 and "HISTORY-DEPENDENT" in p.stdout and "HARNESS-NONDETERMINISM" not in p.stdout,
           "hidden state between executions is reported as a history-dependent VIOLATION")
    reps = glob.glob(os.path.join(VERIF, "replays", "T00-*.json"))
    seq = json.load(open(reps[0])).get("sequence") if reps else None
    expect(seq == [[3, 0, 0], [4, 0, 0]], f"its replay holds the minimised two-execution sequence ({seq})")
    if reps:
        p = subprocess.run([os.path.join(VERIF, "check"), "T00", "--replay", reps[0]], capture_output=True, text=True, timeout=600)
        expect(p.returncode == 1 and "VIOLATION property=T00" in p.stdout, "the sequence replay reproduces it in a fresh process")
    expect(compileall.compile_dir(os.path.join(VERIF, "mc"), quiet=1, force=False), "mc compiles")
    expect(compileall.compile_dir(os.path.join(VERIF, "checks"), quiet=1, force=False), "checks compile")
    print("selftest", "passed" if ok else "FAILED")
    return 0 if ok else 1


if __name__ == "__main__":
    sys.exit(main())
