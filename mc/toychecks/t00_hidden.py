"""Toy check used by the self test only: a 'library' with hidden state between calls.  The call lib(a, b) is wrong
exactly when the previous call in the same process was lib(a - 1, b) with a == 4: not reproducible in isolation,
reproducible after that one earlier execution.  The runner must report it as a history-dependent VIOLATION with a
minimised two-element sequence (and must not call it harness nondeterminism)."""
PROPERTY = "T00"
RULE = "toy"
ASSUMPTIONS = []

_LAST = [None]


def _lib(a, b):
    prev, _LAST[0] = _LAST[0], (a, b)
    if a == 4 and prev == (a - 1, b):
        return a + b + 1
    return a + b


def unit_hidden(ctx):
    a = ctx.choose("a", list(range(6)))
    b = ctx.choose("b", list(range(3)))
    c = ctx.choose("c", [0, 1])
    if c:
        return
    ctx.step()
    ctx.check()
    r = _lib(a, b)
    ctx.observe(r)
    if r != a + b:
        ctx.fail("toy.lib/wrong-sum", f"lib({a},{b}) = {r}")


def units(tier):
    return [{"name": "hidden", "fn": unit_hidden, "bound": None}]
