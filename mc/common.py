"""Shared helpers for the check harnesses: tracer data, coded masks, snapshots,
exact-rational lattice, tolerance helpers."""
from __future__ import annotations

import itertools
import math
from fractions import Fraction as Fr

import numpy as np

import discretisedfield as df

# --------------------------------------------------------------------------
# deterministic pseudo random source that does NOT depend on VERIF_SEED


class LCG:
    def __init__(self, s):
        self.s = (s * 2654435761 + 12345) & 0xFFFFFFFF

    def next(self):
        self.s = (self.s * 1664525 + 1013904223) & 0xFFFFFFFF
        return self.s >> 8

    def bit(self):
        return (self.next() >> 7) & 1


def tracer(shape, nvdim, seed=0, cplx=False, dtype=float):
    """Position coded values: a seed-determined permutation of 1..N (exact in
    float64, pairwise distinct, never symmetric by accident)."""
    n = int(np.prod(shape)) * nvdim
    rng = np.random.RandomState(1000 + seed)
    perm = rng.permutation(n) + 1
    a = perm.astype(float).reshape(*shape, nvdim)
    if cplx:
        perm2 = rng.permutation(n) + 1
        a = a + 1j * perm2.astype(float).reshape(*shape, nvdim)
        return a
    return a.astype(dtype)


def coded_mask(shape, k=0, need_false=True):
    """Boolean mask from a fixed generator (independent of VERIF_SEED).  For
    size >= 2 it contains both values; it is not invariant under any axis
    reversal / transposition / cyclic shift that changes the array (verified)."""
    size = int(np.prod(shape))
    for attempt in range(200):
        g = LCG(7919 * (k + 1) + 31 * attempt + size)
        m = np.array([g.bit() for _ in range(size)], dtype=bool).reshape(shape)
        if size >= 2 and (m.all() or not m.any()):
            continue
        if size < 2:
            return m if not need_false else np.zeros(shape, bool) if k % 2 else np.ones(shape, bool)
        ok = True
        for ax in range(len(shape)):
            if shape[ax] > 1:
                if np.array_equal(np.flip(m, ax), m):
                    ok = False
                for s in range(1, shape[ax]):
                    if np.array_equal(np.roll(m, s, ax), m):
                        ok = False
        for a, b in itertools.combinations(range(len(shape)), 2):
            if shape[a] == shape[b] and shape[a] > 1 and np.array_equal(np.swapaxes(m, a, b), m):
                ok = False
        if ok or size <= 3:
            return m
    return m


def ulp(x):
    return float(np.spacing(abs(float(x)))) if x != 0 else 5e-324


def region_snap(r):
    return (tuple(np.asarray(r.pmin, dtype=float).tolist()), tuple(np.asarray(r.pmax, dtype=float).tolist()),
            tuple(r.dims), tuple(r.units), float(r.tolerance_factor))


def mesh_snap(m):
    return (region_snap(m.region), tuple(int(i) for i in m.n), m.bc,
            tuple((k, region_snap(v)) for k, v in m.subregions.items()))


def field_snap(f):
    return (mesh_snap(f.mesh), int(f.nvdim), None if f.vdims is None else tuple(f.vdims),
            tuple(sorted(f.vdim_mapping.items())) if f.vdim_mapping else (), f.unit,
            f.array.dtype.str, f.array.shape, f.array.tobytes(), f.valid.dtype.str, f.valid.shape,
            f.valid.tobytes())


def snap(o):
    if isinstance(o, df.Field):
        return field_snap(o)
    if isinstance(o, df.Mesh):
        return mesh_snap(o)
    return region_snap(o)


def raises(fn, *a, **k):
    """(raised?, exception or result)"""
    try:
        r = fn(*a, **k)
    except Exception as e:  # noqa
        return True, e
    return False, r


def expect_raises(ctx, sig, fn, *a, **k):
    ctx.step()
    ctx.check()
    r, v = raises(fn, *a, **k)
    if not r:
        ctx.fail(sig, "call was accepted but the property says it must be rejected", returned=type(v).__name__)
    return r


# --------------------------------------------------------------------------
# exact lattice


class Lattice:
    """Exact-rational description of the lattice of a mesh, built from the
    ACTUAL float corners (Fraction(float) is exact)."""

    def __init__(self, pmin, pmax, n):
        self.pmin = [Fr(float(x)) for x in pmin]
        self.pmax = [Fr(float(x)) for x in pmax]
        self.n = [int(i) for i in n]
        self.cell = [(b - a) / k for a, b, k in zip(self.pmin, self.pmax, self.n)]
        self.ndim = len(self.n)

    @classmethod
    def of(cls, mesh):
        return cls(mesh.region.pmin, mesh.region.pmax, mesh.n)

    def centre(self, ax, i):
        return self.pmin[ax] + (Fr(2 * i + 1, 2)) * self.cell[ax]

    def face(self, ax, i):
        return self.pmin[ax] + i * self.cell[ax]

    def floor_index(self, ax, x):
        """exact cell index of coordinate x (last cell upper inclusive), or None if outside"""
        x = Fr(float(x))
        if x < self.pmin[ax] or x > self.pmax[ax]:
            return None
        i = math.floor((x - self.pmin[ax]) / self.cell[ax])
        return min(i, self.n[ax] - 1)

    def dist_to_face(self, ax, x):
        """distance (exact) of x to the nearest cell face along ax"""
        x = Fr(float(x))
        t = (x - self.pmin[ax]) / self.cell[ax]
        r = t - math.floor(t)
        return min(r, 1 - r) * self.cell[ax]

    def magnitude(self, ax):
        return max(abs(float(self.pmin[ax])), abs(float(self.pmax[ax])))


def close(x, exact, tol):
    return abs(Fr(float(x)) - exact) <= tol


def fr(x):
    return Fr(float(x))


# --------------------------------------------------------------------------
# misc

DIMSETS = {
    1: [("x",), ("a",)],
    2: [("x", "y"), ("a", "b"), ("y", "x")],
    3: [("x", "y", "z"), ("a", "b", "c"), ("z", "x", "y")],
    4: [("x0", "x1", "x2", "x3"), ("a", "b", "c", "d"), ("t", "z", "x", "y")],
}
UNITSETS = {1: ("m",), 2: ("m", "m"), 3: ("m", "m", "m"), 4: ("m",) * 4}
UNITS_DISTINCT = ("nm", "um", "s", "K")


def make_mesh(pmin, pmax, n, dims=None, units=None, bc="", subregions=None, tol=1e-12):
    r = df.Region(p1=pmin, p2=pmax, dims=dims, units=units, tolerance_factor=tol)
    return df.Mesh(region=r, n=n, bc=bc, subregions=subregions)


def same_bytes(a, b):
    a, b = np.asarray(a), np.asarray(b)
    return a.shape == b.shape and a.dtype == b.dtype and a.tobytes() == b.tobytes()


def eq_nan(a, b):
    a, b = np.asarray(a), np.asarray(b)
    if a.shape != b.shape:
        return False
    return bool(np.array_equal(a, b, equal_nan=True)) if a.dtype.kind in "fc" or b.dtype.kind in "fc" else bool(np.array_equal(a, b))


def maxrelerr(got, exp, scale=None):
    got, exp = np.asarray(got, dtype=complex if np.iscomplexobj(got) or np.iscomplexobj(exp) else float), np.asarray(exp)
    if got.shape != exp.shape:
        return float("inf")
    s = np.max(np.abs(exp)) if scale is None else scale
    if s == 0:
        s = 1.0
    return float(np.max(np.abs(got - exp)) / s) if got.size else 0.0


def region_of(obj):
    if isinstance(obj, df.Field):
        return obj.mesh.region
    if isinstance(obj, df.Mesh):
        return obj.region
    return obj


def mesh_of(obj):
    if isinstance(obj, df.Field):
        return obj.mesh
    return obj if isinstance(obj, df.Mesh) else None


def approx_equal_geom(a, b, tol):
    """a (in place result) vs b (copy result): metadata exactly, corners within tol"""
    ra, rb = region_of(a), region_of(b)
    if tuple(ra.dims) != tuple(rb.dims):
        return f"dims {ra.dims} vs {rb.dims}"
    if tuple(ra.units) != tuple(rb.units):
        return f"units {ra.units} vs {rb.units}"
    for x, y in zip(list(ra.pmin) + list(ra.pmax), list(rb.pmin) + list(rb.pmax)):
        if abs(float(x) - float(y)) > tol:
            return f"corner {x!r} vs {y!r}"
    ma, mb = mesh_of(a), mesh_of(b)
    if ma is not None:
        if list(ma.n) != list(mb.n):
            return f"n {ma.n} vs {mb.n}"
        if ma.bc != mb.bc:
            return f"bc {ma.bc!r} vs {mb.bc!r}"
        if list(ma.subregions) != list(mb.subregions):
            return f"subregions {list(ma.subregions)} vs {list(mb.subregions)}"
        for k in ma.subregions:
            sa, sb = ma.subregions[k], mb.subregions[k]
            if tuple(sa.units) != tuple(sb.units) or tuple(sa.dims) != tuple(sb.dims):
                return f"subregion {k} units/dims {sa.units}{sa.dims} vs {sb.units}{sb.dims}"
            for x, y in zip(list(sa.pmin) + list(sa.pmax), list(sb.pmin) + list(sb.pmax)):
                if abs(float(x) - float(y)) > tol:
                    return f"subregion {k} corner {x!r} vs {y!r}"
    if isinstance(a, df.Field):
        if a.array.shape != b.array.shape or not np.array_equal(a.array, b.array):
            return "array differs"
        if a.valid.shape != b.valid.shape or not np.array_equal(a.valid, b.valid):
            return "validity differs"
        if a.vdims != b.vdims or a.vdim_mapping != b.vdim_mapping or a.unit != b.unit or a.nvdim != b.nvdim:
            return "labels/mapping/unit differ"
    return None




# --------------------------------------------------------------------------
# derived observables of a live object vs a freshly constructed equal object
# ("the state reached by a history must answer like the same state built directly")


def fresh_copy(obj):
    """A new object built by the public constructors from the PRIMARY attributes of ``obj`` (corners, names, units,
    tolerance, n, bc, subregions, values, validity, labels, mapping, unit).  Nothing is shared with ``obj``."""
    def reg(r):
        return df.Region(p1=np.array(r.pmin), p2=np.array(r.pmax), dims=list(r.dims), units=list(r.units),
                         tolerance_factor=r.tolerance_factor)
    if isinstance(obj, df.Region):
        return reg(obj)
    m = mesh_of(obj)
    mesh = df.Mesh(region=reg(m.region), n=[int(i) for i in m.n], bc=m.bc,
                   subregions={k: reg(v) for k, v in m.subregions.items()})
    if isinstance(obj, df.Mesh):
        return mesh
    return df.Field(mesh, nvdim=int(obj.nvdim), value=np.array(obj.array), vdims=None if obj.vdims is None else list(obj.vdims),
                    vdim_mapping=dict(obj.vdim_mapping), unit=obj.unit, valid=np.array(obj.valid), dtype=obj.array.dtype)


def observables(obj):
    """{name: value} of the public DERIVED quantities of a Region / Mesh / Field (everything that is a function of the
    primary attributes).  Values are numpy arrays / tuples so that they can be compared bit for bit."""
    out = {}
    r = region_of(obj)
    out["region.edges"] = np.asarray(r.edges, dtype=float)
    out["region.center"] = np.asarray(r.center, dtype=float)
    out["region.volume"] = np.asarray(float(r.volume))
    out["region.ndim"] = r.ndim
    out["centre in region"] = bool(r.center in r)
    m = mesh_of(obj)
    if m is not None:
        out["mesh.cell"] = np.asarray(m.cell, dtype=float)
        out["mesh.dV"] = np.asarray(float(m.dV))
        out["len(mesh)"] = len(m)
        for k, d in enumerate(r.dims):
            out[f"mesh.cells.{d}"] = np.asarray(getattr(m.cells, d), dtype=float)
            out[f"mesh.vertices.{d}"] = np.asarray(getattr(m.vertices, d), dtype=float)
        idx = [tuple(int(x) for x in i) for i in m.indices]
        out["mesh.indices"] = tuple(idx)
        last = tuple(int(k) - 1 for k in m.n)
        out["index2point(first)"] = np.asarray(m.index2point(tuple(0 for _ in last)), dtype=float)
        out["index2point(last)"] = np.asarray(m.index2point(last), dtype=float)
        out["point2index(centre)"] = tuple(int(x) for x in m.point2index(r.center))
        out["coordinate_field"] = np.asarray(m.coordinate_field().array, dtype=float)
        for name in m.subregions:
            sm = m[name]
            out[f"mesh[{name}].n"] = tuple(int(x) for x in sm.n)
    if isinstance(obj, df.Field):
        out["field.integrate()"] = np.asarray(obj.integrate())
        out["field.mean()"] = np.asarray(obj.mean())
        out["field.norm"] = np.asarray(obj.norm.array)
        out["field(centre)"] = np.asarray(obj(r.center))
    return out


def observables_differ(a, b):
    """first difference between two observable dictionaries, or None"""
    for k in a:
        if k not in b:
            return f"{k}: missing"
        x, y = a[k], b[k]
        if isinstance(x, np.ndarray) or isinstance(y, np.ndarray):
            x, y = np.asarray(x), np.asarray(y)
            same = x.shape == y.shape and (x.tobytes() == y.tobytes() or np.array_equal(x, y, equal_nan=True))
            if not same and x.shape == y.shape and x.dtype.kind in "fc" and y.dtype.kind in "fc":
                # a few ulp are not a property violation (an implementation may update a stored quantity instead of
                # recomputing it); anything stale is off by a finite fraction
                scale = max(float(np.max(np.abs(x))) if x.size else 0.0, float(np.max(np.abs(y))) if y.size else 0.0)
                same = bool(np.all(np.abs(x - y) <= 1e-12 * scale))
            if not same:
                return f"{k}: {np.array2string(x.ravel()[:6], precision=17)} (live object) vs {np.array2string(y.ravel()[:6], precision=17)} (fresh object with the same attributes)"
        elif x != y:
            return f"{k}: {str(x)[:120]} (live object) vs {str(y)[:120]} (fresh object with the same attributes)"
    return None


def gt(a, b):
    """NaN-aware ``a > b`` for failure tests: True also when the comparison is undefined (a NaN on either side), so that
    a result that is not a number can never pass as "within tolerance".  Arrays: True if any entry exceeds / is NaN."""
    with np.errstate(invalid="ignore"):
        le = np.asarray(np.asarray(a) <= np.asarray(b), dtype=bool)   # (also for exact rationals held as objects)
    return not bool(le.all())
