"""KNOWN_FINDINGS.txt reader.  Checks only ever READ these files.

finding: property=C14 sig=<signature> instances=findings/<file>.instances :: <what fails>
fixed: property=C10 <commit> <what failed>
"""
import os
import re

from mc import engine


def sigfile(pid, sig):
    safe = re.sub(r"[^A-Za-z0-9_.-]+", "_", sig)[:60]
    return f"{pid}-{safe}-{engine.hhex(sig)[:8]}.instances"


class Entry:
    def __init__(self, pid, sig, inst_path, text, instances):
        self.pid, self.sig, self.inst_path, self.text, self.instances = pid, sig, inst_path, text, instances
        self.key = (pid, sig)


class Known:
    def __init__(self):
        self.entries = {}
        self.fixed = []

    def match(self, pid, sig, ihash):
        e = self.entries.get((pid, sig))
        if e is not None and ihash in e.instances:
            return e
        return None


def load(verif):
    k = Known()
    p = os.path.join(verif, "KNOWN_FINDINGS.txt")
    if not os.path.exists(p):
        return k
    for line in open(p):
        line = line.strip()
        if not line or line.startswith("#"):
            continue
        if line.startswith("fixed:"):
            k.fixed.append(line)
            continue
        m = re.match(r"finding:\s+property=(\S+)\s+sig=(\S+)\s+instances=(\S+)\s+::\s+(.*)$", line)
        if not m:
            raise SystemExit(f"HARNESS-ERROR malformed KNOWN_FINDINGS line: {line}")
        pid, sig, ip, text = m.groups()
        inst = set()
        fp = os.path.join(verif, ip)
        if os.path.exists(fp):
            inst = set(open(fp).read().split())
        k.entries[(pid, sig)] = Entry(pid, sig, ip, text, inst)
    return k
