"""CLI / orchestration for the dfmc checks: ./check Cxx [--tier quick|thorough]
[--replay FILE] [--workers N] [--dump-instances] [--unit NAME]"""
from __future__ import annotations

import argparse
import glob
import importlib.util
import json
import multiprocessing
import os
import subprocess
import sys
import time
import traceback

VERIF = os.path.dirname(os.path.dirname(os.path.abspath(__file__)))
sys.path.insert(0, VERIF)

from mc import engine  # noqa: E402
from mc import findings as findings_mod  # noqa: E402

REPO = os.environ.get("DFMC_REPO", "/repo")

_UNITS = {}  # name -> (fn, bound)   (inherited by forked workers)
_TIER = "quick"
_SEED = 0
# DFMC_FAILFAST=1 (used by tools/mutsweep.py against scratch copies only): stop exploring after the first round that
# produced a violation.  Ignored when the tree under check is /repo itself, so evidence is never produced this way.
_FAILFAST = os.environ.get("DFMC_FAILFAST") == "1" and os.path.realpath(REPO) != "/repo"


def _load_check(pid):
    pats = glob.glob(os.path.join(VERIF, "checks", pid.lower() + "_*.py"))
    if pid.startswith("T"):  # toy checks of the self test
        pats = glob.glob(os.path.join(VERIF, "mc", "toychecks", pid.lower() + "_*.py"))
    if len(pats) != 1:
        raise SystemExit(f"no unique check module for {pid}: {pats}")
    spec = importlib.util.spec_from_file_location("checks_" + pid.lower(), pats[0])
    mod = importlib.util.module_from_spec(spec)
    sys.modules[spec.name] = mod
    spec.loader.exec_module(mod)
    return mod


def _repo_ident():
    try:
        head = subprocess.run(["git", "-C", REPO, "rev-parse", "HEAD"], capture_output=True,
                              text=True, timeout=20).stdout.strip()
        diff = subprocess.run(["git", "-C", REPO, "diff", "HEAD", "--", "discretisedfield"],
                              capture_output=True, timeout=60).stdout
        return head, engine.hhex(diff) if diff else ""
    except Exception:
        return "unknown", "unknown"


def _expand(arg):
    """frontier expansion of one unit, executed in a forked child: the parent process never runs library code, so every
    worker task starts from pristine library state and its recorded history is complete"""
    name, bound, target = arg
    fn = _UNITS[name][0]
    try:
        res, roots = engine.expand_frontier(name, fn, _TIER, _SEED, bound, target=target)
        return res, roots
    except engine.HarnessNondeterminism as e:
        r = engine.Result()
        r.errors.append(f"HARNESS-NONDETERMINISM {e}")
        return r, []


def _rerun(arg):
    """determinism guard, executed in a forked child (pristine library state): does the execution violate sig again?"""
    unit, prefix, sig = arg
    try:
        ctx2 = engine.run_once(unit, _UNITS[unit][0], prefix, _TIER, _SEED, replaying=True)
        return any(x.sig == sig for x in ctx2.violations)
    except Exception:  # noqa
        return False


def _in_child(fn, arg):
    ctxmp = multiprocessing.get_context("fork")
    with ctxmp.Pool(1, maxtasksperchild=1) as pool:
        return pool.apply(fn, (arg,))


def _task(arg):
    unit, root, bound, budget, max_exec = arg
    fn = _UNITS[unit][0]
    try:
        return engine.explore_subtree(unit, fn, root, _TIER, _SEED, bound=bound, budget=budget, max_exec=max_exec)
    except engine.HarnessNondeterminism as e:
        r = engine.Result()
        r.errors.append(f"HARNESS-NONDETERMINISM {e}")
        return r
    except Exception:
        r = engine.Result()
        r.errors.append("ENGINE-ERROR " + traceback.format_exc(limit=6))
        return r


def _lib_import():
    os.environ.setdefault("MPLBACKEND", "Agg")
    import warnings

    warnings.filterwarnings("ignore")
    import discretisedfield as df

    p = os.path.realpath(df.__file__)
    if not p.startswith(os.path.realpath(REPO) + os.sep):
        raise SystemExit(f"HARNESS-ERROR discretisedfield imported from {p}, not {REPO}")
    return df


def run_check(pid, tier, seed, workers, only_unit=None, dump_instances=False, time_budget=None):
    global _TIER, _SEED
    t0 = time.time()
    _TIER, _SEED = tier, seed
    _lib_import()
    mod = _load_check(pid)
    units = mod.units(tier)
    total = engine.Result()
    per_unit = {}
    bounds = {}
    ctxmp = multiprocessing.get_context("fork")
    for u in units:
        name, fn = u["name"], u["fn"]
        if only_unit and name != only_unit:
            continue
        bound = u.get("bound")
        bounds[name] = bound
        _UNITS[name] = (fn, bound)
    exhaustive = True
    known0 = findings_mod.load(VERIF)

    def _unlisted(vs):  # violations that are not listed known findings (fail-fast must not stop on a known finding)
        return [v for v in vs if known0.match(pid, v.sig, v.ihash) is None]

    for name, (fn, bound) in list(_UNITS.items()):
        if _FAILFAST and _unlisted(total.violations):
            break
        tu = time.time()
        res, roots = _in_child(_expand, (name, bound, max(1, workers * 12) if workers > 1 else 1))
        if roots:
            if workers > 1 and len(roots) > 1:
                with ctxmp.Pool(workers, maxtasksperchild=1) as pool:  # every task starts on a fresh fork of the parent
                    max_exec = 150
                    while roots:
                        tasks = [(name, r, bound, time_budget, max_exec) for r in roots]
                        roots = []
                        for r in pool.imap_unordered(_task, tasks, chunksize=1):
                            roots.extend(getattr(r, "leftover", []))
                            r.leftover = []
                            res.merge(r)
                        if _FAILFAST and _unlisted(res.violations):
                            res.notes["cap:failfast"] = 1  # mutation sweeps only: never exhaustive, never evidence
                            roots = []
                        roots.sort()
                        max_exec = min(max_exec * 2, 5000)
            else:
                for r0 in roots:
                    res.merge(_task((name, r0, bound, time_budget, None)))
        per_unit[name] = {
            "executions": res.executions, "transitions": res.transitions,
            "checks": res.checks, "states": len(res.states),
            "distinct_outcomes": len(res.outcomes), "violations": len(res.violations),
            "wall_s": round(time.time() - tu, 2), "deviation_bound": bound,
            "notes": dict(sorted(res.notes.items())),
        }
        if any(k.startswith("cap:") for k in res.notes):
            exhaustive = False
        total.merge(res)
        # keep per-unit first sample too
    # ---------------- verdicts ------------------------------------------
    known = findings_mod.load(VERIF)
    out_lines = []
    exit_code = 0
    if total.errors:
        for e in total.errors[:10]:
            out_lines.append(e)
        exit_code = 2
    by_sig = {}
    for v in total.violations:
        by_sig.setdefault(v.sig, []).append(v)
    harness_err = [s for s in by_sig if s.startswith("HARNESS-ERROR")]
    for s in harness_err:
        v = by_sig[s][0]
        out_lines.append(f"HARNESS-ERROR unit={v.unit} {s} {v.msg} choices={v.choices} {v.detail.get('tb','')}")
        exit_code = 2
    known_seen = {}
    new_by_sig = {}
    for sig, vs in by_sig.items():
        if sig.startswith("HARNESS-ERROR"):
            continue
        for v in vs:
            ent = known.match(pid, sig, v.ihash)
            if ent is not None:
                known_seen.setdefault(ent.key, [ent, 0])[1] += 1
            else:
                new_by_sig.setdefault(sig, []).append(v)
    if dump_instances:
        os.makedirs(os.path.join(VERIF, "findings", "dump"), exist_ok=True)
        for sig, vs in by_sig.items():
            if sig.startswith("HARNESS-ERROR"):
                continue
            fn_ = os.path.join(VERIF, "findings", "dump", findings_mod.sigfile(pid, sig))
            old = set()
            if os.path.exists(fn_):
                old = set(open(fn_).read().split())
            new = old | {v.ihash for v in vs}
            with open(fn_, "w") as f:
                f.write("\n".join(sorted(new)) + "\n")
            print(f"DUMP {sig}: {len(vs)} instances (file now {len(new)}) e.g. {vs[0].msg[:200]} :: {vs[0].instance[:300]}")
    os.makedirs(os.path.join(VERIF, "replays"), exist_ok=True)
    nviol = 0
    for sig, vs in sorted(new_by_sig.items()):
        v = min(vs, key=lambda x: (len(x.choices), sum(c[1] for c in x.choices), x.instance))
        # determinism guard: re-run this execution on fresh objects
        prefix = [c[1] for c in v.choices]
        again = _in_child(_rerun, (v.unit, prefix, sig))
        path = os.path.join("replays", f"{pid}-{engine.hhex(sig)[:10]}.json")
        if not again:
            # Not reproducible in isolation.  Either the harness is nondeterministic (a harness error), or the LIBRARY
            # carries hidden state between calls (a cache, a shared default, a reused buffer) and the outcome depends
            # on the executions that ran before in the same worker task.  Replay that recorded history in a fresh
            # interpreter; if the violation reproduces there it is a deterministic, history-dependent violation.
            cands = sorted((x for x in vs if x.history), key=lambda x: len(x.history))
            seqd = None
            for vh in cands[:3]:
                seqd = _confirm_history(pid, tier, seed, vh, path)
                if seqd is not None:
                    v = vh
                    break
            if seqd is None:
                out_lines.append(f"HARNESS-NONDETERMINISM property={pid} sig={sig} did not reproduce on re-run")
                exit_code = max(exit_code, 2)
                continue
            out_lines.append(f"VIOLATION property={pid} replay={path}")
            out_lines.append(f"  sig={sig} instances={len(vs)} first: {v.msg}")
            out_lines.append(f"  HISTORY-DEPENDENT: passes in isolation, fails after {len(seqd) - 1} earlier execution(s) in the same "
                             f"process (hidden state in the library); replay file holds the minimised sequence")
            out_lines.append(f"  choices: {'; '.join(f'{n}={val}' for n, _, val in v.choices)}")
            nviol += 1
            exit_code = 1 if exit_code == 0 else exit_code
            continue
        with open(os.path.join(VERIF, path), "w") as f:
            json.dump({"property": pid, "tier": tier, "seed": seed, "unit": v.unit, "sig": sig,
                       "prefix": prefix, "choices": [list(c) for c in v.choices],
                       "msg": v.msg, "detail": v.detail, "instances_failing": len(vs),
                       "instance": v.instance}, f, indent=1)
        out_lines.append(f"VIOLATION property={pid} replay={path}")
        out_lines.append(f"  sig={sig} instances={len(vs)} first: {v.msg}")
        out_lines.append(f"  choices: {'; '.join(f'{n}={val}' for n, _, val in v.choices)}")
        nviol += 1
        exit_code = 1 if exit_code == 0 else exit_code
    for key, (ent, cnt) in sorted(known_seen.items()):
        out_lines.append(f"KNOWN-FINDING: property={pid} {ent.text} [sig={ent.sig} instances_seen={cnt}]")
    # ---------------- evidence ------------------------------------------
    head, dsha = _repo_ident()
    samples = total.samples[:3]
    if total.last_sample is not None:
        samples.append(total.last_sample)
    for name, pu in per_unit.items():
        pass
    ev = {
        "property_id": pid,
        "tier": tier,
        "seed": seed,
        "level": "model_checking",
        "coverage": {
            "states": len(total.states),
            "transitions": total.transitions,
            "traces_validated_against_impl": total.executions,
            "samples": samples,
            "evaluations": total.executions,
            "distinct_nontrivial": len(total.outcomes),
            "oracle_comparisons": total.checks,
            "rule": getattr(mod, "RULE", "") + " | states = distinct choice vectors (configurations) plus "
                    "distinct canonical object states visited by explicit-state search; transitions = checked "
                    "calls into the real library; distinct_nontrivial = distinct observation digests among "
                    "executions that reached at least one oracle comparison.",
            "exhaustive": bool(exhaustive and not total.errors),
            "deviation_bound": {k: ("full-product" if v is None else v) for k, v in bounds.items()},
            "caps_hit": sorted(k for k in total.notes if k.startswith("cap:")),
            "alphabet_sizes": total.alphabet,
            "max_choice_depth": total.max_depth,
            "per_unit": per_unit,
            "notes": dict(sorted(total.notes.items())),
            "known_findings_seen": [f"{e.sig} x{c}" for _, (e, c) in sorted(known_seen.items())],
            "repo_head": head,
            "repo_dirty_sha": dsha,
            "engine": "dfmc (bounded-exhaustive choice-point exploration of the implementation; "
                      "every explored trace is executed on the real library)",
        },
        "assumptions": list(getattr(mod, "ASSUMPTIONS", [])),
        "wall_s": round(time.time() - t0, 2),
        "violations": nviol,
    }
    evdir = (os.path.join(VERIF, "evidence") if os.path.realpath(REPO) == "/repo" and not only_unit and not pid.startswith("T")
             else os.path.join(VERIF, ".scratch", "evidence"))  # partial (--unit) and scratch-repo runs are not evidence
    os.makedirs(evdir, exist_ok=True)  # runs against a scratch copy never touch the committed evidence
    evp = os.path.join(evdir, f"{pid}.json")
    try:
        import jsonschema

        schema = json.load(open("/root/.vp/EVIDENCE.schema.json"))
        jsonschema.validate(ev, schema)
    except FileNotFoundError:
        pass
    except ImportError:
        pass
    with open(evp + ".tmp", "w") as f:
        json.dump(ev, f, indent=1, default=str)
    os.replace(evp + ".tmp", evp)
    print(f"[{pid}] tier={tier} seed={seed} executions={total.executions} states={len(total.states)} "
          f"transitions={total.transitions} comparisons={total.checks} outcomes={len(total.outcomes)} "
          f"exhaustive={ev['coverage']['exhaustive']} wall={ev['wall_s']}s")
    for name, pu in per_unit.items():
        print(f"   unit {name}: exec={pu['executions']} trans={pu['transitions']} checks={pu['checks']} "
              f"outcomes={pu['distinct_outcomes']} viol={pu['violations']} {pu['wall_s']}s notes={pu['notes']}")
    for l in out_lines:
        print(l)
    sys.stdout.flush()
    return exit_code


def _confirm_history(pid, tier, seed, v, path):
    """Replay v.history + v in a FRESH interpreter (minimising the history there).  Returns the minimised sequence
    (list of choice prefixes, the failing execution last) if the violation reproduces, else None."""
    full = os.path.join(VERIF, path)
    prefix = [c[1] for c in v.choices]
    with open(full, "w") as f:
        json.dump({"property": pid, "tier": tier, "seed": seed, "unit": v.unit, "sig": v.sig, "prefix": prefix,
                   "choices": [list(c) for c in v.choices], "msg": v.msg, "detail": v.detail, "instance": v.instance,
                   "sequence": [list(h) for h in v.history] + [prefix]}, f)
    try:
        p = subprocess.run([sys.executable, "-W", "ignore", os.path.abspath(__file__), pid, "--minimise-seq", full],
                           capture_output=True, text=True, timeout=1500)
    except subprocess.TimeoutExpired:
        return None
    if p.returncode != 1:
        return None
    return json.load(open(full)).get("sequence")


def _unit_fn(mod, tier, unit):
    for u in mod.units(tier):
        if u["name"] == unit:
            return u["fn"]
    return None


def minimise_seq(pid, path):
    """(internal) fresh process: does the recorded sequence reproduce the violation?  If so shrink it (each candidate
    sequence runs in a forked child, i.e. on pristine library state) and rewrite the replay file.  Exit 1 = reproduces."""
    d = json.load(open(path))
    global _TIER, _SEED
    _TIER, _SEED = d["tier"], d["seed"]
    _lib_import()
    fn = _unit_fn(_load_check(pid), d["tier"], d["unit"])
    if fn is None:
        return 2
    seq = [tuple(x) for x in d["sequence"]]
    sig = d["sig"]

    def fails(cand):
        sys.stdout.flush()
        child = os.fork()
        if child == 0:
            rc = 3
            try:
                for pre in cand[:-1]:
                    engine.run_once(d["unit"], fn, pre, d["tier"], d["seed"])
                ctx = engine.run_once(d["unit"], fn, cand[-1], d["tier"], d["seed"], replaying=True)
                rc = 1 if any(x.sig == sig for x in ctx.violations) else 0
            except BaseException:
                rc = 3
            os._exit(rc)
        _, st = os.waitpid(child, 0)
        return os.WIFEXITED(st) and os.WEXITSTATUS(st) == 1

    if not fails(seq):
        return 0
    best = seq
    if fails(seq[-1:]):
        best = seq[-1:]
    else:
        found = False
        for h in list(reversed(seq[:-1]))[:800]:
            if fails([h, seq[-1]]):
                best, found = [h, seq[-1]], True
                break
        if not found:  # shrink to a short failing suffix by halving
            lo = 0
            while len(best) - 1 - lo > 1:
                mid = lo + (len(best) - 1 - lo) // 2
                if fails(best[mid:]):
                    lo = mid
                else:
                    break
            best = best[lo:]
            if not fails(best):
                best = seq
    d["sequence"] = [list(x) for x in best]
    d["history_dependent"] = True
    with open(path, "w") as f:
        json.dump(d, f, indent=1)
    return 1


def replay(pid, path):
    if not os.path.isabs(path):
        path = os.path.join(VERIF, path)
    d = json.load(open(path))
    global _TIER, _SEED
    _TIER, _SEED = d["tier"], d["seed"]
    _lib_import()
    mod = _load_check(pid)
    fn = None
    for u in mod.units(d["tier"]):
        if u["name"] == d["unit"]:
            fn = u["fn"]
    if fn is None:
        print(f"HARNESS-ERROR unit {d['unit']} no longer exists")
        return 2
    for pre in d.get("sequence", [])[:-1]:  # history-dependent violation: the earlier executions of the sequence first
        engine.run_once(d["unit"], fn, pre, d["tier"], d["seed"])
    ctx = engine.run_once(d["unit"], fn, d["prefix"], d["tier"], d["seed"], replaying=True)
    got = [list(c) for c in ctx.record]
    if got[: len(d["choices"])] != d["choices"]:
        print("HARNESS-ERROR replay diverged: the alphabets changed since this replay was recorded")
        print(" recorded:", d["choices"])
        print(" now     :", got)
        return 2
    hits = [v for v in ctx.violations if v.sig == d["sig"]]
    for v in ctx.violations:
        print(f"  {v.sig}: {v.msg} {v.detail}")
    if hits:
        print(f"VIOLATION property={pid} replay={os.path.relpath(path, VERIF)}")
        return 1
    print(f"[{pid}] replay: no violation with sig {d['sig']}")
    return 0


def main(argv=None):
    ap = argparse.ArgumentParser()
    ap.add_argument("property", nargs="?")
    ap.add_argument("--tier", default=os.environ.get("VERIF_TIER", "quick"), choices=["quick", "thorough"])
    ap.add_argument("--replay")
    ap.add_argument("--workers", type=int, default=int(os.environ.get("DFMC_WORKERS", "0")) or min(16, os.cpu_count() or 1))
    ap.add_argument("--unit")
    ap.add_argument("--dump-instances", action="store_true")
    ap.add_argument("--selftest", action="store_true")
    ap.add_argument("--minimise-seq", help=argparse.SUPPRESS)
    ap.add_argument("--budget", type=float, default=None, help="per-subtree time cap (reported as cap)")
    a = ap.parse_args(argv)
    if a.selftest:
        from mc import selftest

        return selftest.main()
    if not a.property:
        ap.error("property id required")
    pid = a.property.upper()
    seed = int(os.environ.get("VERIF_SEED", "0") or 0)
    if a.minimise_seq:
        return minimise_seq(pid, a.minimise_seq)
    if a.replay:
        return replay(pid, a.replay)
    return run_check(pid, a.tier, seed, a.workers, a.unit, a.dump_instances, a.budget)


if __name__ == "__main__":
    sys.exit(main())
